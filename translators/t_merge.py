"""t_merge: regenerate, for C13,
  * the escape chain and separator of _merge_columns._join_names,
  * the row pipeline of _merge_columns (what is iterated, what is applied to every row),
  * the two feature blocks of _validate_and_reformat_input (what precedes the merge, the test that guards it,
    the argument it is applied to, what follows, the position in the returned tuple),
  * how ThresholdOptimizer.fit and InterpolatedThresholder._pmf_predict / predict obtain the vector of group keys.
Fail closed: every shape that is not recognised raises; recognised-but-different shapes are emitted as different
tags, and props/C13.v compares the tags with the expected ones by computation."""
import ast
from pathlib import Path

OUTPUTS = ["Gen_merge.v"]
SRC = "fairlearn/utils/_input_validation.py"
SRC_TO = "fairlearn/postprocessing/_threshold_optimizer.py"
SRC_IT = "fairlearn/postprocessing/_interpolated_thresholder.py"


def _const_str(node, consts):
    if isinstance(node, ast.Constant) and isinstance(node.value, str):
        return node.value
    if isinstance(node, ast.Name) and node.id in consts:
        return consts[node.id]
    if isinstance(node, ast.JoinedStr):
        out = ""
        for v in node.values:
            if isinstance(v, ast.Constant) and isinstance(v.value, str):
                out += v.value
            elif isinstance(v, ast.FormattedValue) and v.conversion == -1 and v.format_spec is None:
                out += _const_str(v.value, consts)
            else:
                raise ValueError(f"unsupported f-string part at line {node.lineno}")
        return out
    raise ValueError(f"not a constant string expression at line {getattr(node, 'lineno', '?')}: {ast.dump(node)[:80]}")


def _zs(s):
    return "[" + "; ".join(str(ord(c)) for c in s) + "]"


# ---------------------------------------------------------------------------------------------
# call sites: _validate_and_reformat_input, ThresholdOptimizer, InterpolatedThresholder
# ---------------------------------------------------------------------------------------------

def _cs(s):
    s = " | ".join(ln.strip() for ln in s.splitlines())       # a compound statement becomes one tag
    return '"' + s.replace('"', '""') + '"'


def _cl(xs):
    return "[" + ";\n     ".join(_cs(x) for x in xs) + "]"


def _strip_doc(body):
    if body and isinstance(body[0], ast.Expr) and isinstance(body[0].value, ast.Constant) \
            and isinstance(body[0].value.value, str):
        return body[1:]
    return body


def _names(node, name, ctx=None):
    return [n for n in ast.walk(node) if isinstance(n, ast.Name) and n.id == name
            and (ctx is None or isinstance(n.ctx, ctx))]


def _fn(body, name, what):
    f = [n for n in body if isinstance(n, ast.FunctionDef) and n.name == name]
    if len(f) != 1:
        raise ValueError(f"{what}: expected exactly one definition of {name}, found {len(f)}")
    return f[0]


def _cls(tree, name):
    c = [n for n in tree.body if isinstance(n, ast.ClassDef) and n.name == name]
    if len(c) != 1:
        raise ValueError(f"class {name}: expected exactly one definition, found {len(c)}")
    return c[0]


def _block(v, stmts):
    """-> (pre, cond, checked, post) of one feature block"""
    idx = [k for k, s in enumerate(stmts) if _names(s, "_merge_columns")]
    if not idx:
        return [ast.unparse(s) for s in stmts], "Never", False, []
    if len(idx) != 1:
        raise ValueError(f"block {v}: _merge_columns is mentioned in {len(idx)} statements")
    k = idx[0]
    s = stmts[k]
    want = f"{v} = _merge_columns({v})"
    if isinstance(s, ast.If):
        if s.orelse or len(s.body) != 1:
            raise ValueError(f"block {v}: the merge is not the single statement of an if without else")
        cond = "MultiColumn" if ast.unparse(s.test) == f"len({v}.shape) > 1 and {v}.shape[1] > 1" else "OtherCond"
        checked = ast.unparse(s.body[0]) == want
    elif isinstance(s, ast.Assign):
        cond, checked = "Always", ast.unparse(s) == want
    else:
        raise ValueError(f"block {v}: unsupported statement around _merge_columns: {ast.unparse(s)[:60]}")
    return [ast.unparse(x) for x in stmts[:k]], cond, checked, [ast.unparse(x) for x in stmts[k + 1:]]


def _validate_blocks(tree, consts):
    fn = _fn(tree.body, "_validate_and_reformat_input", SRC)
    if fn.args.kwarg is None:
        raise ValueError("_validate_and_reformat_input: no **kwargs")
    kw = fn.args.kwarg.arg
    body = _strip_doc(fn.body)
    ret = body[-1]
    if not (isinstance(ret, ast.Return) and isinstance(ret.value, ast.Tuple)
            and all(isinstance(e, ast.Name) for e in ret.value.elts)):
        raise ValueError("_validate_and_reformat_input: last statement is not `return (<names>)`")
    if sum(isinstance(n, ast.Return) for n in ast.walk(fn)) != 1:
        raise ValueError("_validate_and_reformat_input: more than one return")
    ret_names = [e.id for e in ret.value.elts]
    blocks = {}
    for i, s in enumerate(body):
        if not (isinstance(s, ast.Assign) and len(s.targets) == 1 and isinstance(s.targets[0], ast.Name)
                and isinstance(s.value, ast.Call) and ast.unparse(s.value.func) == f"{kw}.get"):
            continue
        if len(s.value.args) != 1 or s.value.keywords or not isinstance(s.value.args[0], ast.Name) \
                or s.value.args[0].id not in consts:
            raise ValueError(f"unsupported {kw}.get(...) at line {s.lineno}")
        v, cname = s.targets[0].id, s.value.args[0].id
        nxt = body[i + 1]
        if not (isinstance(nxt, ast.If) and ast.unparse(nxt.test) == f"{v} is not None"):
            raise ValueError(f"block {v}: `{v} = {kw}.get(...)` is not followed by `if {v} is not None:`")
        # else-branch: nothing, or `elif <flag>: raise` that does not touch v
        if nxt.orelse:
            e = nxt.orelse
            if not (len(e) == 1 and isinstance(e[0], ast.If) and not e[0].orelse and len(e[0].body) == 1
                    and isinstance(e[0].body[0], ast.Raise) and not _names(e[0].test, v)):
                raise ValueError(f"block {v}: unsupported else branch")
        # v is bound nowhere else in the function
        if len(_names(fn, v, ast.Store)) != 1 + len(_names(ast.Module(body=nxt.body, type_ignores=[]), v, ast.Store)):
            raise ValueError(f"block {v}: {v} is rebound outside its block")
        if ret_names.count(v) != 1:
            raise ValueError(f"block {v}: {v} is not returned exactly once")
        if cname in blocks:
            raise ValueError(f"two blocks read {cname}")
        blocks[cname] = (f"{cname}={consts[cname]!r}", v, *_block(v, nxt.body), ret_names.index(v))
    if sorted(blocks) != ["_KW_CONTROL_FEATURES", "_KW_SENSITIVE_FEATURES"]:
        raise ValueError(f"_validate_and_reformat_input: feature blocks found: {sorted(blocks)}")
    ncalls = len(_names(fn, "_merge_columns"))
    return blocks, ncalls


def _import_of(tree, name, src):
    hits = [(n, a) for n in tree.body if isinstance(n, ast.ImportFrom) for a in n.names if (a.asname or a.name) == name]
    if len(hits) != 1 or hits[0][1].asname is not None:
        raise ValueError(f"{src}: {name} is not imported exactly once under its own name")
    if _names(tree, name, ast.Store) or any(isinstance(n, (ast.FunctionDef, ast.ClassDef)) and n.name == name
                                            for n in ast.walk(tree)):
        raise ValueError(f"{src}: {name} is rebound")
    n = hits[0][0]
    return "." * n.level + (n.module or "")


VALIDATE = "_validate_and_reformat_input"


def _validate_call(fn, where, param="sensitive_features"):
    """the single call of _validate_and_reformat_input in fn -> (target names, keyword passing `param`)"""
    if param not in [a.arg for a in fn.args.args + fn.args.kwonlyargs]:
        raise ValueError(f"{where}: no parameter {param}")
    if _names(fn, param, ast.Store):
        raise ValueError(f"{where}: {param} is rebound")
    calls = [n for n in ast.walk(fn) if isinstance(n, ast.Call) and isinstance(n.func, ast.Name)
             and n.func.id == VALIDATE]
    if len(calls) != 1 or len(_names(fn, VALIDATE)) != 1:
        raise ValueError(f"{where}: expected exactly one call of {VALIDATE}")
    asg = [n for n in ast.walk(fn) if isinstance(n, ast.Assign) and n.value is calls[0]]
    if len(asg) != 1 or len(asg[0].targets) != 1 or not isinstance(asg[0].targets[0], ast.Tuple) \
            or not all(isinstance(e, ast.Name) for e in asg[0].targets[0].elts):
        raise ValueError(f"{where}: the result of {VALIDATE} is not unpacked into names")
    kws = [k.arg for k in calls[0].keywords if isinstance(k.value, ast.Name) and k.value.id == param]
    if len(kws) != 1 or kws[0] is None or len(_names(calls[0], param)) != 1:
        raise ValueError(f"{where}: {param} is not passed on exactly once, by keyword")
    if any(k.arg is None for k in calls[0].keywords) or any(isinstance(a, ast.Starred) for a in calls[0].args):
        raise ValueError(f"{where}: star arguments in the call of {VALIDATE}")
    if [k.arg for k in calls[0].keywords].count(kws[0]) != 1:
        raise ValueError(f"{where}: keyword {kws[0]} given twice")
    return [e.id for e in asg[0].targets[0].elts], kws[0]


def _is_self_attr(node, attr):
    return isinstance(node, ast.Attribute) and isinstance(node.value, ast.Name) and node.value.id == "self" \
        and node.attr == attr


def _opt_method(cls, mname):
    """_threshold_optimization_for_*: the first argument only reaches the groupby, whose keys become the dict keys"""
    m = _fn(cls.body, mname, "ThresholdOptimizer")
    args = [a.arg for a in m.args.args]
    if len(args) != 4 or args[0] != "self":
        raise ValueError(f"{mname}: unexpected signature {args}")
    s = args[1]
    if _names(m, s, ast.Store):
        raise ValueError(f"{mname}: {s} is rebound")
    loads = _names(m, s, ast.Load)
    asg = [n for n in ast.walk(m) if isinstance(n, ast.Assign) and isinstance(n.value, ast.Call)
           and isinstance(n.value.func, ast.Name) and n.value.func.id == "_reformat_and_group_data"]
    if len(loads) != 1 or len(asg) != 1 or ast.unparse(asg[0].value) != \
            f"_reformat_and_group_data({s}, {args[2]}, {args[3]})" or len(asg[0].targets) != 1 \
            or not isinstance(asg[0].targets[0], ast.Name):
        raise ValueError(f"{mname}: {s} is not used exactly once, as _reformat_and_group_data({s}, labels, scores)")
    g = asg[0].targets[0].id
    if len(_names(m, g, ast.Store)) != 1:
        raise ValueError(f"{mname}: {g} is rebound")
    loops = [n for n in ast.walk(m) if isinstance(n, ast.For) and isinstance(n.iter, ast.Name) and n.iter.id == g]
    if len(loops) != 1 or len(_names(m, g, ast.Load)) != 1:
        raise ValueError(f"{mname}: {g} is not iterated exactly once")
    lp = loops[0]
    if not (isinstance(lp.target, ast.Tuple) and len(lp.target.elts) == 2
            and all(isinstance(e, ast.Name) for e in lp.target.elts)):
        raise ValueError(f"{mname}: groupby loop target is not (key, group)")
    k = lp.target.elts[0].id
    if len(_names(m, k, ast.Store)) != 1 + sum(1 for n in ast.walk(m) if isinstance(n, ast.For)
                                                  and isinstance(n.target, ast.Name) and n.target.id == k):
        raise ValueError(f"{mname}: the group key {k} is rebound")
    # stores into self._tradeoff_curve[...]: exactly one, inside the groupby loop, indexed by the group key
    def sub_stores(root, pred):
        return [n for n in ast.walk(root) if isinstance(n, ast.Subscript) and isinstance(n.ctx, ast.Store)
                and pred(n.value)]
    tc_all = sub_stores(m, lambda x: _is_self_attr(x, "_tradeoff_curve"))
    tc_in = sub_stores(lp, lambda x: _is_self_attr(x, "_tradeoff_curve"))
    if len(tc_all) != 1 or len(tc_in) != 1 or ast.unparse(tc_in[0].slice) != k:
        raise ValueError(f"{mname}: self._tradeoff_curve is not filled exactly once, by the group key")
    whole = [n for n in ast.walk(m) if isinstance(n, ast.Assign) and any(_is_self_attr(t, "_tradeoff_curve")
                                                                          for t in n.targets)]
    if len(whole) != 1 or ast.unparse(whole[0].value) != "{}":
        raise ValueError(f"{mname}: self._tradeoff_curve is not initialised once with {{}}")
    kl = [n for n in ast.walk(m) if isinstance(n, ast.For) and ast.unparse(n.iter) == "self._tradeoff_curve.keys()"]
    if len(kl) != 1 or not isinstance(kl[0].target, ast.Name):
        raise ValueError(f"{mname}: no single loop over self._tradeoff_curve.keys()")
    k2 = kl[0].target.id
    ret = [n for n in ast.walk(m) if isinstance(n, ast.Return)]
    if len(ret) != 1:
        raise ValueError(f"{mname}: expected one return")
    r = ret[0].value
    if not (isinstance(r, ast.Call) and isinstance(r.func, ast.Attribute) and r.func.attr == "fit"
            and isinstance(r.func.value, ast.Call) and ast.unparse(r.func.value.func) == "InterpolatedThresholder"
            and len(r.func.value.args) == 2 and isinstance(r.func.value.args[1], ast.Name)):
        raise ValueError(f"{mname}: does not return InterpolatedThresholder(<estimator>, <dict>, ...).fit(...)")
    d = r.func.value.args[1].id
    d_all = sub_stores(m, lambda x: isinstance(x, ast.Name) and x.id == d)
    d_in = sub_stores(kl[0], lambda x: isinstance(x, ast.Name) and x.id == d)
    d_asg = [n for n in ast.walk(m) if isinstance(n, ast.Assign) and any(isinstance(t, ast.Name) and t.id == d
                                                                         for t in n.targets)]
    if len(d_all) != 1 or len(d_in) != 1 or ast.unparse(d_in[0].slice) != k2 or len(d_asg) != 1 \
            or ast.unparse(d_asg[0].value) != "{}" or len(_names(m, d, ast.Store)) != 1:
        raise ValueError(f"{mname}: the interpolation dict is not filled exactly once, by the key of self._tradeoff_curve")
    return (f"{mname}: groups = _reformat_and_group_data(arg0, labels, scores); for (key, group) in groups: "
            f"self._tradeoff_curve[key] = ...; for key in self._tradeoff_curve.keys(): interpolation_dict[key] = Bunch(...)")


def _fit_path(repo):
    tree = ast.parse((Path(repo) / SRC_TO).read_text())
    mod = _import_of(tree, VALIDATE, SRC_TO)
    cls = _cls(tree, "ThresholdOptimizer")
    fit = _fn(cls.body, "fit", "ThresholdOptimizer")
    names, kw = _validate_call(fit, "ThresholdOptimizer.fit")
    use = ["ThresholdOptimizer.fit: sensitive_features is not rebound"]
    # the vector: argument 0 of threshold_optimization_method(...)
    tom = [n for n in ast.walk(fit) if isinstance(n, ast.Call) and isinstance(n.func, ast.Name)
           and n.func.id == "threshold_optimization_method"]
    if len(tom) != 1 or not tom[0].args or not isinstance(tom[0].args[0], ast.Name) or tom[0].keywords:
        raise ValueError("ThresholdOptimizer.fit: no single positional call of threshold_optimization_method")
    vec = tom[0].args[0].id
    if names.count(vec) != 1 or len(_names(fit, vec, ast.Load)) != 1 or len(_names(fit, vec, ast.Store)) != 1:
        raise ValueError(f"ThresholdOptimizer.fit: {vec} is not bound once by {VALIDATE} and used once")
    use.append("ThresholdOptimizer.fit: the vector is used once, as argument 0 of threshold_optimization_method")
    binds = [n for n in ast.walk(fit) if isinstance(n, ast.Assign)
             and any(isinstance(t, ast.Name) and t.id == "threshold_optimization_method" for t in n.targets)]
    meths = []
    for b in binds:
        if not (len(b.targets) == 1 and isinstance(b.value, ast.Attribute) and isinstance(b.value.value, ast.Name)
                and b.value.value.id == "self"):
            raise ValueError("ThresholdOptimizer.fit: threshold_optimization_method bound to something else "
                             "than a method of self")
        meths.append(b.value.attr)
    if len(_names(fit, "threshold_optimization_method", ast.Store)) != len(binds) or not meths:
        raise ValueError("ThresholdOptimizer.fit: unsupported binding of threshold_optimization_method")
    meths = sorted(set(meths))
    use.append("threshold_optimization_method in {" + ", ".join(meths) + "}")
    st = [n for n in ast.walk(fit) if isinstance(n, ast.Assign) and n.value is tom[0]]
    if len(st) != 1 or len(st[0].targets) != 1 or not _is_self_attr(st[0].targets[0], "interpolated_thresholder_"):
        raise ValueError("ThresholdOptimizer.fit: the result is not stored in self.interpolated_thresholder_")
    all_st = [n for n in ast.walk(cls) if isinstance(n, ast.Attribute) and isinstance(n.ctx, ast.Store)
              and n.attr == "interpolated_thresholder_"]
    if len(all_st) != 1:
        raise ValueError("ThresholdOptimizer: interpolated_thresholder_ is assigned in more than one place")
    use.append("result stored in self.interpolated_thresholder_")
    for mname in sorted(meths, reverse=True):
        use.append(_opt_method(cls, mname))
    rg = _fn(tree.body, "_reformat_and_group_data", SRC_TO)
    s = rg.args.args[0].arg
    calls = [n for n in ast.walk(rg) if isinstance(n, ast.Call) and _names(n, s)
             and isinstance(n.func, ast.Name)]
    rets = [n for n in ast.walk(rg) if isinstance(n, ast.Return)]
    if _names(rg, s, ast.Store) or len(_names(rg, s, ast.Load)) != 1 or len(calls) != 1 \
            or calls[0].func.id != "_reformat_data_into_dict" or len(calls[0].args) != 3 or calls[0].keywords \
            or ast.unparse(calls[0].args[2]) != s or not isinstance(calls[0].args[0], ast.Name) \
            or ast.unparse(calls[0].args[1]) != "data_dict" or len(rets) != 1 \
            or ast.unparse(rets[0].value) != f"pd.DataFrame(data_dict).groupby({calls[0].args[0].id})":
        raise ValueError("_reformat_and_group_data: unexpected use of the sensitive feature vector")
    use.append("_reformat_and_group_data: _reformat_data_into_dict(name, data_dict, arg0); "
               "return pd.DataFrame(data_dict).groupby(name)")
    return (mod, VALIDATE, kw, names.index(vec), use), cls


def _predict_path(repo, to_cls):
    use = []
    for mname in ("predict", "_pmf_predict"):
        m = _fn(to_cls.body, mname, "ThresholdOptimizer")
        rets = [n for n in ast.walk(m) if isinstance(n, ast.Return)]
        if _names(m, "sensitive_features", ast.Store) or len(_names(m, "sensitive_features", ast.Load)) != 1 \
                or len(rets) != 1:
            raise ValueError(f"ThresholdOptimizer.{mname}: sensitive_features is rebound or used more than once")
        use.append(f"ThresholdOptimizer.{mname}: {ast.unparse(rets[0])}")
    tree = ast.parse((Path(repo) / SRC_IT).read_text())
    mod = _import_of(tree, VALIDATE, SRC_IT)
    cls = _cls(tree, "InterpolatedThresholder")
    init = _fn(cls.body, "__init__", "InterpolatedThresholder")
    iargs = [a.arg for a in init.args.args]
    sets = [n for n in ast.walk(cls) if isinstance(n, ast.Attribute) and isinstance(n.ctx, ast.Store)
            and n.attr == "interpolation_dict"]
    seta = [n for n in ast.walk(init) if isinstance(n, ast.Assign) and len(n.targets) == 1
            and _is_self_attr(n.targets[0], "interpolation_dict")]
    if len(sets) != 1 or len(seta) != 1 or len(iargs) < 3 or ast.unparse(seta[0].value) != iargs[2] \
            or _names(init, iargs[2], ast.Store):
        raise ValueError("InterpolatedThresholder.__init__: interpolation_dict is not stored as given (argument 2)")
    pr = _fn(cls.body, "predict", "InterpolatedThresholder")
    c = [n for n in ast.walk(pr) if isinstance(n, ast.Call) and _names(n.func, "self") and _names(n, "sensitive_features")]
    if _names(pr, "sensitive_features", ast.Store) or len(_names(pr, "sensitive_features", ast.Load)) != 1 \
            or len(c) != 1:
        raise ValueError("InterpolatedThresholder.predict: sensitive_features is rebound or used more than once")
    use.append(f"InterpolatedThresholder.predict: {ast.unparse(c[0])}")
    pm = _fn(cls.body, "_pmf_predict", "InterpolatedThresholder")
    names, kw = _validate_call(pm, "InterpolatedThresholder._pmf_predict")
    use.append("InterpolatedThresholder._pmf_predict: sensitive_features is not rebound")
    loops = [n for n in ast.walk(pm) if isinstance(n, ast.For)
             and ast.unparse(n.iter) == "self.interpolation_dict.items()"]
    if len(loops) != 1 or not (isinstance(loops[0].target, ast.Tuple) and len(loops[0].target.elts) == 2
                               and all(isinstance(e, ast.Name) for e in loops[0].target.elts)):
        raise ValueError("InterpolatedThresholder._pmf_predict: no single `for key, rule in "
                         "self.interpolation_dict.items()`")
    key = loops[0].target.elts[0].id
    if len(_names(pm, key, ast.Store)) != 1:
        raise ValueError(f"InterpolatedThresholder._pmf_predict: the key {key} is rebound")
    cmps = [n for n in ast.walk(loops[0]) if isinstance(n, ast.Compare) and len(n.ops) == 1
            and isinstance(n.ops[0], ast.Eq) and isinstance(n.left, ast.Name)
            and isinstance(n.comparators[0], ast.Name) and n.comparators[0].id == key]
    vecs = sorted({n.left.id for n in cmps})
    if len(vecs) != 1 or names.count(vecs[0]) != 1:
        raise ValueError("InterpolatedThresholder._pmf_predict: the key is not compared with one vector "
                         f"returned by {VALIDATE}")
    vec = vecs[0]
    if len(_names(pm, vec, ast.Store)) != 1 or len(_names(pm, vec, ast.Load)) != len(cmps) \
            or len(_names(pm, key, ast.Load)) != len(cmps):
        raise ValueError(f"InterpolatedThresholder._pmf_predict: {vec} / {key} are used other than in `{vec} == {key}`")
    use.append("InterpolatedThresholder._pmf_predict: for (key, rule) in self.interpolation_dict.items(): "
               "every use of the vector is `vector == key`")
    return mod, VALIDATE, kw, names.index(vec), use


def _path_def(name, comment, p):
    mod, fn, kw, slot, use = p
    return (f"(* {comment} *)\nDefinition {name} : key_path :=\n  mk_path {_cs(mod)} {_cs(fn)} {_cs(kw)} {slot}%nat\n"
            f"    {_cl(use)}.\n")


def translate(repo: Path):
    tree = ast.parse((Path(repo) / SRC).read_text())
    consts = {}
    for n in tree.body:
        if isinstance(n, ast.Assign) and len(n.targets) == 1 and isinstance(n.targets[0], ast.Name) \
                and isinstance(n.value, ast.Constant) and isinstance(n.value.value, str):
            consts[n.targets[0].id] = n.value.value
    fn = next((n for n in tree.body if isinstance(n, ast.FunctionDef) and n.name == "_merge_columns"), None)
    if fn is None:
        raise ValueError("_merge_columns not found")
    body = [s for s in fn.body if not (isinstance(s, ast.Expr) and isinstance(s.value, ast.Constant))]
    # shape: isinstance guard; def _join_names; return np.array([_join_names(row) for row in X.astype(str)])
    if len(body) != 3 or not isinstance(body[0], ast.If) or not isinstance(body[1], ast.FunctionDef) \
            or not isinstance(body[2], ast.Return):
        raise ValueError("_merge_columns: unexpected statement structure")
    guard = body[0]
    if not (len(guard.body) == 1 and isinstance(guard.body[0], ast.Raise) and not guard.orelse):
        raise ValueError("_merge_columns: first statement is not a pure raise-guard")
    arg = fn.args.args[0].arg
    want_ret = f"np.array([_join_names(row) for row in {arg}.astype(str)])"
    if ast.unparse(body[2].value) != want_ret:
        raise ValueError(f"_merge_columns: return is {ast.unparse(body[2].value)!r}, expected {want_ret!r}")
    jn = body[1]
    if jn.name != "_join_names" or len(jn.args.args) != 1:
        raise ValueError("_join_names: unexpected signature")
    names = jn.args.args[0].arg
    jbody = [s for s in jn.body if not (isinstance(s, ast.Expr) and isinstance(s.value, ast.Constant))]
    if len(jbody) != 1 or not isinstance(jbody[0], ast.Return):
        raise ValueError("_join_names: body is not a single return")
    call = jbody[0].value
    # SEP.join([ <chain> for name in names ])
    if not (isinstance(call, ast.Call) and isinstance(call.func, ast.Attribute) and call.func.attr == "join"
            and len(call.args) == 1 and not call.keywords):
        raise ValueError("_join_names: not a <sep>.join(...) call")
    sep = _const_str(call.func.value, consts)
    comp = call.args[0]
    if not (isinstance(comp, (ast.ListComp, ast.GeneratorExp)) and len(comp.generators) == 1):
        raise ValueError("_join_names: join argument is not a single comprehension")
    g = comp.generators[0]
    if g.ifs or g.is_async or not isinstance(g.target, ast.Name) or ast.unparse(g.iter) != names:
        raise ValueError("_join_names: unexpected comprehension generator")
    var = g.target.id
    steps = []
    e = comp.elt
    while isinstance(e, ast.Call):
        if not (isinstance(e.func, ast.Attribute) and e.func.attr == "replace" and len(e.args) == 2
                and not e.keywords):
            raise ValueError(f"_join_names: unsupported call in escape chain: {ast.unparse(e)[:60]}")
        a, b = _const_str(e.args[0], consts), _const_str(e.args[1], consts)
        if len(a) != 1:
            raise ValueError("escape chain: pattern is not a single character")
        steps.append((a, b))
        e = e.func.value
    if not (isinstance(e, ast.Name) and e.id == var):
        raise ValueError("escape chain does not start at the comprehension variable")
    steps.reverse()           # innermost call is applied first
    text = ("(* GENERATED by translators/t_merge.py from " + SRC + ", " + SRC_TO + ", " + SRC_IT
            + " -- do not edit *)\n"
            "From Coq Require Import ZArith List String.\nFrom FL Require Import MergeSrc.\n"
            "Import ListNotations.\nOpen Scope Z_scope.\n"
            "Definition steps : list (Z * list Z) :=\n  ["
            + "; ".join(f"({ord(a)}, {_zs(b)})" for a, b in steps) + "].\n"
            f"Definition sep : list Z := {_zs(sep)}.\n")
    # ---- the row pipeline of _merge_columns (every element below was matched above; emitted as parsed) ----
    rc = body[2].value.args[0]                      # the row comprehension
    rg = rc.generators[0]
    blocks, ncalls = _validate_blocks(tree, consts)
    pipeline = [f"guard: {ast.unparse(guard.test)} -> raise",
                f"rows: {ast.unparse(rg.iter)}",
                "row filter: " + ("none" if not rg.ifs else " and ".join(ast.unparse(i) for i in rg.ifs)),
                f"per row: {ast.unparse(rc.elt)}",
                "collect: np.array([...])" if isinstance(rc, ast.ListComp) else "collect: other",
                f"names: {ast.unparse(g.iter)}",
                "name filter: " + ("none" if not g.ifs else "some"),
                f"per name: {var}.replace(...) chain only",
                "join: <separator>.join([...])",
                f"calls of _merge_columns in _validate_and_reformat_input: {ncalls}"]
    if ast.unparse(rg.target) != "row" or jn.args.args[0].arg != "names" or var != "name" or arg != "feature_columns":
        pipeline.append(f"names: {arg}, {ast.unparse(rg.target)}, {jn.args.args[0].arg}, {var}")
    text += ("\n(* ---- call sites ---- *)\nOpen Scope string_scope.\n"
             "(* _merge_columns: what is iterated and what is applied to every row *)\n"
             f"Definition merge_pipeline : list string :=\n    {_cl(pipeline)}.\n")
    for cname, dname in (("_KW_SENSITIVE_FEATURES", "sensitive_block"), ("_KW_CONTROL_FEATURES", "control_block")):
        kwtag, v, pre, cond, checked, post, slot = blocks[cname]
        text += (f"(* _validate_and_reformat_input: the block of `{v}` *)\n"
                 f"Definition {dname} : block_src :=\n  mk_block {_cs(kwtag)}\n    {_cl(pre)}\n"
                 f"    {cond} {'true' if checked else 'false'}\n    {_cl(post)}\n    {slot}%nat.\n")
    fitp, to_cls = _fit_path(repo)
    text += _path_def("fit_path", "ThresholdOptimizer.fit: where the keys of interpolation_dict come from", fitp)
    text += _path_def("predict_path", "predict / _pmf_predict: where the vector compared with the keys comes from",
                      _predict_path(repo, to_cls))
    return {"Gen_merge.v": text}
