"""t_adv_schedule: regenerate the loop constants of _AdversarialFairness.fit (C17).

From fairlearn/adversarial/_adversarial_mitigation.py it extracts, with a small fail-closed
Python-expression -> Gallina translator over Z:
  * the parameter validation of batch_size / epochs / max_iter in __setup       -> param_ok
  * the "epochs == -1 and max_iter == -1" rejection in fit                      -> fit_rejects
  * batch_size, batches, epochs as computed before the loops                    -> batch_size, batches, epochs
  * the bounds of batch_slice                                                   -> slice_lo, slice_hi
  * the max_iter test after a step                                              -> max_iter_reached
  * the ORDER of the inner loop body: train_step on the slice, n_iter_ += 1, max_iter test + return,
    callbacks (all called with step=self.n_iter_, stop = stop or result), `if stop: return`
                                                                                -> body_order = [1;2;3;4;5]
  * the binary predictor function, the multiclass arg-max, predict's pipeline  -> binary_fn, threshold
Anything it does not recognise raises (the generated fragment then does not compile)."""
import ast
from fractions import Fraction
from pathlib import Path

OUTPUTS = ["Gen_adv_schedule.v"]
SRC = "fairlearn/adversarial/_adversarial_mitigation.py"


class Unsupported(ValueError):
    pass


def _u(node):
    return ast.unparse(node)


def _expr(node, env):
    """Python int expression -> Gallina Z / bool expression.  env maps unparsed sub-expressions to Coq names."""
    key = _u(node)
    if key in env:
        return env[key]
    if isinstance(node, ast.Constant):
        v = node.value
        if isinstance(v, bool) or not isinstance(v, (int, float)) or v != int(v):
            raise Unsupported(f"constant {v!r} at line {node.lineno}")
        v = int(v)
        return f"({v})" if v < 0 else str(v)
    if isinstance(node, ast.UnaryOp) and isinstance(node.op, ast.USub):
        inner = node.operand
        if isinstance(inner, ast.Constant) and isinstance(inner.value, (int, float)) and inner.value == int(inner.value):
            return f"(-{int(inner.value)})"
        return f"(- {_expr(inner, env)})"
    if isinstance(node, ast.UnaryOp) and isinstance(node.op, ast.Not):
        return f"negb {_expr(node.operand, env)}"
    if isinstance(node, ast.BinOp):
        ops = {ast.Add: "+", ast.Sub: "-", ast.Mult: "*"}
        if type(node.op) in ops:
            return f"({_expr(node.left, env)} {ops[type(node.op)]} {_expr(node.right, env)})"
        raise Unsupported(f"operator {type(node.op).__name__} at line {node.lineno}")
    if isinstance(node, ast.Compare):
        if len(node.ops) != 1:
            raise Unsupported(f"chained comparison at line {node.lineno}")
        a, b = _expr(node.left, env), _expr(node.comparators[0], env)
        op = type(node.ops[0])
        table = {ast.Eq: f"({a} =? {b})", ast.NotEq: f"negb ({a} =? {b})", ast.LtE: f"({a} <=? {b})",
                 ast.GtE: f"({b} <=? {a})", ast.Lt: f"({a} <? {b})", ast.Gt: f"({b} <? {a})"}
        if op not in table:
            raise Unsupported(f"comparison {op.__name__} at line {node.lineno}")
        return table[op]
    if isinstance(node, ast.BoolOp):
        sym = "&&" if isinstance(node.op, ast.And) else "||"
        parts = [_expr(v, env) for v in node.values]
        out = parts[0]
        for p in parts[1:]:
            out = f"{out} {sym} {p}"
        return f"({out})" if len(parts) > 1 else out
    if isinstance(node, ast.Call) and not node.keywords:
        f = _u(node.func)
        if f == "ceil" and len(node.args) == 1 and isinstance(node.args[0], ast.BinOp) \
                and isinstance(node.args[0].op, ast.Div):
            d = node.args[0]
            return f"(py_ceil_div {_expr(d.left, env)} {_expr(d.right, env)})"
        if f == "min" and len(node.args) == 2:
            return f"(Z.min {_expr(node.args[0], env)} {_expr(node.args[1], env)})"
        if f == "max" and len(node.args) == 2:
            return f"(Z.max {_expr(node.args[0], env)} {_expr(node.args[1], env)})"
    raise Unsupported(f"expression {key[:70]!r} at line {getattr(node, 'lineno', '?')}")


def _strip_doc(body):
    return [s for s in body if not (isinstance(s, ast.Expr) and isinstance(s.value, ast.Constant))]


def _is_return_self(s):
    return isinstance(s, ast.Return) and s.value is not None and _u(s.value) == "self"


def _is_raise_only(stmts):
    return len(stmts) == 1 and isinstance(stmts[0], ast.Raise)


def _assigned_names(node):
    out = set()
    for n in ast.walk(node):
        if isinstance(n, (ast.Assign, ast.AugAssign, ast.AnnAssign)):
            tg = n.targets if isinstance(n, ast.Assign) else [n.target]
            for t in tg:
                for m in ast.walk(t):
                    if isinstance(m, (ast.Name, ast.Attribute)):
                        out.add(_u(m))
        if isinstance(n, (ast.For, ast.comprehension)):
            for m in ast.walk(n.target):
                if isinstance(m, ast.Name):
                    out.add(m.id)
        if isinstance(n, ast.NamedExpr):
            out.add(_u(n.target))
    return out


def _if_else_assign(s, var):
    """if <test>: var = a  else: var = b   ->  (test, a, b)"""
    if not (isinstance(s, ast.If) and len(s.body) == 1 and len(s.orelse) == 1):
        return None
    a, b = s.body[0], s.orelse[0]
    for x in (a, b):
        if not (isinstance(x, ast.Assign) and len(x.targets) == 1 and _u(x.targets[0]) == var):
            return None
    return s.test, a.value, b.value


def _setup_params(cls):
    fn = next((n for n in cls.body if isinstance(n, ast.FunctionDef) and n.name == "__setup"), None)
    if fn is None:
        raise Unsupported("__setup not found")
    hits = []
    for s in ast.walk(fn):
        if isinstance(s, ast.For) and isinstance(s.iter, ast.Tuple):
            names = []
            for e in s.iter.elts:
                if isinstance(e, ast.Tuple) and len(e.elts) == 2 and isinstance(e.elts[1], ast.Constant):
                    names.append((_u(e.elts[0]), e.elts[1].value))
            if ("self.batch_size", "batch_size") in names or ("self.epochs", "epochs") in names \
                    or ("self.max_iter", "max_iter") in names:
                hits.append((s, names))
    if len(hits) != 1:
        raise Unsupported(f"__setup: expected exactly one validation loop over batch_size/epochs/max_iter, found {len(hits)}")
    loop, names = hits[0]
    if sorted(names) != sorted([("self.batch_size", "batch_size"), ("self.epochs", "epochs"),
                                ("self.max_iter", "max_iter")]):
        raise Unsupported(f"__setup: validation loop covers {names}")
    if not (isinstance(loop.target, ast.Tuple) and len(loop.target.elts) == 2):
        raise Unsupported("__setup: loop target is not (kw, kwname)")
    kw = _u(loop.target.elts[0])
    if len(loop.body) != 2 or loop.orelse:
        raise Unsupported("__setup: validation loop body is not [check_scalar; if ...: raise]")
    cs, guard = loop.body
    if not (isinstance(cs, ast.Expr) and isinstance(cs.value, ast.Call) and _u(cs.value.func) == "check_scalar"):
        raise Unsupported("__setup: first statement of the validation loop is not check_scalar(...)")
    call = cs.value
    if not (len(call.args) == 3 and _u(call.args[0]) == kw and _u(call.args[2]) == "(int, float)"):
        raise Unsupported(f"__setup: unexpected check_scalar arguments {_u(call)}")
    kws = {k.arg: k.value for k in call.keywords}
    if sorted(kws) != ["include_boundaries", "min_val"] or _u(kws["include_boundaries"]) != "'left'":
        raise Unsupported(f"__setup: unexpected check_scalar keywords {_u(call)}")
    env = {kw: "k"}
    lower = f"({_expr(kws['min_val'], env)} <=? k)"
    if not (isinstance(guard, ast.If) and _is_raise_only(guard.body) and not guard.orelse):
        raise Unsupported("__setup: second statement of the validation loop is not `if ...: raise`")
    return f"{lower} && negb {_expr(guard.test, env)}"


def _fit_parts(cls):
    fn = next((n for n in cls.body if isinstance(n, ast.FunctionDef) and n.name == "fit"), None)
    if fn is None:
        raise Unsupported("fit not found")
    body = _strip_doc(fn.body)
    out = {}
    env0 = {"self.epochs": "e", "self.max_iter": "mi", "self.batch_size": "bs", "X.shape[0]": "n"}
    tracked = {"batch_size", "batches", "epochs", "self.n_iter_", "self.max_iter", "self.epochs",
               "self.batch_size", "self.callbacks_"}
    seen = set()
    loop = None
    for idx, s in enumerate(body):
        # the rejection of epochs == -1 and max_iter == -1
        if isinstance(s, ast.If) and _is_raise_only(s.body) and not s.orelse:
            if "rejects" in out:
                raise Unsupported("fit: more than one top-level raise guard")
            out["rejects"] = _expr(s.test, env0)
            continue
        r = _if_else_assign(s, "batch_size")
        if r and "batch_size" not in seen:
            t, a, b = r
            out["batch_size"] = f"if {_expr(t, env0)} then {_expr(a, env0)} else {_expr(b, env0)}"
            seen.add("batch_size")
            continue
        if isinstance(s, ast.Assign) and len(s.targets) == 1 and _u(s.targets[0]) == "batches" \
                and "batches" not in seen:
            if "batch_size" not in seen:
                raise Unsupported("fit: batches computed before batch_size")
            out["batches"] = _expr(s.value, {"X.shape[0]": "n", "batch_size": "b"})
            seen.add("batches")
            continue
        r = _if_else_assign(s, "epochs")
        if r and "epochs" not in seen:
            if "batches" not in seen:
                raise Unsupported("fit: epochs computed before batches")
            t, a, b = r
            env = {"self.epochs": "e", "self.max_iter": "mi", "batches": "nb"}
            out["epochs"] = f"if {_expr(t, env)} then {_expr(a, env)} else {_expr(b, env)}"
            seen.add("epochs")
            continue
        if isinstance(s, ast.Assign) and _u(s.targets[0]) == "self.n_iter_":
            if _u(s.value) != "0" or "n_iter" in seen:
                raise Unsupported("fit: self.n_iter_ is not initialised to 0 exactly once")
            seen.add("n_iter")
            continue
        if isinstance(s, ast.For):
            if loop is not None:
                raise Unsupported("fit: more than one top-level loop")
            if seen != {"batch_size", "batches", "epochs", "n_iter"} or "rejects" not in out:
                raise Unsupported(f"fit: loop reached with set-up {sorted(seen)}")
            loop = (idx, s)
            continue
        if _is_return_self(s):
            if idx != len(body) - 1 or loop is None:
                raise Unsupported("fit: `return self` before the end")
            continue
        # anything else must not touch what the schedule depends on
        bad = _assigned_names(s) & tracked
        if bad or any(isinstance(n, (ast.Return, ast.Break, ast.Continue)) for n in ast.walk(s)):
            raise Unsupported(f"fit: unrecognised statement at line {s.lineno} touches {sorted(bad)}")
    if loop is None or not _is_return_self(body[-1]) or loop[0] != len(body) - 2:
        raise Unsupported("fit: expected `for epoch ...` followed by `return self` at the end")
    outer = loop[1]
    if not (_u(outer.iter) == "range(epochs)" and isinstance(outer.target, ast.Name) and not outer.orelse):
        raise Unsupported("fit: outer loop is not `for <epoch> in range(epochs)`")
    ob = outer.body
    if len(ob) == 2 and isinstance(ob[0], ast.If) and _u(ob[0].test) == "self.shuffle" and not ob[0].orelse \
            and len(ob[0].body) == 1 and _u(ob[0].body[0]) == "X, y, A = self.backendEngine_.shuffle(X, y, A)":
        ob = ob[1:]
    if not (len(ob) == 1 and isinstance(ob[0], ast.For)):
        raise Unsupported("fit: outer loop body is not [if self.shuffle: shuffle; for batch ...]")
    inner = ob[0]
    if not (_u(inner.iter) == "range(batches)" and isinstance(inner.target, ast.Name) and not inner.orelse):
        raise Unsupported("fit: inner loop is not `for <batch> in range(batches)`")
    bvar = inner.target.id
    ib = list(inner.body)
    # optional progress report: must be free of control flow and of assignments to tracked state
    if ib and isinstance(ib[0], ast.If) and _u(ib[0].test) == "self.progress_updates":
        blk = ib.pop(0)
        bad = _assigned_names(blk) & (tracked | {"X", "y", "A", bvar, outer.target.id})
        if bad or blk.orelse or any(isinstance(n, (ast.Return, ast.Break, ast.Continue, ast.Raise))
                                    for n in ast.walk(blk)):
            raise Unsupported("fit: the progress_updates block is not a pure report")
    order = []
    # 1. batch_slice = slice(lo, hi); (LP, LA) = train_step(X[batch_slice], y[batch_slice], A[batch_slice])
    if len(ib) < 2 or not (isinstance(ib[0], ast.Assign) and _u(ib[0].targets[0]) == "batch_slice"
                           and isinstance(ib[0].value, ast.Call) and _u(ib[0].value.func) == "slice"
                           and len(ib[0].value.args) == 2 and not ib[0].value.keywords):
        raise Unsupported("fit: inner body does not start with batch_slice = slice(lo, hi)")
    env = {bvar: "k", "batch_size": "b", "X.shape[0]": "n"}
    out["slice_lo"] = _expr(ib[0].value.args[0], env)
    out["slice_hi"] = _expr(ib[0].value.args[1], env)
    if _u(ib[1]) != "LP, LA = self.backendEngine_.train_step(X[batch_slice], y[batch_slice], A[batch_slice])":
        raise Unsupported(f"fit: unexpected training call {_u(ib[1])[:90]}")
    order.append(1)
    rest = ib[2:]
    while rest and isinstance(rest[0], ast.Expr) and _u(rest[0]) in ("predictor_losses.append(LP)",
                                                                    "adversary_losses.append(LA)"):
        rest.pop(0)
    # 2. self.n_iter_ += 1
    if not rest or _u(rest[0]) != "self.n_iter_ += 1":
        raise Unsupported("fit: step counter increment `self.n_iter_ += 1` not found after train_step")
    order.append(2)
    rest = rest[1:]
    # 3. if <max_iter test>: return self
    if not rest or not (isinstance(rest[0], ast.If) and not rest[0].orelse and len(rest[0].body) == 1
                        and _is_return_self(rest[0].body[0])):
        raise Unsupported("fit: `if <max_iter reached>: return self` not found after the increment")
    out["max_iter_reached"] = _expr(rest[0].test, {"self.max_iter": "mi", "self.n_iter_": "it"})
    order.append(3)
    rest = rest[1:]
    # 4./5. callbacks
    if len(rest) != 1 or not (isinstance(rest[0], ast.If) and _u(rest[0].test) == "self.callbacks_"
                              and not rest[0].orelse):
        raise Unsupported("fit: `if self.callbacks_:` block not found as last statement of the inner body")
    cb = rest[0].body
    if len(cb) != 3 or _u(cb[0]) != "stop = False" or not isinstance(cb[1], ast.For) \
            or _u(cb[1].iter) != "self.callbacks_" or cb[1].orelse:
        raise Unsupported("fit: callbacks block is not [stop = False; for cb in self.callbacks_: ...; if stop: ...]")
    cvar = _u(cb[1].target)
    lb = cb[1].body
    if len(lb) != 3:
        raise Unsupported("fit: callback loop body has an unexpected number of statements")
    call = lb[0]
    if not (isinstance(call, ast.Assign) and _u(call.targets[0]) == "result" and isinstance(call.value, ast.Call)
            and _u(call.value.func) == cvar and [_u(a) for a in call.value.args] == ["self"]):
        raise Unsupported("fit: callbacks are not invoked as result = cb(self, ...)")
    kws = {k.arg: _u(k.value) for k in call.value.keywords}
    if kws.get("step") != "self.n_iter_":
        raise Unsupported(f"fit: callbacks do not receive step=self.n_iter_ (got {kws.get('step')})")
    if not (isinstance(lb[1], ast.If) and _is_raise_only(lb[1].body) and not lb[1].orelse
            and _u(lb[1].test) == "result and (not isinstance(result, bool))"):
        raise Unsupported("fit: unexpected callback result check")
    if _u(lb[2]) != "stop = stop or result":
        raise Unsupported(f"fit: stop is not the disjunction of the results: {_u(lb[2])}")
    order.append(4)
    if not (isinstance(cb[2], ast.If) and _u(cb[2].test) == "stop" and not cb[2].orelse
            and len(cb[2].body) == 1 and _is_return_self(cb[2].body[0])):
        raise Unsupported("fit: `if stop: return self` not found after the callback loop")
    order.append(5)
    out["order"] = order
    return out


def _predict_parts(cls, tree):
    fns = {n.name: n for n in cls.body if isinstance(n, ast.FunctionDef)}
    bf = fns.get("_binary_predictor_function")
    if bf is None:
        raise Unsupported("_binary_predictor_function not found")
    b = _strip_doc(bf.body)
    arg = bf.args.args[1].arg
    if len(b) != 1 or not isinstance(b[0], ast.Return):
        raise Unsupported("_binary_predictor_function: not a single return")
    e = b[0].value
    if not (isinstance(e, ast.Call) and _u(e.func).endswith(".astype") and _u(e.args[0]) == "float"
            and isinstance(e.func.value, ast.Compare) and len(e.func.value.ops) == 1):
        raise Unsupported(f"_binary_predictor_function: unexpected form {_u(e)}")
    cmp_ = e.func.value
    l, r, op = _u(cmp_.left), _u(cmp_.comparators[0]), type(cmp_.ops[0])
    names = {arg: "out", "self.threshold_value": "thr"}
    if l not in names or r not in names or names[l] == names[r]:
        raise Unsupported(f"_binary_predictor_function: compares {l} and {r}")
    a, c = names[l], names[r]
    table = {ast.GtE: f"Qle_bool {c} {a}", ast.LtE: f"Qle_bool {a} {c}",
             ast.Gt: f"negb (Qle_bool {a} {c})", ast.Lt: f"negb (Qle_bool {c} {a})"}
    if op not in table:
        raise Unsupported("_binary_predictor_function: unsupported comparison")
    binary_fn = table[op]
    # the multiclass function and the dispatch
    sp = fns.get("_set_predictor_function")
    if sp is None:
        raise Unsupported("_set_predictor_function not found")
    txt = " ".join(_u(sp).split())
    need = ["if kw == 'binary':\n                self.predictor_function_ = self._binary_predictor_function",
            "elif kw == 'multiclass':",
            "c = argmax(pred, axis=1)", "b = zeros(shape, dtype=float)", "a = arange(shape[0])", "b[a, c] = 1",
            "return b", "self.predictor_function_ = loss",
            "elif kw == 'continuous':\n                self.predictor_function_ = lambda pred: pred"]
    for frag in need:
        if " ".join(frag.split()) not in txt:
            raise Unsupported(f"_set_predictor_function: expected fragment not found: {frag!r}")
    pr = fns.get("predict")
    pb = [_u(s) for s in _strip_doc(pr.body)] if pr else []
    if pb != ["y_pred = self._raw_predict(X)", "y_pred = self.predictor_function_(y_pred)",
              "y_pred = self._y_transform.inverse_transform(y_pred)", "return y_pred"]:
        raise Unsupported(f"predict: unexpected body {pb}")
    # threshold passed by the classifier
    clf = next((n for n in tree.body if isinstance(n, ast.ClassDef) and n.name == "AdversarialFairnessClassifier"), None)
    thr = None
    if clf is not None:
        for n in ast.walk(clf):
            if isinstance(n, ast.keyword) and n.arg == "threshold_value":
                if thr is not None or not isinstance(n.value, ast.Constant):
                    raise Unsupported("classifier: threshold_value is not a single constant")
                thr = Fraction(n.value.value)
    if thr is None:
        raise Unsupported("classifier: threshold_value not found")
    return binary_fn, thr


def translate(repo: Path):
    tree = ast.parse((Path(repo) / SRC).read_text())
    cls = next((n for n in tree.body if isinstance(n, ast.ClassDef) and n.name == "_AdversarialFairness"), None)
    if cls is None:
        raise Unsupported("_AdversarialFairness not found")
    imports = [_u(n) for n in tree.body if isinstance(n, ast.ImportFrom)]
    if not any(i.startswith("from math import") and "ceil" in i for i in imports):
        raise Unsupported("ceil is not math.ceil")
    if not any(i.startswith("from numpy import") and "argmax" in i for i in imports):
        raise Unsupported("argmax is not numpy.argmax")
    param_ok = _setup_params(cls)
    p = _fit_parts(cls)
    binary_fn, thr = _predict_parts(cls, tree)
    text = (
        f"(* GENERATED by translators/t_adv_schedule.py from {SRC} -- do not edit *)\n"
        "From Coq Require Import QArith ZArith List Bool.\nImport ListNotations.\nOpen Scope Z_scope.\n"
        "(* math.ceil(a / b) on positive ints *)\n"
        "Definition py_ceil_div (a b : Z) : Z := - ((- a) / b).\n"
        f"Definition param_ok (k : Z) : bool := {param_ok}.\n"
        f"Definition fit_rejects (e mi : Z) : bool := {p['rejects']}.\n"
        f"Definition batch_size (n bs : Z) : Z := {p['batch_size']}.\n"
        f"Definition batches (n b : Z) : Z := {p['batches']}.\n"
        f"Definition epochs (e mi nb : Z) : Z := {p['epochs']}.\n"
        f"Definition slice_lo (n b k : Z) : Z := {p['slice_lo']}.\n"
        f"Definition slice_hi (n b k : Z) : Z := {p['slice_hi']}.\n"
        f"Definition max_iter_reached (mi it : Z) : bool := {p['max_iter_reached']}.\n"
        "(* 1 train_step(slice); 2 n_iter_ += 1; 3 max_iter test -> return; 4 every callback with\n"
        "   step=n_iter_, stop = stop or result; 5 if stop: return *)\n"
        f"Definition body_order : list nat := [{'; '.join(str(x) for x in p['order'])}]%nat.\n"
        f"Definition binary_fn (thr out : Q) : bool := {binary_fn}.\n"
        f"Definition threshold : Q := ({thr.numerator} # {thr.denominator})%Q.\n")
    return {"Gen_adv_schedule.v": text}
