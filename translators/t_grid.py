"""t_grid: regenerate the `values` rules and the budget update of
_GridGenerator.accumulate_integer_grid (C09).

Generated: Gen_grid.values (is_last force neg : bool) (max_val : Z) : list Z
           Gen_grid.step (max_val current_value : Z) : Z
where is_last <-> `index == self.dim - 1`, force <-> `self.force_L1_norm`,
neg <-> `self.neg_allowed[index]`.  Everything else about the shape of the recursion (base case,
loop over `values`, `index + 1`, start at (0, n_units), fresh accumulator) is checked literally;
any other shape raises (fail closed)."""
import ast
from pathlib import Path

OUTPUTS = ["Gen_grid.v"]
SRC = "fairlearn/reductions/_grid_search/_grid_generator.py"

ATOMS = {"index == self.dim - 1": "is_last", "self.force_L1_norm": "force", "self.neg_allowed[index]": "neg"}
CMP = {ast.Gt: ">?", ast.GtE: ">=?", ast.Lt: "<?", ast.LtE: "<=?", ast.Eq: "=?"}
BIN = {ast.Add: "+", ast.Sub: "-", ast.Mult: "*"}


class Shape(ValueError):
    pass


def _strip(stmts):
    return [s for s in stmts if not (isinstance(s, ast.Expr) and isinstance(s.value, ast.Constant))]


def _int(e, env):
    if isinstance(e, ast.Name) and e.id in env:
        return e.id
    if isinstance(e, ast.Constant) and type(e.value) is int:
        return str(e.value) if e.value >= 0 else f"({e.value})"
    if isinstance(e, ast.UnaryOp) and isinstance(e.op, ast.USub):
        return f"(- {_int(e.operand, env)})"
    if isinstance(e, ast.BinOp) and type(e.op) in BIN:
        return f"({_int(e.left, env)} {BIN[type(e.op)]} {_int(e.right, env)})"
    if isinstance(e, ast.Call) and isinstance(e.func, ast.Name) and e.func.id == "abs" and len(e.args) == 1 \
            and not e.keywords:
        return f"(Z.abs {_int(e.args[0], env)})"
    if isinstance(e, ast.IfExp):
        return f"(if {_bool(e.test, env)} then {_int(e.body, env)} else {_int(e.orelse, env)})"
    raise Shape(f"unsupported integer expression at line {getattr(e, 'lineno', '?')}: {ast.unparse(e)[:80]}")


def _bool(e, env):
    src = ast.unparse(e)
    if src in ATOMS:
        return ATOMS[src]
    if isinstance(e, ast.BoolOp):
        op = "&&" if isinstance(e.op, ast.And) else "||"
        parts = [_bool(v, env) for v in e.values]
        out = parts[0]
        for p in parts[1:]:
            out = f"({out} {op} {p})"
        return out
    if isinstance(e, ast.UnaryOp) and isinstance(e.op, ast.Not):
        return f"(negb {_bool(e.operand, env)})"
    if isinstance(e, ast.Compare) and len(e.ops) == 1 and type(e.ops[0]) in CMP:
        return f"({_int(e.left, env)} {CMP[type(e.ops[0])]} {_int(e.comparators[0], env)})"
    raise Shape(f"unsupported condition at line {getattr(e, 'lineno', '?')}: {src[:80]}")


def _list(e, env):
    if isinstance(e, ast.List):
        return "[" + "; ".join(_int(x, env) for x in e.elts) + "]"
    if isinstance(e, ast.Call) and isinstance(e.func, ast.Name) and e.func.id == "range" and not e.keywords \
            and len(e.args) in (1, 2):
        a = [_int(x, env) for x in e.args]
        if len(a) == 1:
            a = ["0"] + a
        return f"(pyrange {a[0]} {a[1]})"
    if isinstance(e, ast.IfExp):
        return f"(if {_bool(e.test, env)} then {_list(e.body, env)} else {_list(e.orelse, env)})"
    raise Shape(f"unsupported `values` expression at line {getattr(e, 'lineno', '?')}: {ast.unparse(e)[:80]}")


def _block(stmts, env):
    """statements that end up assigning `values` -> Coq term of type list Z"""
    stmts = _strip(stmts)
    if not stmts:
        raise Shape("block does not assign `values`")
    s, rest = stmts[0], stmts[1:]
    if isinstance(s, ast.Assign) and len(s.targets) == 1 and isinstance(s.targets[0], ast.Name):
        name = s.targets[0].id
        if name == "values":
            if rest:
                raise Shape(f"statements after the assignment of `values` at line {s.lineno}")
            return _list(s.value, env)
        if name in env or name in ("index", "self", "current_value"):
            raise Shape(f"re-assignment of {name} at line {s.lineno}")
        return f"(let {name} := {_int(s.value, env)} in {_block(rest, env | {name})})"
    if isinstance(s, ast.If):
        if rest:
            raise Shape(f"statements after the if at line {s.lineno}")
        if not s.orelse:
            raise Shape(f"if without else at line {s.lineno}")
        return f"(if {_bool(s.test, env)} then {_block(s.body, env)} else {_block(s.orelse, env)})"
    raise Shape(f"unsupported statement at line {s.lineno}: {ast.unparse(s)[:80]}")


def translate(repo: Path):
    tree = ast.parse((Path(repo) / SRC).read_text())
    cls = next((n for n in tree.body if isinstance(n, ast.ClassDef) and n.name == "_GridGenerator"), None)
    if cls is None:
        raise Shape("_GridGenerator not found")
    fns = {n.name: n for n in cls.body if isinstance(n, ast.FunctionDef)}
    # ---- build_integer_grid: fresh entry / accumulator, recursion started at (0, n_units) ----
    b = fns.get("build_integer_grid")
    if b is None or [a.arg for a in b.args.args] != ["self", "n_units"]:
        raise Shape("build_integer_grid: unexpected signature")
    want = ["self.entry = np.zeros(self.dim)", "self.accumulator = []",
            "self.accumulate_integer_grid(0, n_units)", "return self.accumulator"]
    got = [ast.unparse(s) for s in _strip(b.body)]
    if got != want:
        raise Shape(f"build_integer_grid: body is {got!r}")
    # ---- accumulate_integer_grid ----
    f = fns.get("accumulate_integer_grid")
    if f is None or [a.arg for a in f.args.args] != ["self", "index", "max_val"]:
        raise Shape("accumulate_integer_grid: unexpected signature")
    body = _strip(f.body)
    if len(body) != 1 or not isinstance(body[0], ast.If):
        raise Shape("accumulate_integer_grid: body is not a single if/else")
    top = body[0]
    if ast.unparse(top.test) != "index == self.dim":
        raise Shape(f"base-case test is {ast.unparse(top.test)!r}")
    if [ast.unparse(s) for s in _strip(top.body)] != ["self.accumulator.append(self.entry.copy())"]:
        raise Shape("base case does not append a copy of the entry")
    rec = _strip(top.orelse)
    if not rec or not isinstance(rec[-1], ast.For):
        raise Shape("recursive case does not end with a for loop")
    loop = rec[-1]
    if loop.orelse or ast.unparse(loop.target) != "current_value" or ast.unparse(loop.iter) != "values":
        raise Shape("loop is not `for current_value in values`")
    lb = _strip(loop.body)
    if len(lb) != 2 or ast.unparse(lb[0]) != "self.entry[index] = current_value":
        raise Shape("loop body does not store current_value in self.entry[index]")
    call = lb[1].value if isinstance(lb[1], ast.Expr) else None
    if not (isinstance(call, ast.Call) and ast.unparse(call.func) == "self.accumulate_integer_grid"
            and len(call.args) == 2 and not call.keywords and ast.unparse(call.args[0]) == "index + 1"):
        raise Shape("loop body does not recurse on index + 1")
    step = _int(call.args[1], {"max_val", "current_value"})
    values = _block(rec[:-1], {"max_val"})
    text = ("(* GENERATED by translators/t_grid.py from " + SRC + " -- do not edit *)\n"
            "From Coq Require Import ZArith List Bool.\nFrom FL Require Import Grid.\n"
            "Import ListNotations.\nOpen Scope Z_scope.\n"
            "Definition values (is_last force neg : bool) (max_val : Z) : list Z :=\n  " + values + ".\n"
            "Definition step (max_val current_value : Z) : Z :=\n  " + step + ".\n")
    return {"Gen_grid.v": text}
