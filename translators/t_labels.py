"""t_labels: regenerate _get_labels_for_confusion_matrix (C14) as a Gallina decision function.

The Python function is compiled statement by statement into a term of type `option (list Z)`
over the two inputs (unique_labels : list Z  -- standing for list(np.unique(labels)) --,
pos_label : option Z); `raise ValueError` becomes None, `return unique_labels` becomes Some.
An `if` followed by more statements is compiled by pushing the rest into both branches, so the
shape of the generated term follows the control flow of the source.  Every statement or
expression shape outside the small recognised subset raises (fail closed).  Also regenerates the
unpacking order `tnr, fpr, fnr, tpr = confusion_matrix(..., labels=unique_labels,
normalize="true").ravel()` and the returned name of each of the four rate functions."""
import ast
from pathlib import Path

OUTPUTS = ["Gen_labels.v"]
SRC = "fairlearn/metrics/_base_metrics.py"
INT64_MIN = -9223372036854775808


class Unsupported(ValueError):
    pass


def _bad(node, why):
    raise Unsupported(f"{why} at line {getattr(node, 'lineno', '?')}: {ast.unparse(node)[:80]}")


def _z(n):
    return f"({n})" if n < 0 else str(n)


def _expr(node, env):
    """-> (gallina term, type) with type in {'Z', 'listZ', 'optZ', 'none', 'nat'}"""
    if isinstance(node, ast.Constant) and type(node.value) is int:
        return _z(node.value), "Z"
    if isinstance(node, ast.UnaryOp) and isinstance(node.op, ast.USub) and isinstance(node.operand, ast.Constant) \
            and type(node.operand.value) is int:
        return _z(-node.operand.value), "Z"
    if isinstance(node, ast.Name):
        if node.id not in env:
            _bad(node, "unknown name")
        return env[node.id]
    if ast.unparse(node) == "np.iinfo(np.int64).min":
        return _z(INT64_MIN), "Z"
    if isinstance(node, ast.List):
        elts = [_expr(e, env) for e in node.elts]
        if any(t != "Z" for _, t in elts):
            _bad(node, "list element is not an integer-valued expression")
        return "[" + "; ".join(t for t, _ in elts) + "]", "listZ"
    if isinstance(node, ast.Call) and isinstance(node.func, ast.Name) and not node.keywords and len(node.args) == 1:
        f, a = node.func.id, node.args[0]
        if f == "frozenset":
            t, ty = _expr(a, env)
            if ty != "listZ":
                _bad(node, "frozenset of a non-list")
            return t, "listZ"
        if f == "len":
            t, ty = _expr(a, env)
            if ty != "listZ":
                _bad(node, "len of a non-list")
            return f"(length {t})", "nat"
        if f == "list" and isinstance(a, ast.Call) and isinstance(a.func, ast.Name) and a.func.id == "reversed" \
                and len(a.args) == 1 and not a.keywords:
            t, ty = _expr(a.args[0], env)
            if ty != "listZ":
                _bad(node, "reversed of a non-list")
            return f"(rev {t})", "listZ"
    if isinstance(node, ast.Subscript) and isinstance(node.slice, ast.Constant) and type(node.slice.value) is int \
            and node.slice.value >= 0:
        t, ty = _expr(node.value, env)
        if ty != "listZ":
            _bad(node, "subscript of a non-list")
        return f"(nth {node.slice.value} {t} 0)", "Z"
    _bad(node, "unsupported expression")


def _test(node, env):
    """-> gallina bool term"""
    if isinstance(node, ast.BoolOp):
        op = "||" if isinstance(node.op, ast.Or) else "&&"
        return "(" + f" {op} ".join(_test(v, env) for v in node.values) + ")"
    if isinstance(node, ast.UnaryOp) and isinstance(node.op, ast.Not):
        return f"(negb {_test(node.operand, env)})"
    if isinstance(node, ast.Compare) and len(node.ops) == 1 and isinstance(node.ops[0], ast.Eq):
        (a, ta), (b, tb) = _expr(node.left, env), _expr(node.comparators[0], env)
        if ta == "Z" and tb == "Z":
            return f"({a} =? {b})"
        if ta == "nat" and tb == "Z" and not b.startswith("("):
            return f"(Nat.eqb {a} {b})"
        if ta == "Z" and tb == "nat" and not a.startswith("("):
            return f"(Nat.eqb {b} {a})"
        _bad(node, f"comparison between {ta} and {tb}")
    if isinstance(node, ast.Call) and isinstance(node.func, ast.Attribute) and node.func.attr == "issuperset" \
            and len(node.args) == 1 and not node.keywords:
        s, ts = _expr(node.func.value, env)
        l, tl = _expr(node.args[0], env)
        if ts != "listZ" or tl != "listZ":
            _bad(node, "issuperset on non-lists")
        return f"(forallb (fun x => existsb (Z.eqb x) {s}) {l})"
    _bad(node, "unsupported condition")


def _block(stmts, env):
    """-> gallina term : option (list Z)"""
    if not stmts:
        raise Unsupported("control reaches the end of the function without return / raise")
    s, rest = stmts[0], stmts[1:]
    if isinstance(s, ast.Pass):
        return _block(rest, env)
    if isinstance(s, ast.Return):
        if s.value is None:
            _bad(s, "bare return")
        t, ty = _expr(s.value, env)
        if ty != "listZ":
            _bad(s, "return of a non-list")
        return f"Some {t}"
    if isinstance(s, ast.Raise):
        if not (isinstance(s.exc, ast.Call) and isinstance(s.exc.func, ast.Name) and s.exc.func.id == "ValueError"):
            _bad(s, "raise of something other than ValueError(...)")
        return "None"
    if isinstance(s, ast.Assign) and len(s.targets) == 1 and isinstance(s.targets[0], ast.Name):
        t, ty = _expr(s.value, env)
        return _block(rest, {**env, s.targets[0].id: (t, ty)})
    if isinstance(s, ast.Expr) and isinstance(s.value, ast.Call) and isinstance(s.value.func, ast.Attribute) \
            and s.value.func.attr == "append" and isinstance(s.value.func.value, ast.Name) \
            and len(s.value.args) == 1 and not s.value.keywords:
        name = s.value.func.value.id
        l, tl = _expr(s.value.func.value, env)
        x, tx = _expr(s.value.args[0], env)
        if tl != "listZ" or tx != "Z":
            _bad(s, "append with unsupported operand types")
        return _block(rest, {**env, name: (f"({l} ++ [{x}])", "listZ")})
    if isinstance(s, ast.If):
        t = s.test
        # `<name> is None` on the optional argument: becomes a match
        if isinstance(t, ast.Compare) and len(t.ops) == 1 and isinstance(t.ops[0], (ast.Is, ast.IsNot)) \
                and isinstance(t.left, ast.Name) and isinstance(t.comparators[0], ast.Constant) \
                and t.comparators[0].value is None:
            name = t.left.id
            term, ty = env.get(name, (None, None))
            yes, no = (s.body, s.orelse) if isinstance(t.ops[0], ast.Is) else (s.orelse, s.body)
            if ty == "optZ":
                v = f"{name}_v"
                a = _block(list(yes) + rest, {**env, name: ("None", "none")})
                b = _block(list(no) + rest, {**env, name: (v, "Z")})
                return f"(match {term} with None => {a} | Some {v} => {b} end)"
            if ty == "Z":
                return _block(list(no) + rest, env)
            if ty == "none":
                return _block(list(yes) + rest, env)
            _bad(s, "`is None` test on a non-optional value")
        c = _test(t, env)
        a = _block(list(s.body) + rest, env)
        b = _block(list(s.orelse) + rest, env)
        return f"(if {c} then {a} else {b})"
    _bad(s, "unsupported statement")


def _strip_doc(body):
    if body and isinstance(body[0], ast.Expr) and isinstance(body[0].value, ast.Constant) \
            and isinstance(body[0].value.value, str):
        return body[1:]
    return body


RATE_FUNCS = ["true_positive_rate", "true_negative_rate", "false_positive_rate", "false_negative_rate"]
CELL = {"tnr": 0, "fpr": 1, "fnr": 2, "tpr": 3}        # meaning of a name


def _rate_proj(fn):
    """Which cell of the row-normalised confusion matrix (ravel order 0..3) the function returns."""
    body = _strip_doc(fn.body)
    args = [a.arg for a in fn.args.args]
    if args != ["y_true", "y_pred", "sample_weight", "pos_label"] or fn.args.kwonlyargs or fn.args.vararg \
            or fn.args.kwarg:
        raise Unsupported(f"{fn.name}: unexpected signature {args}")
    if [ast.unparse(d) for d in fn.args.defaults] != ["None", "None"]:
        raise Unsupported(f"{fn.name}: unexpected defaults")
    if len(body) != 3:
        raise Unsupported(f"{fn.name}: expected 3 statements, found {len(body)}")
    want0 = "unique_labels = _get_labels_for_confusion_matrix(np.vstack((y_true, y_pred)), pos_label)"
    if ast.unparse(body[0]) != want0:
        raise Unsupported(f"{fn.name}: first statement is {ast.unparse(body[0])!r}")
    a = body[1]
    if not (isinstance(a, ast.Assign) and len(a.targets) == 1 and isinstance(a.targets[0], ast.Tuple)
            and all(isinstance(e, ast.Name) for e in a.targets[0].elts) and len(a.targets[0].elts) == 4):
        raise Unsupported(f"{fn.name}: second statement is not a 4-name unpacking")
    names = [e.id for e in a.targets[0].elts]
    call = ast.unparse(a.value).replace(" ", "").replace("\n", "")
    want = ("skm.confusion_matrix(y_true,y_pred,sample_weight=sample_weight,labels=unique_labels,"
            "normalize='true').ravel()")
    if call != want:
        raise Unsupported(f"{fn.name}: confusion matrix call is {call!r}")
    r = body[2]
    if not (isinstance(r, ast.Return) and isinstance(r.value, ast.Name) and r.value.id in names):
        raise Unsupported(f"{fn.name}: does not return one of the unpacked names")
    return names.index(r.value.id)


def translate(repo: Path):
    tree = ast.parse((Path(repo) / SRC).read_text())
    fns = {n.name: n for n in tree.body if isinstance(n, ast.FunctionDef)}
    fn = fns.get("_get_labels_for_confusion_matrix")
    if fn is None:
        raise Unsupported("_get_labels_for_confusion_matrix not found")
    if [a.arg for a in fn.args.args] != ["labels", "pos_label"] or fn.args.defaults or fn.args.kwonlyargs \
            or fn.args.vararg or fn.args.kwarg:
        raise Unsupported("_get_labels_for_confusion_matrix: unexpected signature")
    body = _strip_doc(fn.body)
    if not body or ast.unparse(body[0]) != "unique_labels = list(np.unique(labels))":
        raise Unsupported("first statement is not `unique_labels = list(np.unique(labels))`")
    env = {"unique_labels": ("unique_labels", "listZ"), "pos_label": ("pos_label", "optZ")}
    term = _block(body[1:], env)
    projs = []
    for name in RATE_FUNCS:
        if name not in fns:
            raise Unsupported(f"{name} not found")
        projs.append((name, _rate_proj(fns[name])))
    text = ("(* GENERATED by translators/t_labels.py from " + SRC + " -- do not edit *)\n"
            "From Coq Require Import ZArith List Bool.\nImport ListNotations.\nOpen Scope Z_scope.\n"
            "Definition labels_for_cm (unique_labels : list Z) (pos_label : option Z) : option (list Z) :=\n  "
            + term + ".\n"
            "(* index, in confusion_matrix(...).ravel(), of the value each function returns *)\n"
            + "".join(f"Definition cell_of_{n} : nat := {k}.\n" for n, k in projs))
    return {"Gen_labels.v": text}
