"""t_labels: regenerate _get_labels_for_confusion_matrix (C14) as a Gallina decision function.

The Python function is compiled statement by statement into a term of type `option (list Z)`
over the two inputs (unique_labels : list Z  -- standing for list(np.unique(labels)) --,
pos_label : option Z); `raise ValueError` becomes None, `return unique_labels` becomes Some.
An `if` followed by more statements is compiled by pushing the rest into both branches, so the
shape of the generated term follows the control flow of the source.  Every statement or
expression shape outside the small recognised subset raises (fail closed).  Also regenerates the
unpacking order `tnr, fpr, fnr, tpr = confusion_matrix(..., labels=unique_labels,
normalize="true").ravel()` and the returned name of each of the four rate functions.

Second output (Gen_ratebodies.v, used by props/C14.v only): the BODIES of the seven metrics as source-shape
terms over FL.BaseRatesSrc -- for the four rates a record (which arrays feed the label computation, whether
pos_label / sample_weight / labels are forwarded, the normalize keyword, ravel, the returned cell); for
selection_rate and mean_prediction a statement tree compiled like the label function (assignments substituted,
the rest of the function pushed into both branches of an `if`); for count the checked arrays and the measured
one.  Shapes outside the small recognised language raise (fail closed); recognised-but-different shapes are
emitted as they are and rejected by the kernel in props/C14.v."""
import ast
from pathlib import Path

OUTPUTS = ["Gen_labels.v", "Gen_ratebodies.v"]
SRC_MF = "fairlearn/metrics/_metric_frame.py"
SRC = "fairlearn/metrics/_base_metrics.py"
INT64_MIN = -9223372036854775808


class Unsupported(ValueError):
    pass


def _bad(node, why):
    raise Unsupported(f"{why} at line {getattr(node, 'lineno', '?')}: {ast.unparse(node)[:80]}")


def _z(n):
    return f"({n})" if n < 0 else str(n)


def _expr(node, env):
    """-> (gallina term, type) with type in {'Z', 'listZ', 'optZ', 'none', 'nat'}"""
    if isinstance(node, ast.Constant) and type(node.value) is int:
        return _z(node.value), "Z"
    if isinstance(node, ast.UnaryOp) and isinstance(node.op, ast.USub) and isinstance(node.operand, ast.Constant) \
            and type(node.operand.value) is int:
        return _z(-node.operand.value), "Z"
    if isinstance(node, ast.Name):
        if node.id not in env:
            _bad(node, "unknown name")
        return env[node.id]
    if ast.unparse(node) == "np.iinfo(np.int64).min":
        return _z(INT64_MIN), "Z"
    if isinstance(node, ast.List):
        elts = [_expr(e, env) for e in node.elts]
        if any(t != "Z" for _, t in elts):
            _bad(node, "list element is not an integer-valued expression")
        return "[" + "; ".join(t for t, _ in elts) + "]", "listZ"
    if isinstance(node, ast.Call) and isinstance(node.func, ast.Name) and not node.keywords and len(node.args) == 1:
        f, a = node.func.id, node.args[0]
        if f == "frozenset":
            t, ty = _expr(a, env)
            if ty != "listZ":
                _bad(node, "frozenset of a non-list")
            return t, "listZ"
        if f == "len":
            t, ty = _expr(a, env)
            if ty != "listZ":
                _bad(node, "len of a non-list")
            return f"(length {t})", "nat"
        if f == "list" and isinstance(a, ast.Call) and isinstance(a.func, ast.Name) and a.func.id == "reversed" \
                and len(a.args) == 1 and not a.keywords:
            t, ty = _expr(a.args[0], env)
            if ty != "listZ":
                _bad(node, "reversed of a non-list")
            return f"(rev {t})", "listZ"
    if isinstance(node, ast.Subscript) and isinstance(node.slice, ast.Constant) and type(node.slice.value) is int \
            and node.slice.value >= 0:
        t, ty = _expr(node.value, env)
        if ty != "listZ":
            _bad(node, "subscript of a non-list")
        return f"(nth {node.slice.value} {t} 0)", "Z"
    _bad(node, "unsupported expression")


def _test(node, env):
    """-> gallina bool term"""
    if isinstance(node, ast.BoolOp):
        op = "||" if isinstance(node.op, ast.Or) else "&&"
        return "(" + f" {op} ".join(_test(v, env) for v in node.values) + ")"
    if isinstance(node, ast.UnaryOp) and isinstance(node.op, ast.Not):
        return f"(negb {_test(node.operand, env)})"
    if isinstance(node, ast.Compare) and len(node.ops) == 1 and isinstance(node.ops[0], ast.Eq):
        (a, ta), (b, tb) = _expr(node.left, env), _expr(node.comparators[0], env)
        if ta == "Z" and tb == "Z":
            return f"({a} =? {b})"
        if ta == "nat" and tb == "Z" and not b.startswith("("):
            return f"(Nat.eqb {a} {b})"
        if ta == "Z" and tb == "nat" and not a.startswith("("):
            return f"(Nat.eqb {b} {a})"
        _bad(node, f"comparison between {ta} and {tb}")
    if isinstance(node, ast.Call) and isinstance(node.func, ast.Attribute) and node.func.attr == "issuperset" \
            and len(node.args) == 1 and not node.keywords:
        s, ts = _expr(node.func.value, env)
        l, tl = _expr(node.args[0], env)
        if ts != "listZ" or tl != "listZ":
            _bad(node, "issuperset on non-lists")
        return f"(forallb (fun x => existsb (Z.eqb x) {s}) {l})"
    _bad(node, "unsupported condition")


def _block(stmts, env):
    """-> gallina term : option (list Z)"""
    if not stmts:
        raise Unsupported("control reaches the end of the function without return / raise")
    s, rest = stmts[0], stmts[1:]
    if isinstance(s, ast.Pass):
        return _block(rest, env)
    if isinstance(s, ast.Return):
        if s.value is None:
            _bad(s, "bare return")
        t, ty = _expr(s.value, env)
        if ty != "listZ":
            _bad(s, "return of a non-list")
        return f"Some {t}"
    if isinstance(s, ast.Raise):
        if not (isinstance(s.exc, ast.Call) and isinstance(s.exc.func, ast.Name) and s.exc.func.id == "ValueError"):
            _bad(s, "raise of something other than ValueError(...)")
        return "None"
    if isinstance(s, ast.Assign) and len(s.targets) == 1 and isinstance(s.targets[0], ast.Name):
        t, ty = _expr(s.value, env)
        return _block(rest, {**env, s.targets[0].id: (t, ty)})
    if isinstance(s, ast.Expr) and isinstance(s.value, ast.Call) and isinstance(s.value.func, ast.Attribute) \
            and s.value.func.attr == "append" and isinstance(s.value.func.value, ast.Name) \
            and len(s.value.args) == 1 and not s.value.keywords:
        name = s.value.func.value.id
        l, tl = _expr(s.value.func.value, env)
        x, tx = _expr(s.value.args[0], env)
        if tl != "listZ" or tx != "Z":
            _bad(s, "append with unsupported operand types")
        return _block(rest, {**env, name: (f"({l} ++ [{x}])", "listZ")})
    if isinstance(s, ast.If):
        t = s.test
        # `<name> is None` on the optional argument: becomes a match
        if isinstance(t, ast.Compare) and len(t.ops) == 1 and isinstance(t.ops[0], (ast.Is, ast.IsNot)) \
                and isinstance(t.left, ast.Name) and isinstance(t.comparators[0], ast.Constant) \
                and t.comparators[0].value is None:
            name = t.left.id
            term, ty = env.get(name, (None, None))
            yes, no = (s.body, s.orelse) if isinstance(t.ops[0], ast.Is) else (s.orelse, s.body)
            if ty == "optZ":
                v = f"{name}_v"
                a = _block(list(yes) + rest, {**env, name: ("None", "none")})
                b = _block(list(no) + rest, {**env, name: (v, "Z")})
                return f"(match {term} with None => {a} | Some {v} => {b} end)"
            if ty == "Z":
                return _block(list(no) + rest, env)
            if ty == "none":
                return _block(list(yes) + rest, env)
            _bad(s, "`is None` test on a non-optional value")
        c = _test(t, env)
        a = _block(list(s.body) + rest, env)
        b = _block(list(s.orelse) + rest, env)
        return f"(if {c} then {a} else {b})"
    _bad(s, "unsupported statement")


def _strip_doc(body):
    if body and isinstance(body[0], ast.Expr) and isinstance(body[0].value, ast.Constant) \
            and isinstance(body[0].value.value, str):
        return body[1:]
    return body


RATE_FUNCS = ["true_positive_rate", "true_negative_rate", "false_positive_rate", "false_negative_rate"]
CELL = {"tnr": 0, "fpr": 1, "fnr": 2, "tpr": 3}        # meaning of a name


ARR = {"y_true": "AYTrue", "y_pred": "AYPred"}
NORM = {"true": "NormTrue", "pred": "NormPred", "all": "NormAll", None: "NormNone"}
STACKS = ("np.vstack", "np.hstack", "np.concatenate", "np.stack")
LABEL_FN = "_get_labels_for_confusion_matrix"


def _arr(node, fname):
    if isinstance(node, ast.Name) and node.id in ARR:
        return ARR[node.id]
    raise Unsupported(f"{fname}: expected y_true or y_pred, found {ast.unparse(node)[:40]!r}")


def _rate_body(fn):
    """-> (rate_src term, index of the returned cell in the unpacking)"""
    body = _strip_doc(fn.body)
    args = [a.arg for a in fn.args.args]
    if args != ["y_true", "y_pred", "sample_weight", "pos_label"] or fn.args.kwonlyargs or fn.args.vararg \
            or fn.args.kwarg or fn.args.posonlyargs:
        raise Unsupported(f"{fn.name}: unexpected signature {args}")
    if [ast.unparse(d) for d in fn.args.defaults] != ["None", "None"]:
        raise Unsupported(f"{fn.name}: unexpected defaults")
    if len(body) != 3:
        raise Unsupported(f"{fn.name}: expected 3 statements, found {len(body)}")
    # 1. <labels> = _get_labels_for_confusion_matrix(<stack of arrays>, <pos_label>)
    a0 = body[0]
    if not (isinstance(a0, ast.Assign) and len(a0.targets) == 1 and isinstance(a0.targets[0], ast.Name)
            and a0.targets[0].id not in args and isinstance(a0.value, ast.Call) and isinstance(a0.value.func, ast.Name)
            and a0.value.func.id == LABEL_FN and len(a0.value.args) == 2 and not a0.value.keywords):
        raise Unsupported(f"{fn.name}: first statement is {ast.unparse(a0)[:90]!r}")
    lname = a0.targets[0].id
    d, p = a0.value.args
    if isinstance(d, ast.Call) and ast.unparse(d.func) in STACKS and len(d.args) == 1 and not d.keywords \
            and isinstance(d.args[0], (ast.Tuple, ast.List)):
        data = [_arr(e, fn.name) for e in d.args[0].elts]
    else:
        data = [_arr(d, fn.name)]
    if ast.unparse(p) == "pos_label":
        posf = "true"
    elif ast.unparse(p) == "None":
        posf = "false"
    else:
        raise Unsupported(f"{fn.name}: second argument of {LABEL_FN} is {ast.unparse(p)[:40]!r}")
    # 2. c0, c1, c2, c3 = skm.confusion_matrix(A, B, sample_weight=..., labels=..., normalize=...).ravel()
    a = body[1]
    if not (isinstance(a, ast.Assign) and len(a.targets) == 1 and isinstance(a.targets[0], ast.Tuple)
            and all(isinstance(e, ast.Name) for e in a.targets[0].elts) and len(a.targets[0].elts) == 4):
        raise Unsupported(f"{fn.name}: second statement is not a 4-name unpacking")
    names = [e.id for e in a.targets[0].elts]
    if len(set(names)) != 4 or set(names) & set(args + [lname]):
        raise Unsupported(f"{fn.name}: unpacked names {names} are not four fresh names")
    call = a.value
    ravel = "false"
    if isinstance(call, ast.Call) and isinstance(call.func, ast.Attribute) and call.func.attr == "ravel" \
            and not call.args and not call.keywords:
        ravel, call = "true", call.func.value
    if not (isinstance(call, ast.Call) and ast.unparse(call.func) == "skm.confusion_matrix" and len(call.args) == 2):
        raise Unsupported(f"{fn.name}: confusion matrix call is {ast.unparse(a.value)[:90]!r}")
    cm_true, cm_pred = (_arr(x, fn.name) for x in call.args)
    kws = {}
    for k in call.keywords:
        if k.arg not in ("sample_weight", "labels", "normalize") or k.arg in kws:
            raise Unsupported(f"{fn.name}: unsupported keyword {k.arg!r} in the confusion matrix call")
        kws[k.arg] = k.value
    wf = "false"
    if "sample_weight" in kws:
        t = ast.unparse(kws["sample_weight"])
        if t not in ("sample_weight", "None"):
            raise Unsupported(f"{fn.name}: sample_weight={t[:40]}")
        wf = "true" if t == "sample_weight" else "false"
    lf = "false"
    if "labels" in kws:
        if ast.unparse(kws["labels"]) != lname:
            raise Unsupported(f"{fn.name}: labels={ast.unparse(kws['labels'])[:40]}")
        lf = "true"
    nm = None
    if "normalize" in kws:
        n = kws["normalize"]
        if not (isinstance(n, ast.Constant) and (n.value is None or isinstance(n.value, str)) and n.value in NORM):
            raise Unsupported(f"{fn.name}: normalize={ast.unparse(n)[:40]}")
        nm = n.value
    # 3. return one of the unpacked names
    r = body[2]
    if not (isinstance(r, ast.Return) and isinstance(r.value, ast.Name) and r.value.id in names):
        raise Unsupported(f"{fn.name}: does not return one of the unpacked names")
    cell = names.index(r.value.id)
    term = (f"mk_rate [{'; '.join(data)}] {posf} {cm_true} {cm_pred} {wf} {lf} {NORM[nm]} {ravel} {cell}")
    return term, cell


# ---- selection_rate / mean_prediction: statement trees over BaseRatesSrc.vex / sex / stm ----

SQUEEZE = "_convert_to_ndarray_and_squeeze"
PARAMS = ("y_true", "y_pred", "sample_weight", "pos_label")


def _vex(node, env, given, has_pos):
    if isinstance(node, ast.Name):
        if node.id in env:
            return env[node.id]
        if node.id == "y_true":
            return "VYTrue"
        if node.id == "y_pred":
            return "VYPred"
        if node.id == "sample_weight" and given is True:
            return "VWeight"
        _bad(node, "unsupported array name (sample_weight outside an `is not None` branch, or unknown)")
    if isinstance(node, ast.Call) and not node.keywords and len(node.args) == 1:
        f = ast.unparse(node.func)
        if f == SQUEEZE:
            return f"(VSqueeze {_vex(node.args[0], env, given, has_pos)})"
        if f == "np.ones":
            a = node.args[0]
            if isinstance(a, ast.Call) and ast.unparse(a.func) == "len" and len(a.args) == 1 and not a.keywords:
                return f"(VOnes {_vex(a.args[0], env, given, has_pos)})"
    if isinstance(node, ast.Compare) and len(node.ops) == 1 and isinstance(node.ops[0], ast.Eq) and has_pos \
            and ast.unparse(node.comparators[0]) == "pos_label":
        return f"(VEqPos {_vex(node.left, env, given, has_pos)})"
    _bad(node, "unsupported array expression")


def _sex(node, env, given, has_pos):
    if isinstance(node, ast.BinOp) and isinstance(node.op, ast.Div):
        return f"(SDiv {_sex(node.left, env, given, has_pos)} {_sex(node.right, env, given, has_pos)})"
    if isinstance(node, ast.Call) and not node.keywords:
        f = ast.unparse(node.func)
        if f == "np.dot" and len(node.args) == 2:
            return f"(SDot {_vex(node.args[0], env, given, has_pos)} {_vex(node.args[1], env, given, has_pos)})"
        if f in ("np.sum", "np.mean") and len(node.args) == 1:
            return f"({'SSum' if f == 'np.sum' else 'SMean'} {_vex(node.args[0], env, given, has_pos)})"
        if isinstance(node.func, ast.Attribute) and node.func.attr in ("sum", "mean") and not node.args:
            return f"({'SSum' if node.func.attr == 'sum' else 'SMean'} {_vex(node.func.value, env, given, has_pos)})"
    _bad(node, "unsupported scalar expression")


def _mblock(stmts, env, given, has_pos):
    """-> BaseRatesSrc.stm term; `given` = what is known about `sample_weight is not None` on this path"""
    if not stmts:
        raise Unsupported("control reaches the end of the function without return / raise")
    s, rest = stmts[0], stmts[1:]
    if isinstance(s, ast.Return):
        if s.value is None:
            _bad(s, "bare return")
        return f"(SReturn {_sex(s.value, env, given, has_pos)})"
    if isinstance(s, ast.Raise):
        if not (isinstance(s.exc, ast.Call) and isinstance(s.exc.func, ast.Name) and s.exc.func.id == "ValueError"):
            _bad(s, "raise of something other than ValueError(...)")
        return "SRaise"
    if isinstance(s, ast.Assign) and len(s.targets) == 1 and isinstance(s.targets[0], ast.Name):
        if s.targets[0].id in PARAMS:
            _bad(s, "a parameter is rebound")
        return _mblock(rest, {**env, s.targets[0].id: _vex(s.value, env, given, has_pos)}, given, has_pos)
    if isinstance(s, ast.If):
        t = ast.unparse(s.test)
        if t in ("sample_weight is not None", "sample_weight is None"):
            yes, no = (s.body, s.orelse) if t.endswith("is not None") else (s.orelse, s.body)
            if given is True:
                return _mblock(list(yes) + rest, env, given, has_pos)
            if given is False:
                return _mblock(list(no) + rest, env, given, has_pos)
            return (f"(SIfWeight {_mblock(list(yes) + rest, env, True, has_pos)} "
                    f"{_mblock(list(no) + rest, env, False, has_pos)})")
        c = s.test
        if isinstance(c, ast.Compare) and len(c.ops) == 1 and isinstance(c.ops[0], ast.Eq) \
                and ast.unparse(c.comparators[0]) == "0" and isinstance(c.left, ast.Call) \
                and ast.unparse(c.left.func) == "len" and len(c.left.args) == 1 and not c.left.keywords:
            v = _vex(c.left.args[0], env, given, has_pos)
            return (f"(SIfEmpty {v} {_mblock(list(s.body) + rest, env, given, has_pos)} "
                    f"{_mblock(list(s.orelse) + rest, env, given, has_pos)})")
        _bad(s, "unsupported condition")
    _bad(s, "unsupported statement")


def _sig(fn, args, kwonly, defaults, kwdefaults):
    got = ([a.arg for a in fn.args.args], [a.arg for a in fn.args.kwonlyargs],
           [ast.unparse(d) for d in fn.args.defaults],
           [None if d is None else ast.unparse(d) for d in fn.args.kw_defaults])
    if got != (args, kwonly, defaults, kwdefaults) or fn.args.vararg or fn.args.kwarg or fn.args.posonlyargs:
        raise Unsupported(f"{fn.name}: unexpected signature {got}")


def _count_body(fn):
    _sig(fn, ["y_true", "y_pred"], [], [], [])
    body = _strip_doc(fn.body)
    checked = []
    if len(body) == 2:
        c = body[0]
        if not (isinstance(c, ast.Expr) and isinstance(c.value, ast.Call)
                and ast.unparse(c.value.func) == "check_consistent_length" and not c.value.keywords
                and len(c.value.args) == 2):
            raise Unsupported(f"count: first statement is {ast.unparse(c)[:80]!r}")
        checked = [_arr(a, "count") for a in c.value.args]
    elif len(body) != 1:
        raise Unsupported(f"count: expected 1 or 2 statements, found {len(body)}")
    r = body[-1]
    if not (isinstance(r, ast.Return) and isinstance(r.value, ast.Call) and ast.unparse(r.value.func) == "len"
            and len(r.value.args) == 1 and not r.value.keywords):
        raise Unsupported(f"count: does not return len(<array>)")
    return f"mk_count [{'; '.join(checked)}] {_arr(r.value.args[0], 'count')}"


def _imports(tree, repo):
    """the names the bodies rely on are the library functions they are modelled as"""
    def has(t, pred):
        return any(pred(n) for n in t.body)
    ok = (has(tree, lambda n: isinstance(n, ast.Import) and any(a.name == "numpy" and a.asname == "np" for a in n.names))
          and has(tree, lambda n: isinstance(n, ast.Import)
                  and any(a.name == "sklearn.metrics" and a.asname == "skm" for a in n.names))
          and has(tree, lambda n: isinstance(n, ast.ImportFrom) and n.module == "fairlearn.utils._input_manipulations"
                  and n.level == 0 and any(a.name == SQUEEZE and a.asname is None for a in n.names))
          and has(tree, lambda n: isinstance(n, ast.ImportFrom) and n.module == "_metric_frame" and n.level == 1
                  and any(a.name == "check_consistent_length" and a.asname is None for a in n.names)))
    if not ok:
        raise Unsupported("imports of np / skm / _convert_to_ndarray_and_squeeze / check_consistent_length changed")
    for name in ("np", "skm", SQUEEZE, "check_consistent_length", LABEL_FN):
        binds = [n for n in ast.walk(tree) if (isinstance(n, ast.Name) and n.id == name and isinstance(n.ctx, ast.Store))
                 or (isinstance(n, (ast.FunctionDef, ast.ClassDef)) and n.name == name)
                 or (isinstance(n, ast.arg) and n.arg == name)]
        if len(binds) != (1 if name == LABEL_FN else 0):
            raise Unsupported(f"{name} is rebound in {SRC}")
    mf = ast.parse((Path(repo) / SRC_MF).read_text())
    if not any(isinstance(n, ast.ImportFrom) and n.module == "sklearn.utils" and n.level == 0
               and any(a.name == "check_consistent_length" and a.asname is None for a in n.names) for n in mf.body) \
            or any(isinstance(n, ast.FunctionDef) and n.name == "check_consistent_length" for n in ast.walk(mf)):
        raise Unsupported(f"check_consistent_length in {SRC_MF} is not sklearn.utils.check_consistent_length")


def translate(repo: Path):
    tree = ast.parse((Path(repo) / SRC).read_text())
    fns = {n.name: n for n in tree.body if isinstance(n, ast.FunctionDef)}
    fn = fns.get("_get_labels_for_confusion_matrix")
    if fn is None:
        raise Unsupported("_get_labels_for_confusion_matrix not found")
    if [a.arg for a in fn.args.args] != ["labels", "pos_label"] or fn.args.defaults or fn.args.kwonlyargs \
            or fn.args.vararg or fn.args.kwarg:
        raise Unsupported("_get_labels_for_confusion_matrix: unexpected signature")
    body = _strip_doc(fn.body)
    if not body or ast.unparse(body[0]) != "unique_labels = list(np.unique(labels))":
        raise Unsupported("first statement is not `unique_labels = list(np.unique(labels))`")
    env = {"unique_labels": ("unique_labels", "listZ"), "pos_label": ("pos_label", "optZ")}
    term = _block(body[1:], env)
    projs = []
    for name in RATE_FUNCS:
        if name not in fns:
            raise Unsupported(f"{name} not found")
        projs.append((name,) + _rate_body(fns[name]))
    text = ("(* GENERATED by translators/t_labels.py from " + SRC + " -- do not edit *)\n"
            "From Coq Require Import ZArith List Bool.\nImport ListNotations.\nOpen Scope Z_scope.\n"
            "Definition labels_for_cm (unique_labels : list Z) (pos_label : option Z) : option (list Z) :=\n  "
            + term + ".\n"
            "(* index, in confusion_matrix(...).ravel(), of the value each function returns *)\n"
            + "".join(f"Definition cell_of_{n} : nat := {k}.\n" for n, _, k in projs))
    if len([n for n in tree.body if isinstance(n, ast.FunctionDef)]) != len(fns):
        raise Unsupported("a function is defined twice")
    _imports(tree, repo)
    for name in ("selection_rate", "mean_prediction", "count"):
        if name not in fns:
            raise Unsupported(f"{name} not found")
    sel, mean = fns["selection_rate"], fns["mean_prediction"]
    _sig(sel, ["y_true", "y_pred"], ["pos_label", "sample_weight"], [], ["1", "None"])
    _sig(mean, ["y_true", "y_pred", "sample_weight"], [], ["None"], [])
    bodies = ("(* GENERATED by translators/t_labels.py from " + SRC + " -- do not edit *)\n"
              "From Coq Require Import ZArith List Bool.\nFrom FL Require Import BaseRatesSrc.\n"
              "Import ListNotations.\n"
              "(* label data; pos_label forwarded; confusion_matrix arguments; sample_weight forwarded; labels forwarded;\n"
              "   normalize; ravel; returned cell *)\n"
              + "".join(f"Definition body_{n} : rate_src :=\n  {t}.\n" for n, t, _ in projs)
              + "(* selection_rate(y_true, y_pred, *, pos_label=1, sample_weight=None) *)\n"
              "Definition selection_rate_default_pos_label : Z := 1%Z.\n"
              f"Definition body_selection_rate : stm :=\n  {_mblock(_strip_doc(sel.body), {}, None, True)}.\n"
              "(* mean_prediction(y_true, y_pred, sample_weight=None) *)\n"
              f"Definition body_mean_prediction : stm :=\n  {_mblock(_strip_doc(mean.body), {}, None, False)}.\n"
              "(* count(y_true, y_pred): checked arrays, measured array *)\n"
              f"Definition body_count : count_src :=\n  {_count_body(fns['count'])}.\n")
    return {"Gen_labels.v": text, "Gen_ratebodies.v": bodies}
