"""t_lifecycle: regenerate the life-cycle switches of the estimators (C19) from the source.

The model FL.Lifecycle is a set of state machines whose shape rests on a handful of facts about the code:
which value `fit` returns, whether Moment.load_data may be called twice, which constructor attributes `fit`
rebinds, which attributes `fit` reads before it assigned them in the same call (= state carried over from an
earlier call), when the adversarial estimators re-initialise, whether a user supplied torch module is used
itself, whether prediction leaves the network in evaluation mode.  This translator decodes these facts with
the Python `ast` module and writes them as a value `src : lifecycle_src` (FL.LifecycleSrc) into
coq/gen/Gen_lifecycle.v; props/C19.v states `Gen_lifecycle.src = model_src` (reflexivity).

Decoded (everything else raises Shape -> the generated fragment does not compile):

  per estimator (ThresholdOptimizer, ExponentiatedGradient, GridSearch, CorrelationRemover, the shared
  _AdversarialFairness.fit of AdversarialFairnessClassifier / Regressor) by an abstract execution of `fit`
  and of every method of the same class it refers to (definite-assignment analysis, branches intersected,
  loops may run zero times, helper methods entered at the point of the reference):
    fs_returns_self   every `return` of fit is `return self` and the body cannot fall off its end
    fs_param_writes   attributes assigned in __init__ that fit (or a helper) assigns / deletes / item-assigns
    fs_param_calls    methods called directly on a constructor parameter (`self.<param>.<m>(...)`)
    fs_history_reads  attributes read (incl. hasattr / getattr) before this call definitely assigned them
    fs_inplace        fitted attributes mutated in place (item / attribute store, append, ...)
    fs_escapes        callables that receive the estimator object itself
  the adversarial estimators a second time under the assumption warm_start = False (constants are folded
  through `not` / `and` / `or`, locals and the arguments of helper calls)
  ExponentiatedGradient: the guard of the `self.nu = ...` assignment
  Moment.load_data: assertion / raise / early return on data_loaded; `self.data_loaded = True` unconditional;
    any other read of data_loaded in fairlearn/reductions
  _Lagrangian.__init__ and GridSearch.fit: load_data of constraints and objective unconditional, with the
    data of this call; ExponentiatedGradient.fit hands self.constraints / self.objective to _Lagrangian
  adversarial: truth tables (over fitted = hasattr(self, "classes_"), warm = self.warm_start) of the
    re-initialisation flag handed to _validate_input and of the `del self.classes_` guard; truth table of the
    `__setup` guard in _validate_input; classes_ re-derived when missing; the attributes __setup assigns
    unconditionally; __sklearn_is_fitted__'s marker; BackendEngine.__init__'s reuse rule;
    BackendEngine.__init_model__ on a user module; engines' writes to the estimator;
    PytorchEngine.evaluate: `.eval()` before the forward pass; train_step: `.train()` on both networks first
"""
import ast
from pathlib import Path

OUTPUTS = ["Gen_lifecycle.v"]

F_TO = "fairlearn/postprocessing/_threshold_optimizer.py"
F_EG = "fairlearn/reductions/_exponentiated_gradient/exponentiated_gradient.py"
F_LAG = "fairlearn/reductions/_exponentiated_gradient/_lagrangian.py"
F_GS = "fairlearn/reductions/_grid_search/grid_search.py"
F_MOM = "fairlearn/reductions/_moments/moment.py"
F_CR = "fairlearn/preprocessing/_correlation_remover.py"
F_ADV = "fairlearn/adversarial/_adversarial_mitigation.py"
F_BE = "fairlearn/adversarial/_backend_engine.py"
F_PT = "fairlearn/adversarial/_pytorch_engine.py"
F_TF = "fairlearn/adversarial/_tensorflow_engine.py"

ALLOWED_BASES = {"BaseEstimator", "MetaEstimatorMixin", "TransformerMixin", "ClassifierMixin", "RegressorMixin"}
MUTATORS = {"append", "extend", "insert", "update", "setdefault", "pop", "popitem", "remove", "clear", "add",
            "discard", "sort", "reverse", "fill", "put", "itemset", "resize"}
HARMLESS_SELF_CALLS = {"type", "isinstance", "id"}
IGNORED_ATTRS = {"__class__", "__name__", "__module__", "__doc__"}


class Shape(ValueError):
    pass


def _u(n):
    return ast.unparse(n)


def _line(n):
    return getattr(n, "lineno", "?")


# ---------------------------------------------------------------------------------------------
# source access
# ---------------------------------------------------------------------------------------------
def _module(repo, rel):
    p = Path(repo) / rel
    if not p.exists():
        raise Shape(f"{rel}: file not found")
    return ast.parse(p.read_text())


def _class(mod, name, rel):
    found = [n for n in mod.body if isinstance(n, ast.ClassDef) and n.name == name]
    if len(found) != 1:
        raise Shape(f"{rel}: expected exactly one top-level class {name}, found {len(found)}")
    return found[0]


def _methods(cls):
    out = {}
    for n in cls.body:
        if isinstance(n, ast.AsyncFunctionDef):
            raise Shape(f"class {cls.name}: async method {n.name}")
        if isinstance(n, ast.FunctionDef):
            if n.name in out:
                raise Shape(f"class {cls.name}: method {n.name} defined twice")
            out[n.name] = n
    return out


def _base_names(cls):
    out = []
    for b in cls.bases:
        if isinstance(b, ast.Name):
            out.append(b.id)
        elif isinstance(b, ast.Attribute):
            out.append(b.attr)
        else:
            raise Shape(f"class {cls.name}: base {_u(b)}")
    if cls.keywords:
        raise Shape(f"class {cls.name}: class keywords")
    return out


def _strip_doc(body):
    if body and isinstance(body[0], ast.Expr) and isinstance(body[0].value, ast.Constant) \
            and isinstance(body[0].value.value, str):
        return body[1:]
    return body


def _self_name(fn):
    a = fn.args
    pos = a.posonlyargs + a.args
    if not pos or pos[0].arg != "self":
        raise Shape(f"{fn.name}: first argument is not `self`")
    for d in fn.decorator_list:
        if not (isinstance(d, ast.Name) and d.id == "property"):
            raise Shape(f"{fn.name}: decorator {_u(d)}")
    return "self"


def _is_self(n):
    return isinstance(n, ast.Name) and n.id == "self"


def _self_attr(n):
    """`self.<a>` -> a, else None"""
    if isinstance(n, ast.Attribute) and _is_self(n.value):
        return n.attr
    return None


def _param_names(fn):
    a = fn.args
    return [x.arg for x in (a.posonlyargs + a.args)[1:]] + [x.arg for x in a.kwonlyargs]


def _init_attrs(cls, methods):
    """(constructor parameter names, every attribute __init__ assigns on self)"""
    if "__init__" not in methods:
        raise Shape(f"class {cls.name}: no __init__")
    fn = methods["__init__"]
    _self_name(fn)
    params = _param_names(fn)
    attrs = []
    for st in _strip_doc(fn.body):
        ok = False
        if isinstance(st, ast.Assign) and len(st.targets) == 1 and _self_attr(st.targets[0]) is not None:
            attrs.append(_self_attr(st.targets[0]))
            ok = True
        elif isinstance(st, (ast.If, ast.Raise, ast.Expr, ast.Pass)):
            # GridSearch.__init__ validates selection_rule; no attribute may be assigned below top level
            for sub in ast.walk(st):
                if isinstance(sub, (ast.Assign, ast.AugAssign, ast.AnnAssign, ast.Delete)):
                    raise Shape(f"{cls.name}.__init__: assignment below the top level at line {_line(sub)}")
            ok = True
        if not ok:
            raise Shape(f"{cls.name}.__init__: statement at line {_line(st)}: {_u(st)[:60]}")
    for p in params:
        if p not in attrs:
            raise Shape(f"{cls.name}.__init__: parameter {p} is not stored as self.{p}")
    return params, attrs


# ---------------------------------------------------------------------------------------------
# 1. returns_self
# ---------------------------------------------------------------------------------------------
def _own_nodes(fn):
    """nodes of fn's body, not descending into nested functions / lambdas / classes"""
    stack = list(fn.body)
    while stack:
        n = stack.pop()
        yield n
        for c in ast.iter_child_nodes(n):
            if isinstance(c, (ast.FunctionDef, ast.AsyncFunctionDef, ast.Lambda, ast.ClassDef)):
                continue
            stack.append(c)


def _falls_through(stmts):
    for st in stmts:
        if isinstance(st, (ast.Return, ast.Raise)):
            return False
        if isinstance(st, ast.If):
            if not _falls_through(st.body) and st.orelse and not _falls_through(st.orelse):
                return False
        elif isinstance(st, ast.With):
            if not _falls_through(st.body):
                return False
        elif isinstance(st, ast.Try):
            if st.finalbody and not _falls_through(st.finalbody):
                return False
            body_ft = _falls_through(st.body + st.orelse)
            if not body_ft and all(not _falls_through(h.body) for h in st.handlers):
                return False
    return True


def returns_self(fn):
    _self_name(fn)
    for n in _own_nodes(fn):
        if isinstance(n, (ast.Yield, ast.YieldFrom, ast.Await)):
            raise Shape(f"{fn.name}: generator / coroutine")
        if isinstance(n, ast.Name) and n.id == "self" and isinstance(n.ctx, (ast.Store, ast.Del)):
            raise Shape(f"{fn.name}: `self` rebound at line {_line(n)}")
        if isinstance(n, ast.arg) and n.arg == "self":
            raise Shape(f"{fn.name}: `self` rebound")
    rets = [n for n in _own_nodes(fn) if isinstance(n, ast.Return)]
    # a local bound exactly once, at the top level, by `<name> = self` stands for self
    alias = set()
    for st in fn.body:
        if isinstance(st, ast.Assign) and len(st.targets) == 1 and isinstance(st.targets[0], ast.Name) \
                and _is_self(st.value):
            v = st.targets[0].id
            if sum(1 for n in ast.walk(fn) if isinstance(n, ast.Name) and n.id == v
                   and isinstance(n.ctx, (ast.Store, ast.Del))) == 1 and v not in _local_args(fn):
                alias.add((v, st.lineno))

    def is_self(r):
        if r.value is None:
            return False
        if _is_self(r.value):
            return True
        return isinstance(r.value, ast.Name) and any(r.value.id == v and r.lineno > ln for v, ln in alias)
    if not all(is_self(r) for r in rets):
        return False
    return bool(rets) and not _falls_through(fn.body)


# ---------------------------------------------------------------------------------------------
# 3/6. abstract execution of fit: which attributes are written, read before written, mutated in place
# ---------------------------------------------------------------------------------------------
class Scan:
    """Definite-assignment analysis of `entry` and of the methods of the same class it refers to."""

    def __init__(self, cls, methods, params, init_attrs, class_attrs, assume=None):
        self.cls, self.methods, self.params = cls, methods, list(params)
        self.init_attrs = set(init_attrs)
        self.class_attrs = set(class_attrs)
        self.assume = dict(assume or {})          # self.<param> -> constant truth value
        self.param_writes = {}                    # name -> list of guard descriptions
        self.param_calls = set()
        self.history_reads = set()
        self.inplace = set()
        self.escapes = set()
        self.stack = []                           # methods being executed
        self.guards = []                          # enclosing if tests (source, polarity)

    # ---- helpers
    def _known(self, a, st):
        return a in st or a in self.init_attrs or a in self.class_attrs or a in IGNORED_ATTRS

    def _read(self, a, st):
        if a in self.methods:
            return
        if not self._known(a, st):
            self.history_reads.add(a)

    def _write(self, a, st, how=""):
        if a in self.methods:
            raise Shape(f"{self.cls.name}: method {a} rebound on the instance")
        if a in self.init_attrs:
            self.param_writes.setdefault(a + how, []).append(list(self.guards))
        if not how:
            st.add(a)

    def _root_attr(self, n):
        """attribute of self at the root of an attribute / subscript chain (self.X.at[i], self.X[i].y ...)"""
        while isinstance(n, (ast.Attribute, ast.Subscript)):
            if _self_attr(n) is not None:
                return _self_attr(n)
            n = n.value
        return None

    # ---- truth values (constant folding)
    def truth(self, e, env):
        if isinstance(e, ast.Constant) and isinstance(e.value, bool):
            return e.value
        if isinstance(e, ast.Name) and isinstance(e.ctx, ast.Load):
            return env.get(e.id)
        a = _self_attr(e)
        if a is not None and a in self.assume:
            return self.assume[a]
        if isinstance(e, ast.UnaryOp) and isinstance(e.op, ast.Not):
            v = self.truth(e.operand, env)
            return None if v is None else (not v)
        if isinstance(e, ast.BoolOp):
            vals = [self.truth(x, env) for x in e.values]
            if isinstance(e.op, ast.And):
                if any(v is False for v in vals):
                    return False
                return True if all(v is True for v in vals) else None
            if any(v is True for v in vals):
                return True
            return False if all(v is False for v in vals) else None
        return None

    # ---- expressions
    def ev(self, e, st, env, local):
        if e is None:
            return
        if isinstance(e, ast.Attribute):
            a = _self_attr(e)
            if a is not None:
                if not isinstance(e.ctx, ast.Load):
                    raise Shape(f"store context reached ev at line {_line(e)}")
                if a == "__dict__":
                    raise Shape(f"{self.cls.name}: self.__dict__ at line {_line(e)}")
                if a in self.methods:
                    self._enter(a, st, env_args=None, keep=self._is_property(a))
                else:
                    self._read(a, st)
                return
            self.ev(e.value, st, env, local)
            return
        if isinstance(e, ast.Call):
            self._call(e, st, env, local)
            return
        if isinstance(e, ast.Lambda):
            self._closure(e.body if isinstance(e.body, list) else [ast.Expr(e.body)], set(st), dict(env), local)
            return
        if isinstance(e, ast.NamedExpr):
            self.ev(e.value, st, env, local)
            env[e.target.id] = self.truth(e.value, env)
            return
        if isinstance(e, (ast.Yield, ast.YieldFrom, ast.Await)):
            raise Shape(f"generator / coroutine at line {_line(e)}")
        for c in ast.iter_child_nodes(e):
            if isinstance(c, ast.expr):
                self.ev(c, st, env, local)
            elif isinstance(c, ast.comprehension):
                self.ev(c.iter, st, env, local)
                self._store(c.target, st, env, local)
                for i in c.ifs:
                    self.ev(i, st, env, local)
            elif isinstance(c, ast.keyword):
                self.ev(c.value, st, env, local)

    def _is_property(self, m):
        return any(isinstance(d, ast.Name) and d.id == "property" for d in self.methods[m].decorator_list)

    def _call(self, e, st, env, local):
        f = e.func
        args = list(e.args) + [k.value for k in e.keywords]
        if isinstance(f, ast.Name) and f.id in ("super", "globals", "locals", "exec", "eval"):
            raise Shape(f"{self.cls.name}: {f.id}() at line {_line(e)}")
        # hasattr / getattr / setattr / delattr / vars on self
        if isinstance(f, ast.Name) and f.id in ("hasattr", "getattr", "setattr", "delattr", "vars") \
                and e.args and _is_self(e.args[0]):
            if f.id == "vars":
                raise Shape(f"vars(self) at line {_line(e)}")
            if len(e.args) < 2 or not (isinstance(e.args[1], ast.Constant) and isinstance(e.args[1].value, str)):
                raise Shape(f"{f.id}(self, <computed name>) at line {_line(e)}")
            a = e.args[1].value
            for x in e.args[2:]:
                self.ev(x, st, env, local)
            if f.id in ("hasattr", "getattr"):
                if a in self.methods:
                    return
                if a not in st:           # an existence test of a constructor attribute says nothing; of a
                    if a in self.init_attrs or a in self.class_attrs:   # fitted attribute it reads the history
                        return
                    self.history_reads.add(a)
            elif f.id == "setattr":
                self._write(a, st)
            else:
                self._read(a, st)
                self._write(a, st)
                st.discard(a)
            return
        # self.m(...): a method of the same class
        a = _self_attr(f)
        if a is not None and a in self.methods:
            for x in e.args:
                self.ev(x, st, env, local)
            for k in e.keywords:
                self.ev(k.value, st, env, local)
            self._enter(a, st, env_args=(e, env), keep=True)
            return
        # in-place mutation of an attribute: self.X.append(...), self.X.at[...]...update(...)
        if isinstance(f, ast.Attribute) and f.attr in MUTATORS:
            r = self._root_attr(f.value)
            if r is not None and r not in self.methods:
                if r in self.init_attrs:
                    self.param_writes.setdefault(r + "." + f.attr + "()", []).append(list(self.guards))
                else:
                    self.inplace.add(r)
            g = _root_name(f.value)
            if g is not None and g not in local and g != "self":
                self.inplace.add("<global> " + g)
        # method called directly on a constructor parameter
        if isinstance(f, ast.Attribute) and _self_attr(f.value) in self.params:
            self.param_calls.add(f"{_self_attr(f.value)}.{f.attr}")
        # the estimator itself handed to something else
        if any(_is_self(x) or (isinstance(x, ast.Starred) and _is_self(x.value)) for x in args):
            if isinstance(f, ast.Name) and f.id not in local:
                name = f.id
            elif isinstance(f, ast.Attribute) and (_self_attr(f) is not None):
                name = "self." + f.attr
            elif isinstance(f, ast.Attribute) and isinstance(f.value, ast.Name) and f.value.id not in local:
                name = _u(f)
            else:
                name = "<local>"
            if name not in HARMLESS_SELF_CALLS:
                self.escapes.add(name)
        self.ev(f, st, env, local) if not isinstance(f, ast.Name) else None
        for x in e.args:
            self.ev(x.value if isinstance(x, ast.Starred) else x, st, env, local)
        for k in e.keywords:
            self.ev(k.value, st, env, local)

    # ---- stores
    def _store(self, t, st, env, local):
        if isinstance(t, ast.Name):
            if t.id == "self":
                raise Shape(f"`self` rebound at line {_line(t)}")
            env.pop(t.id, None)
            return
        if isinstance(t, (ast.Tuple, ast.List)):
            for x in t.elts:
                self._store(x, st, env, local)
            return
        if isinstance(t, ast.Starred):
            self._store(t.value, st, env, local)
            return
        a = _self_attr(t)
        if a is not None:
            if a == "__dict__":
                raise Shape(f"self.__dict__ assigned at line {_line(t)}")
            self._write(a, st)
            return
        if isinstance(t, (ast.Attribute, ast.Subscript)):
            r = self._root_attr(t.value)
            # evaluate the container expression (a READ of the attribute) and the index
            self.ev(_as_load(t.value), st, env, local)
            if isinstance(t, ast.Subscript):
                self.ev(t.slice, st, env, local)
            if r is not None and r not in self.methods:
                if r in self.init_attrs:
                    how = "[]" if isinstance(t, ast.Subscript) else "." + t.attr
                    self.param_writes.setdefault(r + how, []).append(list(self.guards))
                else:
                    self.inplace.add(r)
            elif any(_is_self(x) for x in ast.walk(t.value)):
                raise Shape(f"{self.cls.name}: store through `{_u(t.value)[:40]}` at line {_line(t)}")
            else:
                g = _root_name(t.value)
                if g is not None and g not in local:
                    self.inplace.add("<global> " + g)
            return
        raise Shape(f"assignment target {_u(t)} at line {_line(t)}")

    # ---- methods and closures
    def _enter(self, name, st, env_args, keep):
        """execute method `name` from state st; keep=True: the call happens here (its definite assignments
        survive), keep=False: only a reference (it may or may not be called later)"""
        if name in self.stack:
            raise Shape(f"{self.cls.name}.{name}: recursion")
        fn = self.methods[name]
        _self_name(fn)
        env = {}
        if env_args is not None:
            call, cenv = env_args
            a = fn.args
            pos = [x.arg for x in (a.posonlyargs + a.args)[1:]]
            for i, x in enumerate(call.args):
                if isinstance(x, ast.Starred):
                    break
                if i < len(pos):
                    env[pos[i]] = self.truth(x, cenv)
            for k in call.keywords:
                if k.arg is not None:
                    env[k.arg] = self.truth(k.value, cenv)
        env = {k: v for k, v in env.items() if v is not None}
        local = _local_names(fn)
        self.stack.append(name)
        saved_guards, self.guards = self.guards, (self.guards if keep else self.guards + [("<referenced>", True)])
        exits = []
        end = self.block(_strip_doc(fn.body), set(st), env, local, exits)
        self.guards = saved_guards
        self.stack.pop()
        if end is not None:
            exits.append(end)
        if keep:
            if not exits:
                raise Shape(f"{self.cls.name}.{name}: never returns normally")
            out = set.intersection(*exits)
            st.clear()
            st.update(out)

    def _closure(self, body, st, env, local):
        exits = []
        saved = self.guards
        self.guards = self.guards + [("<closure>", True)]
        self.block(body, st, env, local, exits)
        self.guards = saved

    # ---- statements
    def block(self, stmts, st, env, local, exits):
        """-> state after the block, or None when control never reaches its end"""
        for s in stmts:
            st = self.stmt(s, st, env, local, exits)
            if st is None:
                return None
        return st

    def _merge_env(self, env, envs):
        keys = set.intersection(*[set(e) for e in envs]) if envs else set()
        new = {k: envs[0][k] for k in keys if all(e[k] == envs[0][k] for e in envs)}
        env.clear()
        env.update(new)

    def stmt(self, s, st, env, local, exits):
        if isinstance(s, ast.Expr):
            self.ev(s.value, st, env, local)
            return st
        if isinstance(s, ast.Assign):
            self.ev(s.value, st, env, local)
            v = self.truth(s.value, env)
            for t in s.targets:
                self._store(t, st, env, local)
                if isinstance(t, ast.Name) and v is not None:
                    env[t.id] = v
            return st
        if isinstance(s, ast.AnnAssign):
            if s.value is not None:
                self.ev(s.value, st, env, local)
                self._store(s.target, st, env, local)
            return st
        if isinstance(s, ast.AugAssign):
            self.ev(_as_load(s.target), st, env, local)
            self.ev(s.value, st, env, local)
            self._store(s.target, st, env, local)
            return st
        if isinstance(s, ast.Delete):
            for t in s.targets:
                a = _self_attr(t)
                if a is not None:
                    self._read(a, st)
                    if a in self.init_attrs:
                        self.param_writes.setdefault(a, []).append(list(self.guards))
                    st.discard(a)
                elif isinstance(t, ast.Name):
                    env.pop(t.id, None)
                else:
                    self._store(t, st, env, local)
            return st
        if isinstance(s, ast.Return):
            self.ev(s.value, st, env, local)
            exits.append(set(st))
            return None
        if isinstance(s, ast.Raise):
            self.ev(s.exc, st, env, local)
            self.ev(s.cause, st, env, local)
            return None
        if isinstance(s, ast.Assert):
            self.ev(s.test, st, env, local)
            self.ev(s.msg, st, env, local)
            return st
        if isinstance(s, ast.If):
            self.ev(s.test, st, env, local)
            v = self.truth(s.test, env)
            outs, envs = [], []
            for taken, body, pol in ((v is not False, s.body, True), (v is not True, s.orelse, False)):
                if not taken:
                    continue
                e2 = dict(env)
                self.guards.append((_u(s.test), pol))
                o = self.block(body, set(st), e2, local, exits)
                self.guards.pop()
                if o is not None:
                    outs.append(o)
                    envs.append(e2)
            if not outs:
                return None
            self._merge_env(env, envs)
            return set.intersection(*outs)
        if isinstance(s, (ast.For, ast.While)):
            if isinstance(s, ast.For):
                self.ev(s.iter, st, env, local)
            for n in _stored_names(s):
                env.pop(n, None)
            if isinstance(s, ast.For):
                self._store(s.target, st, env, local)
            else:
                self.ev(s.test, st, env, local)
            self.guards.append(("<loop>", True))
            e2 = dict(env)
            self.block(s.body, set(st), e2, local, exits)
            self.guards.pop()
            if s.orelse:
                self.block(s.orelse, set(st), dict(env), local, exits)
            return st          # the body may run zero times
        if isinstance(s, ast.With):
            for it in s.items:
                self.ev(it.context_expr, st, env, local)
                if it.optional_vars is not None:
                    self._store(it.optional_vars, st, env, local)
            return self.block(s.body, st, env, local, exits)
        if isinstance(s, ast.Try):
            for n in _stored_names(s):
                env.pop(n, None)
            entry = set(st)
            outs = []
            e_body = dict(env)
            o = self.block(s.body, set(st), e_body, local, exits)
            if o is not None:
                o = self.block(s.orelse, o, e_body, local, exits)
            if o is not None:
                outs.append(o)
            for h in s.handlers:
                self.ev(h.type, st, env, local)
                o = self.block(h.body, set(entry), dict(env), local, exits)
                if o is not None:
                    outs.append(o)
            for n in _stored_names(s):
                env.pop(n, None)
            if not outs:
                if s.finalbody:
                    self.block(s.finalbody, set(entry), dict(env), local, exits)
                return None
            out = set.intersection(*outs)
            if s.finalbody:
                return self.block(s.finalbody, out, env, local, exits)
            return out
        if isinstance(s, ast.FunctionDef):
            env.pop(s.name, None)
            self._closure(s.body, set(st), dict(env), local | _local_names(s))
            return st
        if isinstance(s, (ast.Pass, ast.Break, ast.Continue, ast.Import, ast.ImportFrom)):
            return st
        raise Shape(f"{self.cls.name}: statement {type(s).__name__} at line {_line(s)}")


def _root_name(n):
    """the plain name at the root of an attribute / subscript chain, else None"""
    while isinstance(n, (ast.Attribute, ast.Subscript)):
        n = n.value
    return n.id if isinstance(n, ast.Name) else None


def _local_args(fn):
    a = fn.args
    out = {x.arg for x in a.posonlyargs + a.args + a.kwonlyargs}
    if a.vararg:
        out.add(a.vararg.arg)
    if a.kwarg:
        out.add(a.kwarg.arg)
    return out


def _as_load(n):
    """the same expression in Load context (for the READ half of an augmented / item assignment)"""
    m = ast.parse(_u(n), mode="eval").body
    ast.copy_location(m, n)
    for x in ast.walk(m):
        if not hasattr(x, "lineno"):
            x.lineno = getattr(n, "lineno", 0)
    return m


def _stored_names(node):
    return {n.id for n in ast.walk(node) if isinstance(n, ast.Name) and isinstance(n.ctx, (ast.Store, ast.Del))}


def _local_names(fn):
    out = {x.arg for x in fn.args.posonlyargs + fn.args.args + fn.args.kwonlyargs}
    if fn.args.vararg:
        out.add(fn.args.vararg.arg)
    if fn.args.kwarg:
        out.add(fn.args.kwarg.arg)
    for n in ast.walk(fn):
        if isinstance(n, ast.Name) and isinstance(n.ctx, (ast.Store, ast.Del)):
            out.add(n.id)
        elif isinstance(n, ast.FunctionDef) and n is not fn:
            out.add(n.name)
        elif isinstance(n, (ast.Import, ast.ImportFrom)):
            for al in n.names:
                out.add((al.asname or al.name).split(".")[0])
    return out


def _class_attrs(cls):
    out = set()
    for n in cls.body:
        if isinstance(n, ast.Assign):
            for t in n.targets:
                if isinstance(t, ast.Name):
                    out.add(t.id)
        elif isinstance(n, ast.AnnAssign) and isinstance(n.target, ast.Name):
            out.add(n.target.id)
    return out


def scan_fit(cls, methods, params, init_attrs, assume=None):
    if "fit" not in methods:
        raise Shape(f"class {cls.name}: no fit")
    sc = Scan(cls, methods, params, init_attrs, _class_attrs(cls), assume)
    sc._enter("fit", set(), None, keep=True)
    return sc


# ---------------------------------------------------------------------------------------------
# truth tables
# ---------------------------------------------------------------------------------------------
def _table(e, atoms, what):
    """e: boolean expression over atoms (list of predicates on ast nodes) -> [value for every assignment,
    first atom = most significant bit]"""
    def val(n, asg):
        for i, p in enumerate(atoms):
            if p(n):
                return asg[i]
        if isinstance(n, ast.Constant) and isinstance(n.value, bool):
            return n.value
        if isinstance(n, ast.UnaryOp) and isinstance(n.op, ast.Not):
            return not val(n.operand, asg)
        if isinstance(n, ast.BoolOp):
            vs = [val(x, asg) for x in n.values]
            return all(vs) if isinstance(n.op, ast.And) else any(vs)
        if isinstance(n, ast.Compare) and len(n.ops) == 1 and isinstance(n.comparators[0], ast.Constant) \
                and isinstance(n.comparators[0].value, bool) and isinstance(n.ops[0], (ast.Is, ast.Eq, ast.IsNot, ast.NotEq)):
            eq = val(n.left, asg) == n.comparators[0].value
            return eq if isinstance(n.ops[0], (ast.Is, ast.Eq)) else not eq
        raise Shape(f"{what}: cannot read `{_u(n)}` (line {_line(n)}) as a condition over the expected atoms")
    k = len(atoms)
    return [bool(val(e, [bool((j >> (k - 1 - i)) & 1) for i in range(k)])) for j in range(2 ** k)]


def _is_hasattr_self(n, attr):
    return (isinstance(n, ast.Call) and isinstance(n.func, ast.Name) and n.func.id == "hasattr" and len(n.args) == 2
            and not n.keywords and _is_self(n.args[0]) and isinstance(n.args[1], ast.Constant)
            and n.args[1].value == attr)


def _subst(e, name, repl):
    """copy of e with Name `name` replaced by expression repl"""
    class T(ast.NodeTransformer):
        def visit_Name(self, n):
            if n.id == name and isinstance(n.ctx, ast.Load):
                return ast.parse(_u(repl), mode="eval").body
            return n
    return ast.fix_missing_locations(T().visit(ast.parse(_u(e), mode="eval").body))


# ---------------------------------------------------------------------------------------------
# 2. Moment.load_data
# ---------------------------------------------------------------------------------------------
def _mentions_attr(n, attr):
    return any(isinstance(x, ast.Attribute) and x.attr == attr and isinstance(x.ctx, ast.Load) for x in ast.walk(n)) \
        or any(isinstance(x, ast.Call) and isinstance(x.func, ast.Name) and x.func.id in ("getattr", "hasattr")
               and len(x.args) >= 2 and isinstance(x.args[1], ast.Constant) and x.args[1].value == attr
               for x in ast.walk(n))


def moment_src(repo):
    mod = _module(repo, F_MOM)
    cls = _class(mod, "Moment", F_MOM)
    ms = _methods(cls)
    if "load_data" not in ms or "__init__" not in ms:
        raise Shape("Moment: load_data / __init__ missing")
    init = ms["__init__"]
    init_false = any(isinstance(s, ast.Assign) and len(s.targets) == 1 and _self_attr(s.targets[0]) == "data_loaded"
                     and isinstance(s.value, ast.Constant) and s.value.value is False for s in _strip_doc(init.body))
    if not init_false:
        raise Shape("Moment.__init__ does not set self.data_loaded = False at its top level")
    fn = ms["load_data"]
    _self_name(fn)
    latch = False
    for n in _own_nodes(fn):
        if isinstance(n, ast.Assert) and _mentions_attr(n.test, "data_loaded"):
            latch = True
        elif isinstance(n, (ast.If, ast.While, ast.IfExp)) and _mentions_attr(n.test, "data_loaded"):
            if isinstance(n, ast.If) and any(isinstance(x, (ast.Raise, ast.Return)) for b in (n.body, n.orelse)
                                             for s in b for x in ast.walk(s)):
                latch = True
            else:
                raise Shape(f"Moment.load_data: data_loaded tested at line {_line(n)} in an unknown way")
    # any remaining read of data_loaded in load_data that is not inside a recognised test
    reads = [n for n in _own_nodes(fn) if isinstance(n, ast.Attribute) and n.attr == "data_loaded"
             and isinstance(n.ctx, ast.Load)]
    if reads and not latch:
        raise Shape(f"Moment.load_data reads data_loaded at line {_line(reads[0])} in an unknown way")
    sets = 0
    for s in _strip_doc(fn.body):
        if isinstance(s, ast.Assign) and any(_self_attr(t) == "data_loaded" for t in s.targets):
            if not (isinstance(s.value, ast.Constant) and s.value.value is True and len(s.targets) == 1):
                raise Shape(f"Moment.load_data: data_loaded assigned `{_u(s.value)}`")
            sets += 1
    nested = [n for n in _own_nodes(fn) if isinstance(n, ast.Attribute) and n.attr == "data_loaded"
              and isinstance(n.ctx, (ast.Store, ast.Del))]
    sets_loaded = sets == 1 and len(nested) == 1
    if len(nested) > 1 or (nested and sets == 0):
        sets_loaded = False
    # other readers of the flag anywhere in fairlearn/reductions (load_data overrides, estimators ...)
    others = []
    root = Path(repo) / "fairlearn" / "reductions"
    for p in sorted(root.rglob("*.py")):
        try:
            m = ast.parse(p.read_text())
        except SyntaxError as e:
            raise Shape(f"{p}: {e}")
        for n in ast.walk(m):
            hit = (isinstance(n, ast.Attribute) and n.attr == "data_loaded" and isinstance(n.ctx, ast.Load)) or \
                  (isinstance(n, ast.Constant) and n.value == "data_loaded")
            if hit and not (p.name == "moment.py" and any(n is x for x in ast.walk(fn))):
                others.append(f"{p.relative_to(root).as_posix()}:{_line(n)}")
    others = sorted(set(others))
    return latch, sets_loaded, [o.rsplit(":", 1)[0] for o in others]


# ---------------------------------------------------------------------------------------------
# 7a. who loads the moments
# ---------------------------------------------------------------------------------------------
def _find_load_calls(fn, is_holder):
    """(statement index at top level or None when nested, call) for every <holder>.load_data(...) call"""
    body = _strip_doc(fn.body)
    out = []
    for n in _own_nodes(fn):
        if isinstance(n, ast.Call) and isinstance(n.func, ast.Attribute) and n.func.attr == "load_data" \
                and is_holder(n.func.value):
            idx = None
            for i, s in enumerate(body):
                if isinstance(s, ast.Expr) and s.value is n:
                    idx = i
            out.append((idx, n))
    return out


def _load_args_ok(call, xname, yname, kw):
    if len(call.args) != 2 or not all(isinstance(a, ast.Name) for a in call.args):
        return False
    if (call.args[0].id, call.args[1].id) != (xname, yname):
        return False
    return len(call.keywords) == 1 and call.keywords[0].arg is None and isinstance(call.keywords[0].value, ast.Name) \
        and call.keywords[0].value.id == kw


def _loads(fn, what, is_holder, xname, yname, kw):
    calls = _find_load_calls(fn, is_holder)
    if not calls:
        raise Shape(f"{what}: no load_data call found")
    if len(calls) > 1:
        raise Shape(f"{what}: {len(calls)} load_data calls")
    idx, call = calls[0]
    if not _load_args_ok(call, xname, yname, kw):
        raise Shape(f"{what}: load_data called with `{_u(call)}`, expected ({xname}, {yname}, **{kw})")
    return idx


def loads_src(repo):
    # ---- _Lagrangian.__init__
    mod = _module(repo, F_LAG)
    cls = _class(mod, "_Lagrangian", F_LAG)
    ms = _methods(cls)
    fn = ms.get("__init__")
    if fn is None:
        raise Shape("_Lagrangian: no __init__")
    _self_name(fn)
    names = _param_names(fn)
    for need in ("X", "y", "constraints", "objective"):
        if need not in names:
            raise Shape(f"_Lagrangian.__init__: no parameter {need}")
    if fn.args.kwarg is None:
        raise Shape("_Lagrangian.__init__: no **kwargs")
    kw = fn.args.kwarg.arg
    body = _strip_doc(fn.body)
    # the attribute that holds the constraints (assigned from the parameter at top level)
    chold = [_self_attr(s.targets[0]) for s in body if isinstance(s, ast.Assign) and len(s.targets) == 1
             and _self_attr(s.targets[0]) and isinstance(s.value, ast.Name) and s.value.id == "constraints"]
    if len(chold) != 1:
        raise Shape("_Lagrangian.__init__: constraints not stored exactly once at top level")
    ch = chold[0]
    c_idx = _loads(fn, "_Lagrangian.__init__ (constraints)",
                   lambda v: _self_attr(v) == ch or (isinstance(v, ast.Name) and v.id == "constraints"), "X", "y", kw)
    # the attribute that holds the objective: assigned in every branch of one if-chain from
    # <constraints>.default_objective() / the parameter `objective`
    ohold = set()
    for s in body:
        if isinstance(s, ast.If):
            for n in ast.walk(s):
                if isinstance(n, ast.Assign) and len(n.targets) == 1 and _self_attr(n.targets[0]):
                    v = n.value
                    if (isinstance(v, ast.Name) and v.id == "objective") or \
                            (isinstance(v, ast.Call) and isinstance(v.func, ast.Attribute)
                             and v.func.attr == "default_objective"):
                        ohold.add(_self_attr(n.targets[0]))
    if len(ohold) != 1:
        raise Shape(f"_Lagrangian.__init__: objective holder not recognised ({sorted(ohold)})")
    oh = ohold.pop()
    o_idx = _loads(fn, "_Lagrangian.__init__ (objective)", lambda v: _self_attr(v) == oh, "X", "y", kw)
    lag_c = c_idx is not None
    lag_o = o_idx is not None
    # the objective holder is definitely (re)assigned before it is loaded
    if lag_o:
        sc = Scan(cls, {k: v for k, v in ms.items()}, names, [], set())
        st = set()
        end = sc.block(body[:o_idx], st, {}, _local_names(fn), [])
        if end is None or oh not in end:
            lag_o = False
    # ---- ExponentiatedGradient.fit builds the _Lagrangian from the parameters of this estimator
    mod = _module(repo, F_EG)
    cls = _class(mod, "ExponentiatedGradient", F_EG)
    fit = _methods(cls).get("fit")
    if fit is None:
        raise Shape("ExponentiatedGradient: no fit")
    fnames = _param_names(fit)
    if fnames[:2] != ["X", "y"] or fit.args.kwarg is None:
        raise Shape("ExponentiatedGradient.fit: signature is not (self, X, y, **kwargs)")
    ctor = [(i, s) for i, s in enumerate(_strip_doc(fit.body)) if isinstance(s, ast.Assign)
            and isinstance(s.value, ast.Call) and isinstance(s.value.func, ast.Name) and s.value.func.id == "_Lagrangian"]
    allc = [n for n in ast.walk(fit) if isinstance(n, ast.Call) and isinstance(n.func, ast.Name)
            and n.func.id == "_Lagrangian"]
    if len(allc) != 1:
        raise Shape(f"ExponentiatedGradient.fit: {len(allc)} _Lagrangian constructions")
    eg_ok = False
    if len(ctor) == 1:
        call = ctor[0][1].value
        kws = {k.arg: k.value for k in call.keywords}
        eg_ok = (not call.args and isinstance(kws.get("X"), ast.Name) and kws["X"].id == "X"
                 and isinstance(kws.get("y"), ast.Name) and kws["y"].id == "y"
                 and _self_attr(kws.get("constraints")) == "constraints"
                 and _self_attr(kws.get("objective")) == "objective"
                 and isinstance(kws.get(None), ast.Name) and kws[None].id == fit.args.kwarg.arg)
    # ---- GridSearch.fit
    mod = _module(repo, F_GS)
    cls = _class(mod, "GridSearch", F_GS)
    fit = _methods(cls).get("fit")
    if fit is None:
        raise Shape("GridSearch: no fit")
    fnames = _param_names(fit)
    if fnames[:2] != ["X", "y"] or fit.args.kwarg is None:
        raise Shape("GridSearch.fit: signature is not (self, X, y, **kwargs)")
    gkw = fit.args.kwarg.arg
    body = _strip_doc(fit.body)
    gs_c = _loads(fit, "GridSearch.fit (constraints)", lambda v: _self_attr(v) == "constraints", "X", "y", gkw)
    # the objective: a local assigned at top level from self.constraints.default_objective()
    olocal = [(i, s.targets[0].id) for i, s in enumerate(body) if isinstance(s, ast.Assign) and len(s.targets) == 1
              and isinstance(s.targets[0], ast.Name) and isinstance(s.value, ast.Call)
              and isinstance(s.value.func, ast.Attribute) and s.value.func.attr == "default_objective"
              and _self_attr(s.value.func.value) == "constraints" and not s.value.args and not s.value.keywords]
    gs_fresh = len(olocal) == 1
    if not gs_fresh:
        # an objective kept on the estimator / built conditionally
        cand = [n for n in ast.walk(fit) if isinstance(n, ast.Call) and isinstance(n.func, ast.Attribute)
                and n.func.attr == "default_objective"]
        if not cand:
            raise Shape("GridSearch.fit: no default_objective() call")
        gs_o = None
        try:
            gs_o = _loads(fit, "GridSearch.fit (objective)",
                          lambda v: not (_self_attr(v) == "constraints"), "X", "y", gkw)
        except Shape:
            raise
    else:
        oi, oname = olocal[0]
        if sum(1 for n in ast.walk(fit) if isinstance(n, ast.Name) and n.id == oname
               and isinstance(n.ctx, ast.Store)) != 1:
            raise Shape(f"GridSearch.fit: local {oname} assigned more than once")
        gs_o = _loads(fit, "GridSearch.fit (objective)", lambda v: isinstance(v, ast.Name) and v.id == oname,
                      "X", "y", gkw)
        if gs_o is not None and not (gs_c is not None and gs_c < oi < gs_o):
            # default_objective() before the constraints are loaded, or loaded before it exists
            gs_fresh = False
    return lag_c, lag_o, eg_ok, gs_c is not None, gs_o is not None, gs_fresh


# ---------------------------------------------------------------------------------------------
# 4/5/7b. adversarial
# ---------------------------------------------------------------------------------------------
def _single_assign(fn, name, before_line, what):
    """the one top-level `name = <expr>` of fn (no other binding of name anywhere in fn)"""
    tops = [s for s in _strip_doc(fn.body) if isinstance(s, ast.Assign) and len(s.targets) == 1
            and isinstance(s.targets[0], ast.Name) and s.targets[0].id == name]
    stores = [n for n in ast.walk(fn) if isinstance(n, ast.Name) and n.id == name
              and isinstance(n.ctx, (ast.Store, ast.Del))]
    if len(tops) != 1 or len(stores) != 1 or name in {a.arg for a in fn.args.args + fn.args.kwonlyargs}:
        raise Shape(f"{what}: local `{name}` is not bound exactly once at the top level")
    if tops[0].lineno >= before_line:
        raise Shape(f"{what}: `{name}` bound after its use")
    return tops[0].value


def adversarial_src(repo):
    mod = _module(repo, F_ADV)
    cls = _class(mod, "_AdversarialFairness", F_ADV)
    ms = _methods(cls)
    for need in ("fit", "_validate_input", "__setup", "__sklearn_is_fitted__", "__init__"):
        if need not in ms:
            raise Shape(f"_AdversarialFairness: no method {need}")
    fit = ms["fit"]
    fitted = lambda n: _is_hasattr_self(n, "classes_")          # noqa: E731
    warm = lambda n: _self_attr(n) == "warm_start"              # noqa: E731
    # ---- the flag handed to _validate_input
    calls = [n for n in ast.walk(fit) if isinstance(n, ast.Call) and _self_attr(n.func) == "_validate_input"]
    tops = [s for s in _strip_doc(fit.body) if isinstance(s, ast.Assign) and s.value in calls]
    if len(calls) != 1 or len(tops) != 1:
        raise Shape("_AdversarialFairness.fit: expected one top-level `... = self._validate_input(...)`")
    call = calls[0]
    vi = ms["_validate_input"]
    vparams = [a.arg for a in vi.args.args[1:]]
    if len(vparams) != 4 or vi.args.kwonlyargs or vi.args.vararg or vi.args.kwarg:
        raise Shape("_validate_input: signature is not (self, X, y, A, <reinitialize flag>)")
    rname = vparams[3]
    d = vi.args.defaults
    if not (len(d) == 1 and isinstance(d[0], ast.Constant) and d[0].value is False):
        raise Shape("_validate_input: the re-initialisation flag does not default to False")
    if any(isinstance(a, ast.Starred) for a in call.args) or any(k.arg is None for k in call.keywords):
        raise Shape("fit: star arguments in the _validate_input call")
    flag = call.args[3] if len(call.args) >= 4 else next((k.value for k in call.keywords if k.arg == rname), None)
    if flag is None:
        flag = ast.Constant(False)
    fname = None
    if isinstance(flag, ast.Name):
        fname = flag.id
        flag = _single_assign(fit, fname, call.lineno, "_AdversarialFairness.fit")
    first_tab = _table(flag, [fitted, warm], "fit: re-initialisation flag")
    # ---- del self.classes_
    dels = [n for n in ast.walk(fit) if isinstance(n, ast.Delete)]
    del_tab = [False, False, False, False]
    if dels:
        ifs = [s for s in _strip_doc(fit.body) if isinstance(s, ast.If) and not s.orelse and len(s.body) == 1
               and s.body[0] in dels and len(s.body[0].targets) == 1 and _self_attr(s.body[0].targets[0]) == "classes_"]
        if len(dels) != 1 or len(ifs) != 1 or ifs[0].lineno >= call.lineno:
            raise Shape("_AdversarialFairness.fit: `del` statement in an unknown position")
        test = ifs[0].test
        if fname is not None:
            if ifs[0].lineno <= [s for s in fit.body if isinstance(s, ast.Assign) and isinstance(s.targets[0], ast.Name)
                                 and s.targets[0].id == fname][0].lineno:
                raise Shape("fit: `del self.classes_` before the flag is computed")
            test = _subst(test, fname, flag)
        del_tab = _table(test, [fitted, warm], "fit: guard of del self.classes_")
    # ---- _validate_input: __setup guard, classes_
    body = _strip_doc(vi.body)
    setup_ifs = [s for s in body if isinstance(s, ast.If) and any(
        isinstance(n, ast.Call) and _self_attr(n.func) == "__setup" for n in ast.walk(s))]
    all_setup = [n for n in ast.walk(vi) if isinstance(n, ast.Call) and _self_attr(n.func) == "__setup"]
    if len(all_setup) != 1:
        raise Shape(f"_validate_input: {len(all_setup)} calls of __setup")
    trys = [s for s in body if isinstance(s, ast.Try)]
    fvar = None
    for t in trys:
        # try: check_is_fitted(self); v = True / except NotFittedError: v = False
        if (len(t.body) == 2 and isinstance(t.body[0], ast.Expr) and isinstance(t.body[0].value, ast.Call)
                and isinstance(t.body[0].value.func, ast.Name) and t.body[0].value.func.id == "check_is_fitted"
                and len(t.body[0].value.args) == 1 and _is_self(t.body[0].value.args[0]) and not t.body[0].value.keywords
                and isinstance(t.body[1], ast.Assign) and isinstance(t.body[1].targets[0], ast.Name)
                and isinstance(t.body[1].value, ast.Constant) and t.body[1].value.value is True
                and len(t.handlers) == 1 and isinstance(t.handlers[0].type, ast.Name)
                and t.handlers[0].type.id == "NotFittedError" and len(t.handlers[0].body) == 1
                and isinstance(t.handlers[0].body[0], ast.Assign)
                and isinstance(t.handlers[0].body[0].targets[0], ast.Name)
                and t.handlers[0].body[0].targets[0].id == t.body[1].targets[0].id
                and isinstance(t.handlers[0].body[0].value, ast.Constant)
                and t.handlers[0].body[0].value.value is False and not t.orelse and not t.finalbody):
            fvar = t.body[1].targets[0].id
            fline = t.lineno
    if fvar is None:
        raise Shape("_validate_input: `try: check_is_fitted(self) ...` block not recognised")
    if sum(1 for n in ast.walk(vi) if isinstance(n, ast.Name) and n.id in (fvar, rname)
           and isinstance(n.ctx, ast.Store)) != 2:
        raise Shape("_validate_input: the fitted / re-initialisation flags are rebound")
    if len(setup_ifs) == 1 and not setup_ifs[0].orelse and len(setup_ifs[0].body) == 1 \
            and isinstance(setup_ifs[0].body[0], ast.Expr) and setup_ifs[0].body[0].value is all_setup[0] \
            and setup_ifs[0].lineno > fline:
        setup_tab = _table(setup_ifs[0].test, [lambda n: isinstance(n, ast.Name) and n.id == fvar,
                                               lambda n: isinstance(n, ast.Name) and n.id == rname],
                           "_validate_input: guard of __setup")
        setup_line = setup_ifs[0].lineno
    elif any(isinstance(s, ast.Expr) and s.value is all_setup[0] for s in body):
        setup_tab = [True, True, True, True]
        setup_line = all_setup[0].lineno
    else:
        raise Shape("_validate_input: __setup called in an unknown position")
    sc = all_setup[0]
    if [(_u(a)) for a in sc.args] != vparams[:3] or sc.keywords:
        raise Shape("_validate_input: __setup not called with the validated (X, y, A)")
    cls_ifs = [s for s in body if isinstance(s, ast.If) and not s.orelse and len(s.body) == 1
               and isinstance(s.body[0], ast.Assign) and len(s.body[0].targets) == 1
               and _self_attr(s.body[0].targets[0]) == "classes_"]
    cls_stores = [n for n in ast.walk(vi) if isinstance(n, ast.Attribute) and n.attr == "classes_"
                  and isinstance(n.ctx, (ast.Store, ast.Del))]
    classes_when_missing = False
    if len(cls_ifs) == 1 and len(cls_stores) == 1:
        t = _table(cls_ifs[0].test, [fitted], "_validate_input: guard of classes_")
        v = cls_ifs[0].body[0].value
        classes_when_missing = (t == [True, False] and isinstance(v, ast.Call) and isinstance(v.func, ast.Name)
                                and v.func.id == "unique" and [_u(a) for a in v.args] == [vparams[1]]
                                and cls_ifs[0].lineno > setup_line)
    elif cls_stores:
        classes_when_missing = False
    else:
        raise Shape("_validate_input: classes_ is never assigned")
    # ---- __setup: what it assigns unconditionally
    setup = ms["__setup"]
    s2 = Scan(cls, ms, *_init_attrs(cls, ms), _class_attrs(cls))
    s2._enter("__setup", st := set(), None, keep=True)
    setup_sets = sorted(st)
    # the engine and the random state are built from the parameters of this estimator
    eng = [s for s in _strip_doc(setup.body) if isinstance(s, ast.Assign) and len(s.targets) == 1
           and _self_attr(s.targets[0]) == "backendEngine_"]
    eng_ok = (len(eng) == 1 and isinstance(eng[0].value, ast.Call) and _self_attr(eng[0].value.func) == "backend_"
              and len(eng[0].value.args) == 4 and _is_self(eng[0].value.args[0]) and not eng[0].value.keywords)
    rs = [s for s in _strip_doc(setup.body) if isinstance(s, ast.Assign) and len(s.targets) == 1
          and _self_attr(s.targets[0]) == "random_state_"]
    rs_ok = (len(rs) == 1 and isinstance(rs[0].value, ast.Call) and isinstance(rs[0].value.func, ast.Name)
             and rs[0].value.func.id == "check_random_state" and len(rs[0].value.args) == 1
             and _self_attr(rs[0].value.args[0]) == "random_state" and not rs[0].value.keywords)
    if not eng_ok:
        setup_sets = [x for x in setup_sets if x != "backendEngine_"]
    if not rs_ok:
        setup_sets = [x for x in setup_sets if x != "random_state_"]
    # ---- __sklearn_is_fitted__
    isf = _strip_doc(ms["__sklearn_is_fitted__"].body)
    if not (len(isf) == 1 and isinstance(isf[0], ast.Return) and isinstance(isf[0].value, ast.Call)
            and isinstance(isf[0].value.func, ast.Name) and isf[0].value.func.id == "hasattr"
            and len(isf[0].value.args) == 2 and _is_self(isf[0].value.args[0])
            and isinstance(isf[0].value.args[1], ast.Constant) and isinstance(isf[0].value.args[1].value, str)):
        raise Shape("__sklearn_is_fitted__ is not `return hasattr(self, <name>)`")
    marker = isf[0].value.args[1].value
    # ---- the public classes share this fit
    for name in ("AdversarialFairnessClassifier", "AdversarialFairnessRegressor"):
        c = _class(mod, name, F_ADV)
        bases = _base_names(c)
        if "_AdversarialFairness" not in bases or not set(bases) <= ALLOWED_BASES | {"_AdversarialFairness"}:
            raise Shape(f"{name}: bases {bases}")
        cm = _methods(c)
        extra = set(cm) - {"__init__", "_more_tags", "__sklearn_tags__"}
        if extra:
            raise Shape(f"{name} overrides {sorted(extra)}")
        ini = cm.get("__init__")
        if ini is None:
            raise Shape(f"{name}: no __init__")
        b = _strip_doc(ini.body)
        ok = (len(b) == 1 and isinstance(b[0], ast.Expr) and isinstance(b[0].value, ast.Call)
              and isinstance(b[0].value.func, ast.Attribute) and b[0].value.func.attr == "__init__"
              and isinstance(b[0].value.func.value, ast.Call) and isinstance(b[0].value.func.value.func, ast.Name)
              and b[0].value.func.value.func.id == "super" and not b[0].value.args)
        if ok:
            sup = b[0].value.func.value
            ok = (not sup.keywords and (not sup.args or (len(sup.args) == 2 and isinstance(sup.args[0], ast.Name)
                                                         and sup.args[0].id == name and _is_self(sup.args[1]))))
            kws = b[0].value.keywords
            ok = ok and all(k.arg is not None and (isinstance(k.value, ast.Constant) or
                                                   (isinstance(k.value, ast.Name) and k.value.id == k.arg))
                            for k in kws)
            handed = sorted(k.arg for k in kws if isinstance(k.value, ast.Name))
            ok = ok and handed == sorted(_param_names(ini)) and len({k.arg for k in kws}) == len(kws) \
                and {k.arg for k in kws} <= set(_param_names(ms["__init__"]))
        if not ok:
            raise Shape(f"{name}.__init__ does not hand its parameters unchanged to super().__init__")
        if not set(_param_names(ini)) <= set(_param_names(ms["__init__"])):
            raise Shape(f"{name}.__init__: parameter unknown to _AdversarialFairness")
    return first_tab, del_tab, setup_tab, classes_when_missing, setup_sets, marker


def engine_src(repo):
    mod = _module(repo, F_BE)
    cls = _class(mod, "BackendEngine", F_BE)
    ms = _methods(cls)
    for need in ("__init__", "__init_model__"):
        if need not in ms:
            raise Shape(f"BackendEngine: no {need}")
    # ---- __init__: reuse rule
    ini = ms["__init__"]
    ip = [a.arg for a in ini.args.args[1:]]
    if len(ip) != 4:
        raise Shape("BackendEngine.__init__: signature is not (self, base, X, Y, A)")
    base = ip[0]
    body = _strip_doc(ini.body)

    def is_base_attr(n, a):
        return isinstance(n, ast.Attribute) and n.attr == a and isinstance(n.value, ast.Name) and n.value.id == base

    def kind(v, which):
        if isinstance(v, ast.Attribute) and v.attr == f"{which}_model" and is_base_attr(v.value, "backendEngine_"):
            return "reuse"
        if isinstance(v, ast.Call) and _self_attr(v.func) == "__init_model__" and v.args \
                and is_base_attr(v.args[0], f"{which}_model"):
            return "init"
        raise Shape(f"BackendEngine.__init__: {which}_model = {_u(v)[:60]}")

    def branch_kind(stmts):
        got = {}
        for s in stmts:
            if not (isinstance(s, ast.Assign) and len(s.targets) == 1 and _self_attr(s.targets[0]) in
                    ("predictor_model", "adversary_model")):
                raise Shape(f"BackendEngine.__init__: statement at line {_line(s)} in the model branch")
            w = _self_attr(s.targets[0])[:-6]
            if w in got:
                raise Shape("BackendEngine.__init__: model assigned twice")
            got[w] = kind(s.value, w)
        if set(got) != {"predictor", "adversary"} or len(set(got.values())) != 1:
            raise Shape("BackendEngine.__init__: predictor / adversary handled differently")
        return got["predictor"]

    stores = [n for n in ast.walk(ini) if isinstance(n, ast.Attribute) and _is_self(n.value)
              and n.attr in ("predictor_model", "adversary_model") and isinstance(n.ctx, ast.Store)]
    ifs = [s for s in body if isinstance(s, ast.If) and any(x in stores for x in ast.walk(s))]
    warm = lambda n: is_base_attr(n, "warm_start")                                # noqa: E731
    has = lambda n: (isinstance(n, ast.Call) and isinstance(n.func, ast.Name) and n.func.id == "hasattr"   # noqa: E731
                     and len(n.args) == 2 and isinstance(n.args[0], ast.Name) and n.args[0].id == base
                     and isinstance(n.args[1], ast.Constant) and n.args[1].value == "backendEngine_")
    if len(ifs) == 1 and ifs[0].orelse:
        kb, ko = branch_kind(ifs[0].body), branch_kind(ifs[0].orelse)
        if {kb, ko} != {"reuse", "init"}:
            raise Shape("BackendEngine.__init__: both branches do the same")
        t = _table(ifs[0].test, [warm, has], "BackendEngine.__init__: reuse rule")
        reuse_tab = t if kb == "reuse" else [not x for x in t]
    elif not ifs:
        tops = [s for s in body if isinstance(s, ast.Assign) and any(x in stores for x in ast.walk(s))]
        k = branch_kind(tops)
        reuse_tab = [k == "reuse"] * 4
    else:
        raise Shape("BackendEngine.__init__: model set-up not recognised")
    # ---- __init_model__: a user module
    im = ms["__init_model__"]
    mp = [a.arg for a in im.args.args[1:]]
    if not mp:
        raise Shape("__init_model__: no parameters")
    mpar = mp[0]
    imb = _strip_doc(im.body)
    if not (len(imb) == 1 and isinstance(imb[0], ast.If)):
        raise Shape("__init_model__: body is not one if-chain")
    chain, cur = [], imb[0]
    while True:
        chain.append((cur.test, cur.body))
        if len(cur.orelse) == 1 and isinstance(cur.orelse[0], ast.If):
            cur = cur.orelse[0]
        else:
            chain.append((None, cur.orelse))
            break

    def is_module_test(t):
        if not (isinstance(t, ast.Call) and isinstance(t.func, ast.Name) and len(t.args) == 2 and not t.keywords):
            return False
        if not (_self_attr(t.args[1]) == "model_class"):
            return False
        a0 = t.args[0]
        if t.func.id == "isinstance":
            return isinstance(a0, ast.Name) and a0.id == mpar
        if t.func.id == "issubclass":
            return (isinstance(a0, ast.Call) and isinstance(a0.func, ast.Name) and a0.func.id == "type"
                    and len(a0.args) == 1 and isinstance(a0.args[0], ast.Name) and a0.args[0].id == mpar)
        return False

    hits = [b for t, b in chain if t is not None and is_module_test(t)]
    if len(hits) != 1:
        raise Shape("__init_model__: branch for a user module not found")
    hb = hits[0]
    if sum(1 for n in ast.walk(im) if isinstance(n, ast.Name) and n.id == mpar and isinstance(n.ctx, ast.Store)):
        raise Shape("__init_model__: the model parameter is rebound")
    if not (len(hb) == 1 and isinstance(hb[0], ast.Return) and hb[0].value is not None):
        raise Shape("__init_model__: user-module branch is not a single return")
    rv = hb[0].value
    if isinstance(rv, ast.Name) and rv.id == mpar:
        in_place = True
    elif isinstance(rv, ast.Call) and _u(rv.func) in ("copy.deepcopy", "deepcopy", "clone", "copy.copy") \
            and len(rv.args) == 1 and isinstance(rv.args[0], ast.Name) and rv.args[0].id == mpar:
        in_place = False
    else:
        raise Shape(f"__init_model__: user module returned as `{_u(rv)[:60]}`")
    # ---- no engine writes to the estimator; subclasses do not replace __init_model__
    writes = set()
    for rel, cname in ((F_BE, "BackendEngine"), (F_PT, "PytorchEngine"), (F_TF, "TensorflowEngine")):
        m2 = _module(repo, rel)
        c2 = _class(m2, cname, rel)
        if cname != "BackendEngine":
            if _base_names(c2) != ["BackendEngine"]:
                raise Shape(f"{cname}: bases {_base_names(c2)}")
            if "__init_model__" in _methods(c2):
                raise Shape(f"{cname} overrides __init_model__")
        for fn in _methods(c2).values():
            ps = {a.arg for a in fn.args.args}
            for n in ast.walk(fn):
                if isinstance(n, ast.Attribute) and isinstance(n.ctx, (ast.Store, ast.Del)):
                    v = n.value
                    if (isinstance(v, ast.Name) and v.id == "base" and "base" in ps) or _self_attr(v) == "base":
                        writes.add(n.attr)
                if isinstance(n, ast.Call) and isinstance(n.func, ast.Name) and n.func.id in ("setattr", "delattr") \
                        and n.args and (_u(n.args[0]) in ("base", "self.base")):
                    writes.add(_u(n.args[1]) if len(n.args) > 1 else "?")
    # ---- PytorchEngine.evaluate / train_step
    m3 = _module(repo, F_PT)
    pt = _methods(_class(m3, "PytorchEngine", F_PT))
    for need in ("evaluate", "train_step"):
        if need not in pt:
            raise Shape(f"PytorchEngine: no {need}")

    def mode_before_forward(fn, models, mode, other):
        """every model in `models`: `self.<m>.<mode>()` is a top-level statement before the first forward call
        self.<m>(...) and no `.<other>()` call comes between"""
        body = _strip_doc(fn.body)
        res = True
        for m in models:
            fwd = [n for n in ast.walk(fn) if isinstance(n, ast.Call) and _self_attr(n.func) == m]
            if not fwd:
                raise Shape(f"PytorchEngine.{fn.name}: no forward call of self.{m}")
            first = min(n.lineno for n in fwd)
            ok = False
            for s in body:
                if s.lineno >= first:
                    break
                for n in ast.walk(s):
                    if isinstance(n, ast.Call) and isinstance(n.func, ast.Attribute) and _self_attr(n.func.value) == m:
                        if n.func.attr == mode and isinstance(s, ast.Expr) and s.value is n and not n.args:
                            ok = True
                        elif n.func.attr == mode and n.args:
                            ok = _const_true(n.args[0]) if isinstance(s, ast.Expr) and s.value is n else False
                        elif n.func.attr in (other, mode):
                            ok = False
            res = res and ok
        return res

    eval_first = mode_before_forward(pt["evaluate"], ["predictor_model"], "eval", "train")
    train_first = mode_before_forward(pt["train_step"], ["predictor_model", "adversary_model"], "train", "eval")
    return reuse_tab, in_place, sorted(writes), eval_first, train_first


def _const_true(n):
    return isinstance(n, ast.Constant) and n.value is True


# ---------------------------------------------------------------------------------------------
# the estimators
# ---------------------------------------------------------------------------------------------
def _estimator(repo, rel, name):
    mod = _module(repo, rel)
    cls = _class(mod, name, rel)
    bases = _base_names(cls)
    if not set(bases) <= ALLOWED_BASES:
        raise Shape(f"{name}: bases {bases}")
    ms = _methods(cls)
    params, attrs = _init_attrs(cls, ms)
    return cls, ms, params, attrs


def _fit_src(cls, ms, params, attrs, assume=None):
    sc = scan_fit(cls, ms, params, attrs, assume)
    return {"returns_self": returns_self(ms["fit"]),
            "param_writes": sorted(sc.param_writes),
            "param_calls": sorted(sc.param_calls),
            "history_reads": sorted(sc.history_reads),
            "inplace": sorted(sc.inplace),
            "escapes": sorted(sc.escapes)}, sc


def _nu_guard(sc):
    gs = sc.param_writes.get("nu")
    if not gs:
        return "NuNotWritten"
    if len(gs) != 1:
        return "NuOther"
    inner = [g for g in gs[0] if g[0] not in ("<loop>",)]
    if not inner:
        return "NuAlways"
    src, pol = inner[-1]
    try:
        t = ast.parse(src, mode="eval").body
    except SyntaxError:
        return "NuOther"
    is_none = (isinstance(t, ast.Compare) and len(t.ops) == 1 and _self_attr(t.left) == "nu"
               and isinstance(t.comparators[0], ast.Constant) and t.comparators[0].value is None)
    if is_none and ((isinstance(t.ops[0], ast.Is) and pol) or (isinstance(t.ops[0], ast.IsNot) and not pol)):
        # every other enclosing test must not mention self (`if t == 0`)
        for s, _ in inner[:-1]:
            if "self." in s:
                return "NuOther"
        return "NuIfNone"
    return "NuOther"


# ---------------------------------------------------------------------------------------------
# output
# ---------------------------------------------------------------------------------------------
def _gb(b):
    return "true" if b else "false"


def _gs(s):
    if '"' in s or "\\" in s or not s.isascii():
        raise Shape(f"cannot write {s!r} as a Coq string")
    return f'"{s}"'


def _gl(xs, f):
    return "[" + "; ".join(f(x) for x in xs) + "]"


def _gfit(name, comment, d):
    return (f"(* {comment} *)\n"
            f"Definition {name} : fit_src :=\n"
            f"  mk_fit {_gb(d['returns_self'])}\n"
            f"    (* constructor attributes written *) {_gl(d['param_writes'], _gs)}\n"
            f"    (* methods called on parameters   *) {_gl(d['param_calls'], _gs)}\n"
            f"    (* read before assigned           *) {_gl(d['history_reads'], _gs)}\n"
            f"    (* mutated in place               *) {_gl(d['inplace'], _gs)}\n"
            f"    (* receive the estimator          *) {_gl(d['escapes'], _gs)}.\n")


def translate(repo):
    repo = Path(repo)
    to, _ = _fit_src(*_estimator(repo, F_TO, "ThresholdOptimizer"))
    eg, eg_sc = _fit_src(*_estimator(repo, F_EG, "ExponentiatedGradient"))
    gs, _ = _fit_src(*_estimator(repo, F_GS, "GridSearch"))
    cr, _ = _fit_src(*_estimator(repo, F_CR, "CorrelationRemover"))
    adv_cls = _estimator(repo, F_ADV, "_AdversarialFairness")
    adv, _ = _fit_src(*adv_cls)
    adv_cold, _ = _fit_src(*adv_cls, assume={"warm_start": False})
    nu = _nu_guard(eg_sc)
    latch, sets_loaded, other_reads = moment_src(repo)
    lag_c, lag_o, eg_ok, gs_c, gs_o, gs_fresh = loads_src(repo)
    first_tab, del_tab, setup_tab, cls_missing, setup_sets, marker = adversarial_src(repo)
    reuse_tab, in_place, base_writes, eval_first, train_first = engine_src(repo)
    out = [
        "(* GENERATED by translators/t_lifecycle.py from " + ", ".join(
            [F_TO, F_EG, F_LAG, F_GS, F_MOM, F_CR, F_ADV, F_BE, F_PT]) + " -- do not edit *)",
        "From Coq Require Import String List Bool.",
        "From FL Require Import LifecycleSrc.",
        "Import ListNotations.",
        "Open Scope string_scope.",
        "",
        _gfit("to_fit", "ThresholdOptimizer.fit and the methods of the class it refers to", to),
        _gfit("eg_fit", "ExponentiatedGradient.fit", eg),
        _gfit("gs_fit", "GridSearch.fit", gs),
        _gfit("cr_fit", "CorrelationRemover.fit and its helpers", cr),
        _gfit("adv_fit", "_AdversarialFairness.fit (shared by AdversarialFairnessClassifier / Regressor), "
                         "_validate_input, __setup, ...", adv),
        _gfit("adv_fit_cold", "the same under the assumption self.warm_start = False", adv_cold),
        "(* ExponentiatedGradient.fit: guard of `self.nu = ...` *)",
        f"Definition nu : nu_guard := {nu}.",
        "",
        "(* Moment.load_data: assertion / raise / early return on data_loaded; `self.data_loaded = True` "
        "unconditional; other readers of the flag in fairlearn/reductions *)",
        f"Definition moment : moment_src := mk_moment {_gb(latch)} {_gb(sets_loaded)} {_gl(other_reads, _gs)}.",
        "",
        "(* _Lagrangian.__init__ loads constraints / objective unconditionally with (X, y, **kwargs); "
        "ExponentiatedGradient.fit hands self.constraints, self.objective and its own data to _Lagrangian; "
        "GridSearch.fit loads constraints / objective unconditionally; its objective is a new default_objective() *)",
        f"Definition loads : loads_src := mk_loads {_gb(lag_c)} {_gb(lag_o)} {_gb(eg_ok)} {_gb(gs_c)} {_gb(gs_o)} "
        f"{_gb(gs_fresh)}.",
        "",
        "(* adversarial; tables list the value for (fitted, warm) = (F,F) (F,T) (T,F) (T,T), "
        "fitted = hasattr(self, \"classes_\"), warm = self.warm_start;\n"
        "   the __setup guard for (is_fitted, reinitialize); the engine's reuse rule for "
        "(base.warm_start, hasattr(base, \"backendEngine_\")) *)",
        "Definition adv : adv_src :=",
        f"  mk_adv (* re-initialisation flag   *) {_gl(first_tab, _gb)}",
        f"         (* del self.classes_        *) {_gl(del_tab, _gb)}",
        f"         (* __setup runs             *) {_gl(setup_tab, _gb)}",
        f"         (* classes_ set iff missing *) {_gb(cls_missing)}",
        f"         (* __setup assigns          *) {_gl(setup_sets, _gs)}",
        f"         (* fitted marker            *) {_gs(marker)}",
        f"         (* engine reuses networks   *) {_gl(reuse_tab, _gb)}",
        f"         (* user module used itself  *) {_gb(in_place)}",
        f"         (* engines write to base    *) {_gl(base_writes, _gs)}",
        f"         (* .eval() before forward   *) {_gb(eval_first)}",
        f"         (* .train() first in step   *) {_gb(train_first)}.",
        "",
        "Definition src : lifecycle_src :=",
        "  mk_src to_fit eg_fit gs_fit cr_fit adv_fit adv_fit_cold nu moment loads adv.",
        "",
    ]
    return {"Gen_lifecycle.v": "\n".join(out)}


if __name__ == "__main__":
    import sys
    print(translate(Path(sys.argv[1] if len(sys.argv) > 1 else "/repo"))["Gen_lifecycle.v"])
