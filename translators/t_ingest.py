"""t_ingest: regenerate the table of INGESTION SITES of the C12 anchors (C12).

An ingestion site is a statement that places row data of the caller into an internal pandas object (or
re-wraps it): a pandas constructor call (`wrap`), a store into an element of a pandas object / of a dict that
becomes a DataFrame (`store`), a conversion of a container to a positional array (`strip`), an assignment to
`.index` (`reindex`), an index-aligning pandas operation in which an internal object meets one that still
carries the caller's index (`align`, always Labelled).  The sites are found by an abstract execution (ast only) of the entry points

    MetricFrame.__init__                      (+ _get_annotated_metric_functions, _construct_annotated_metric_function,
                                                 _process_features, GroupFeature.__init__, _convert_to_ndarray_and_squeeze)
    <parity moment>.load_data, ErrorRate.load_data
                                              (+ _validate_and_reformat_input, _merge_columns,
                                                 _merge_event_and_control_columns, UtilityParity.load_data, Moment.load_data)
    ThresholdOptimizer.fit                    (+ both _threshold_optimization_* methods, _reformat_and_group_data,
                                                 _reformat_data_into_dict)
    InterpolatedThresholder._pmf_predict      (+ ThresholdOperation.__call__)

over the provenance domain

    NR   not row data (scalars, names, configuration, aggregates)
    POS  positional: list, ndarray, np.asarray(x), x.values, x.to_numpy(), list(x), check_array(x)
    DEF  pandas object built from POS with the default index (or derived from such objects index-preservingly)
    LAB  pandas object that still carries the caller's index
    RAW  the caller's container as given (may be labelled)
    UNK  derived from row data by an operation this translator does not know

A site is Positional when everything that meets in it is POS / DEF, Labelled when something is LAB / RAW; the
translator raises when UNK reaches a site, on unknown statement kinds, on a statement-level call it does not know that
receives row data, on stores to `self.tags` outside the analysed load_data chain, on a parity moment class it was not
told about.  Site names carry the function, the ordinal of the site in the function and its roles -- no local names
and no line numbers -- so renaming a local or writing np.array for np.asarray gives the identical table.
"""
from __future__ import annotations
import ast
from pathlib import Path

OUTPUTS = ["Gen_ingest.v"]

FILES = {
    "metric_frame": "fairlearn/metrics/_metric_frame.py",
    "group_feature": "fairlearn/metrics/_group_feature.py",
    "input_manipulations": "fairlearn/utils/_input_manipulations.py",
    "input_validation": "fairlearn/utils/_input_validation.py",
    "moment": "fairlearn/reductions/_moments/moment.py",
    "utility_parity": "fairlearn/reductions/_moments/utility_parity.py",
    "error_rate": "fairlearn/reductions/_moments/error_rate.py",
    "threshold_optimizer": "fairlearn/postprocessing/_threshold_optimizer.py",
    "interpolated_thresholder": "fairlearn/postprocessing/_interpolated_thresholder.py",
    "threshold_operation": "fairlearn/postprocessing/_threshold_operation.py",
}
MODULE_ORDER = list(FILES)

PARITY_MOMENTS = ["DemographicParity", "TruePositiveRateParity", "FalsePositiveRateParity", "EqualizedOdds",
                  "ErrorRateParity"]

# documented input domain: MetricFrame's sensitive_features / control_features may be a "dict of 1d arrays"
# (the values are taken to be arrays, i.e. positional).  Listed in the generated file.
DICT_OF_ARRAYS = {("MetricFrame._process_features", 1)}      # (function, position of the parameter after self)
ASSUMPTIONS = ["MetricFrame: a dict given as sensitive_features / control_features holds 1d arrays (docstring: "
               "'dict of 1d arrays'); a dict of pandas Series with different index labels would be aligned by label by "
               "pd.DataFrame.from_dict",
               "_get_soft_predictions (the user's estimator) may return any container: RAW",
               "sklearn check_array returns an ndarray for every accepted container"]

NR, POS, DEF, LAB, RAW, UNK = "NR", "POS", "DEF", "LAB", "RAW", "UNK"
ORDER = {NR: 0, POS: 1, DEF: 2, LAB: 3, RAW: 4, UNK: 5}
ROWISH = (POS, DEF, LAB, RAW, UNK)


class TranslateError(ValueError):
    pass


# ------------------------------------------------------------------------------------------ abstract values
class A:
    """atom: provenance kind, optionally a known constant (only for NR)"""
    __slots__ = ("k", "c")

    def __init__(self, k, c=None):
        self.k = k
        self.c = c      # ("c", value) when a constant is known

    def __repr__(self):
        return f"A({self.k}{'' if self.c is None else ',' + repr(self.c[1])})"


class Tup:
    def __init__(self, items):
        self.items = list(items)


class Lst:      # mutable: list literal that is appended to
    def __init__(self, elem=None):
        self.elem = elem


class Dct:      # mutable: dict of columns
    def __init__(self, elem=None):
        self.elem = elem


class KwD:      # **kwargs built at a call
    def __init__(self, d):
        self.d = dict(d)


class Items:    # result of .items()
    def __init__(self, val):
        self.val = val


class GB:       # result of .groupby(...)
    def __init__(self, k):
        self.k = k


class Obj:      # instance of a class of the analysed files
    def __init__(self, cls):
        self.cls = cls          # (module key, class name) or None
        self.fields = {}


class Fn:       # bound methods held in a local
    def __init__(self, targets):
        self.targets = list(targets)    # (mod, clsname, FunctionDef, selfobj)


def const(v):
    return A(NR, ("c", v))


def kind(v):
    if v is None:
        return NR
    if isinstance(v, A):
        return v.k
    if isinstance(v, Tup):
        k = NR
        for i in v.items:
            k = kjoin(k, kind(i))
        return k
    if isinstance(v, (Lst, Dct)):
        return kind(v.elem)
    if isinstance(v, Items):
        return kind(v.val)
    if isinstance(v, GB):
        return v.k
    if isinstance(v, KwD):
        k = NR
        for i in v.d.values():
            k = kjoin(k, kind(i))
        return k
    return NR       # Obj, Fn


def kjoin(a, b):
    return a if ORDER[a] >= ORDER[b] else b


def rowish(v):
    return kind(v) in ROWISH


def join(a, b):
    if a is None:
        return b
    if b is None:
        return a
    if a is b:
        return a
    if isinstance(a, A) and isinstance(b, A):
        if a.k == b.k:
            return a if (a.c == b.c) else A(a.k)
        return A(kjoin(a.k, b.k))
    if isinstance(a, Tup) and isinstance(b, Tup) and len(a.items) == len(b.items):
        return Tup(join(x, y) for x, y in zip(a.items, b.items))
    if isinstance(a, Lst) and isinstance(b, Lst):
        a.elem = join(a.elem, b.elem)
        return a
    if isinstance(a, Dct) and isinstance(b, Dct):
        a.elem = join(a.elem, b.elem)
        return a
    if isinstance(a, Obj) and isinstance(b, Obj):
        o = Obj(a.cls if a.cls == b.cls else None)
        for f in set(a.fields) | set(b.fields):
            o.fields[f] = join(a.fields.get(f), b.fields.get(f))
        return o
    if isinstance(a, Fn) and isinstance(b, Fn):
        return Fn(a.targets + [t for t in b.targets if t not in a.targets])
    if isinstance(a, GB) and isinstance(b, GB):
        return GB(kjoin(a.k, b.k))
    if isinstance(a, Items) and isinstance(b, Items):
        return Items(join(a.val, b.val))
    # an empty literal ({} / []) joins away
    if isinstance(b, (Dct, Lst)) and b.elem is None and isinstance(a, A):
        return a
    if isinstance(a, (Dct, Lst)) and a.elem is None and isinstance(b, A):
        return b
    # atom with compound: None / empty constant joins away, anything else is unknown
    if isinstance(a, A) and a.k == NR:
        return b
    if isinstance(b, A) and b.k == NR:
        return a
    return A(kjoin(kjoin(kind(a), kind(b)), UNK))


# ------------------------------------------------------------------------------------------ module tables
class Mod:
    def __init__(self, key, repo):
        self.key = key
        self.rel = FILES[key]
        self.dotted = self.rel[:-3].replace("/", ".")
        self.tree = ast.parse((Path(repo) / self.rel).read_text())
        self.funcs, self.classes, self.consts, self.imports, self.aliases = {}, {}, {}, {}, {}
        pkg = self.dotted.split(".")[:-1]
        for n in self.tree.body:
            if isinstance(n, ast.FunctionDef):
                self.funcs[n.name] = n
            elif isinstance(n, ast.ClassDef):
                self.classes[n.name] = n
            elif isinstance(n, ast.Assign) and len(n.targets) == 1 and isinstance(n.targets[0], ast.Name) \
                    and isinstance(n.value, ast.Constant):
                self.consts[n.targets[0].id] = n.value.value
            elif isinstance(n, ast.Import):
                for a in n.names:
                    self.aliases[a.asname or a.name.split(".")[0]] = a.name if a.asname else a.name.split(".")[0]
            elif isinstance(n, ast.ImportFrom):
                base = (pkg[: len(pkg) - (n.level - 1)] if n.level else []) + ([n.module] if n.module else [])
                for a in n.names:
                    self.imports[a.asname or a.name] = (".".join(base), a.name)


# external callables, keyed by final name -> allowed origins
STRIP_FUNCS = {"asarray": {"numpy"}, "array": {"numpy"}, "squeeze": {"numpy"}, "atleast_1d": {"numpy"},
               "vstack": {"numpy"}, "list": {"builtins"},
               "check_array": {"fairlearn.utils._fixes", "sklearn.utils", "sklearn.utils.validation"}}
AGG_FUNCS = {"len": {"builtins"}, "sum": {"builtins"}, "set": {"builtins"}, "str": {"builtins"},
             "int": {"builtins"}, "type": {"builtins"}, "isinstance": {"builtins"}, "hasattr": {"builtins"},
             "range": {"builtins"}, "dict": {"builtins"},
             "unique": {"numpy"}, "isscalar": {"numpy"}, "amin": {"numpy"}, "around": {"numpy"},
             "linspace": {"numpy"}, "zeros": {"numpy"}, "ones": {"numpy"},
             "notnull": {"pandas"}, "concat": {"pandas"},
             "check_consistent_length": {"sklearn.utils", "sklearn.utils.validation"},
             "check_is_fitted": {"sklearn.utils.validation"}, "check_random_state": {"sklearn.utils"},
             "clone": {"sklearn", "sklearn.base"}, "Bunch": {"sklearn.utils"}, "warn": {"warnings"},
             # downstream consumers of the frames (their own properties C01 / C04-C06 / C18)
             "generate_bootstrap_samples": {"fairlearn.metrics._bootstrap"},
             "AnnotatedMetricFunction": {"fairlearn.metrics._annotated_metric_function"},
             "_tradeoff_curve": {"fairlearn.postprocessing._tradeoff_curve_utilities"},
             "_interpolate_curve": {"fairlearn.postprocessing._tradeoff_curve_utilities"},
             "_extend_confusion_matrix": {"fairlearn.postprocessing._tradeoff_curve_utilities"},
             "ErrorRate": {"fairlearn.reductions._moments.error_rate"}}
# pd.concat / np.zeros ... only count as aggregate when no row data goes in (checked below)
AGG_NEEDS_NONROW = {"concat", "zeros", "ones", "linspace", "around", "dict", "range", "int"}
RAW_SOURCES = {"_get_soft_predictions": {"fairlearn.utils._common"}}
AGG_DOTTED = {"DisaggregatedResult.create": "fairlearn.metrics._disaggregated_result"}

ATTR_NR = {"shape", "ndim", "size", "columns", "name", "dtype", "dtypes", "empty"}
ATTR_SAME = {"T", "iloc", "loc", "at", "iat", "index"}
METH_SAME = {"squeeze", "reshape", "astype", "transpose", "copy", "dropna", "apply", "where", "fillna", "abs",
             "sort_index", "ravel", "flatten", "map"}
METH_STRIP = {"to_numpy", "tolist", "to_list"}
METH_AGG = {"unique", "sum", "size", "mean", "max", "min", "idxmax", "idxmin", "any", "all", "nunique", "count",
            "issubset", "format", "join", "add", "keys", "isin"}
METH_SINK_ON_NR = {"fit", "debug", "info", "warning", "format", "add", "keys", "predict", "join"}
PD_CTORS = {"pandas.Series": "Series", "pandas.DataFrame": "DataFrame", "pandas.DataFrame.from_dict": "DataFrame"}
TYPE_NAMES = {"pandas.Series": "pandas", "pandas.DataFrame": "pandas", "numpy.ndarray": "array",
              "builtins.list": "array", "builtins.dict": "dict", "builtins.tuple": "array"}
READ_ONLY_TAG_METHODS = {"groupby", "apply", "dropna", "unique", "copy"}


class Analyzer:
    def __init__(self, repo):
        self.mods = {k: Mod(k, repo) for k in FILES}
        self.by_dotted = {m.dotted: m for m in self.mods.values()}
        self.sites = {}         # (mod key, qual, lineno) -> {"roles": set, "kind": k, "entries": set, "src": str}
        self.root = None
        self.stack = []         # (mod, clsname, qual)
        self.stmt = None
        self.depth = 0

    # -------------------------------------------------------------------------------- name resolution
    def origin(self, mod, node):
        """dotted origin of a Name / Attribute chain used as a callee or a type: 'numpy.asarray',
        'builtins.list', 'fairlearn.utils._fixes.check_array', or None"""
        parts = []
        n = node
        while isinstance(n, ast.Attribute):
            parts.append(n.attr)
            n = n.value
        if not isinstance(n, ast.Name):
            return None
        parts.append(n.id)
        parts.reverse()
        head = parts[0]
        if head in mod.aliases:
            return ".".join([mod.aliases[head]] + parts[1:])
        if head in mod.imports:
            base, name = mod.imports[head]
            return ".".join([base, name] + parts[1:])
        if head in mod.funcs or head in mod.classes:
            return ".".join([mod.dotted] + parts)
        if len(parts) == 1 and head in BUILTINS:
            return "builtins." + head
        return None

    def lookup_internal(self, mod, name):
        """a bare name -> ("func", Mod, FunctionDef) | ("class", Mod, ClassDef) | ("const", value) | None"""
        if name in mod.funcs:
            return ("func", mod, mod.funcs[name])
        if name in mod.classes:
            return ("class", mod, mod.classes[name])
        if name in mod.consts:
            return ("const", mod.consts[name])
        if name in mod.imports:
            base, orig = mod.imports[name]
            m2 = self.by_dotted.get(base)
            if m2 is not None:
                return self.lookup_internal(m2, orig)
        return None

    def class_chain(self, mod, clsname):
        """linearised (Mod, ClassDef) chain through the first resolvable base of each class"""
        out = []
        cur = (mod, clsname)
        seen = set()
        while cur is not None and cur not in seen:
            seen.add(cur)
            m, c = cur
            cd = m.classes.get(c)
            if cd is None:
                r = self.lookup_internal(m, c)
                if r and r[0] == "class":
                    m, cd = r[1], r[2]
                else:
                    break
            out.append((m, cd))
            cur = None
            for b in cd.bases:
                if isinstance(b, ast.Name):
                    r = self.lookup_internal(m, b.id)
                    if r and r[0] == "class":
                        cur = (r[1], r[2].name)
                        break
        return out

    def find_method(self, mod, clsname, name, after=None):
        chain = self.class_chain(mod, clsname)
        if after is not None:
            idx = [i for i, (m, cd) in enumerate(chain) if cd.name == after]
            chain = chain[idx[0] + 1:] if idx else []
        for m, cd in chain:
            for n in cd.body:
                if isinstance(n, ast.FunctionDef) and n.name == name:
                    return m, cd.name, n
        return None

    # -------------------------------------------------------------------------------- sites
    def note(self, role, k, what=""):
        mod, clsname, qual = self.stack[-1]
        if k == UNK:
            raise TranslateError(f"{mod.rel}:{self.stmt.lineno}: cannot classify what reaches this {role} site "
                                 f"({what or ast.unparse(self.stmt)[:90]})")
        key = (mod.key, qual, self.stmt.lineno)
        s = self.sites.setdefault(key, {"roles": set(), "kind": NR, "entries": set(),
                                        "src": " ".join(ast.unparse(self.stmt).split())[:110]})
        s["roles"].add(role)
        s["kind"] = kjoin(s["kind"], k)
        s["entries"].add(self.root)

    # -------------------------------------------------------------------------------- functions
    def call_function(self, mod, clsname, fdef, selfobj, args, kwargs, site_node=None):
        for d in fdef.decorator_list:
            if not (isinstance(d, ast.Name) and d.id in ("property", "staticmethod")):
                raise TranslateError(f"{mod.rel}:{fdef.lineno}: decorator on an analysed function")
        self.depth += 1
        if self.depth > 14:
            raise TranslateError(f"{mod.rel}:{fdef.lineno}: call depth exceeded (recursion?)")
        a = fdef.args
        if a.vararg is not None:
            raise TranslateError(f"{mod.rel}:{fdef.lineno}: *args in an analysed function")
        params = [p.arg for p in a.posonlyargs + a.args]
        env = {}
        if clsname is not None and params and params[0] == "self" and \
                not any(isinstance(d, ast.Name) and d.id == "staticmethod" for d in fdef.decorator_list):
            params = params[1:]
        if len(args) > len(params):
            raise TranslateError(f"{mod.rel}:{fdef.lineno}: too many positional arguments for {fdef.name}")
        for p, v in zip(params, args):
            env[p] = v
        defaults = dict(zip(reversed(params), reversed(a.defaults)))
        kwonly = {p.arg: d for p, d in zip(a.kwonlyargs, a.kw_defaults)}
        extra = {}
        for k, v in kwargs.items():
            if k in params or k in kwonly:
                if k in env:
                    raise TranslateError(f"{mod.rel}:{fdef.lineno}: argument {k} given twice")
                env[k] = v
            elif a.kwarg is not None:
                extra[k] = v
            else:
                raise TranslateError(f"{mod.rel}:{fdef.lineno}: unexpected keyword {k} for {fdef.name}")
        qual = (clsname + "." if clsname else "") + fdef.name
        self.stack.append((mod, clsname, qual))
        saved_stmt = self.stmt
        try:
            for p in params:
                if p not in env:
                    if p not in defaults:
                        raise TranslateError(f"{mod.rel}:{fdef.lineno}: missing argument {p} for {fdef.name}")
                    env[p] = self.default_value(mod, defaults[p])
            for p, d in kwonly.items():
                if p not in env:
                    if d is None:
                        raise TranslateError(f"{mod.rel}:{fdef.lineno}: missing keyword argument {p} for {fdef.name}")
                    env[p] = self.default_value(mod, d)
            if a.kwarg is not None:
                env[a.kwarg.arg] = KwD(extra)
            fr = Frame(self, mod, clsname, qual, env, selfobj)
            fr.params = params + [p.arg for p in a.kwonlyargs]
            fr.block(fdef.body)
            return fr.ret if fr.ret is not None else const(None)
        finally:
            self.stack.pop()
            self.stmt = saved_stmt
            self.depth -= 1

    def default_value(self, mod, node):
        if isinstance(node, ast.Constant):
            return const(node.value)
        if isinstance(node, ast.Name) and node.id in mod.consts:
            return const(mod.consts[node.id])
        return A(NR)

    def instantiate(self, mod, cdef, args, kwargs):
        o = Obj((mod.key, cdef.name))
        init = self.find_method(mod, cdef.name, "__init__")
        if init is not None:
            self.call_function(init[0], init[1], init[2], o, args, kwargs)
        return o


BUILTINS = {"len", "sum", "set", "str", "int", "float", "type", "isinstance", "hasattr", "range", "list", "dict",
            "tuple", "map", "super", "print", "bool", "enumerate", "zip", "min", "max", "sorted", "getattr", "setattr"}


class Dead(Exception):
    pass


class Frame:
    def __init__(self, an, mod, clsname, qual, env, selfobj):
        self.an, self.mod, self.clsname, self.qual, self.env, self.selfobj = an, mod, clsname, qual, env, selfobj
        self.ret = None
        self.loop_exits = []
        self.params = []

    def err(self, node, msg):
        return TranslateError(f"{self.mod.rel}:{getattr(node, 'lineno', '?')}: {msg}: "
                              f"{' '.join(ast.unparse(node).split())[:100]}")

    # ------------------------------------------------------------------------------ statements
    def block(self, stmts):
        """returns True when control may fall off the end"""
        for s in stmts:
            if not self.stmt(s):
                return False
        return True

    def stmt(self, s):
        an = self.an
        an.stmt = s
        if isinstance(s, ast.Expr):
            if isinstance(s.value, ast.Constant):
                return True
            v = self.ev(s.value)
            if kind(v) == UNK:
                raise self.err(s, "statement-level call on row data that the translator does not know "
                                  "(could reorder or relabel in place)")
            return True
        if isinstance(s, ast.Assign):
            v = self.ev(s.value)
            for t in s.targets:
                self.assign(t, v, s)
            return True
        if isinstance(s, ast.AnnAssign):
            if s.value is not None:
                self.assign(s.target, self.ev(s.value), s)
            return True
        if isinstance(s, ast.AugAssign):
            cur = self.ev(_load(s.target))
            v = self.binop_join([cur, self.ev(s.value)], align=True)
            self.assign(s.target, v, s)
            return True
        if isinstance(s, ast.Return):
            v = self.ev(s.value) if s.value is not None else const(None)
            self.ret = join(self.ret, v) if self.ret is not None else v
            return False
        if isinstance(s, ast.Raise):
            return False
        if isinstance(s, ast.Pass):
            return True
        if isinstance(s, (ast.Continue, ast.Break)):
            self.loop_exits.append(dict(self.env))
            return False
        if isinstance(s, ast.Assert):
            self.ev(s.test)
            nar = self.isinstance_test(s.test)
            if nar is not None:
                name, v = nar
                if v is not None:
                    self.env[name] = v
            return True
        if isinstance(s, ast.FunctionDef):
            self.env[s.name] = A(NR)
            return True
        if isinstance(s, ast.If):
            return self.if_stmt(s)
        if isinstance(s, ast.For):
            return self.for_stmt(s)
        if isinstance(s, ast.Try):
            return self.try_stmt(s)
        raise self.err(s, f"statement kind {type(s).__name__} is not supported")

    def if_stmt(self, s):
        tv = self.ev(s.test)
        folded = tv.c[1] if isinstance(tv, A) and tv.c is not None else None
        branches = []
        none_t, none_f = self.none_test(s.test)
        if folded is None or folded:
            branches.append((s.body, self.isinstance_test(s.test) or none_t))
        if folded is None or not folded:
            branches.append((s.orelse, none_f))
        base = self.env
        outs = []
        for body, nar in branches:
            self.env = dict(base)
            if nar is not None:
                name, v = nar
                if v is None:
                    continue        # dead branch: the value cannot have this type
                self.env[name] = v
            if self.block(body):
                outs.append(self.env)
        if not outs:
            self.env = base
            return False
        self.env = self.join_envs(outs)
        return True

    def join_envs(self, envs):
        out = dict(envs[0])
        for e in envs[1:]:
            for k in set(out) | set(e):
                out[k] = join(out.get(k), e.get(k))
        return out

    def for_stmt(self, s):
        it = self.ev(s.iter)
        elem = self.iter_elem(it, s)
        pre = dict(self.env)
        saved_exits = self.loop_exits
        self.loop_exits = []
        outs = [pre]
        for _ in range(2):          # twice: values assigned in the body reach its beginning
            self.env = self.join_envs(outs)
            self.bind(s.target, elem, s)
            if self.block(s.body):
                outs.append(self.env)
            outs += self.loop_exits
            self.loop_exits = []
        self.loop_exits = saved_exits
        self.env = self.join_envs(outs)
        if s.orelse:
            self.block(s.orelse)
        return True

    def try_stmt(self, s):
        if s.finalbody:
            raise self.err(s, "try/finally is not supported")
        base = dict(self.env)
        outs = []
        if self.block(s.body) and self.block(s.orelse):
            outs.append(self.env)
        for h in s.handlers:
            self.env = dict(base)
            if h.name:
                self.env[h.name] = A(NR)
            if self.block(h.body):
                outs.append(self.env)
        if not outs:
            self.env = base
            return False
        self.env = self.join_envs(outs)
        return True

    def none_test(self, test):
        """`<name> is None` / `<name> is not None` -> narrowing for the true and for the false branch"""
        if isinstance(test, ast.Compare) and len(test.ops) == 1 and isinstance(test.ops[0], (ast.Is, ast.IsNot)) \
                and isinstance(test.left, ast.Name) and isinstance(test.comparators[0], ast.Constant) \
                and test.comparators[0].value is None and test.left.id in self.env:
            nar = (test.left.id, const(None))
            return (nar, None) if isinstance(test.ops[0], ast.Is) else (None, nar)
        return (None, None)

    def isinstance_test(self, test):
        """`isinstance(<name>, T)` -> (name, narrowed value or None when impossible); anything else -> None"""
        if not (isinstance(test, ast.Call) and isinstance(test.func, ast.Name) and test.func.id == "isinstance"
                and len(test.args) == 2 and isinstance(test.args[0], ast.Name) and not test.keywords):
            return None
        name = test.args[0].id
        if name not in self.env:
            return None
        tnode = test.args[1]
        tnodes = tnode.elts if isinstance(tnode, ast.Tuple) else [tnode]
        cats = set()
        for t in tnodes:
            o = self.an.origin(self.mod, t)
            if o not in TYPE_NAMES:
                return None
            cats.add(TYPE_NAMES[o])
        v = self.env[name]
        if not isinstance(v, A):
            return None
        res = None
        for c in cats:
            r = None
            if v.k == RAW:
                if c == "pandas":
                    r = A(LAB)
                elif c == "array":
                    r = A(POS)
                else:
                    doc = name in self.params and (self.qual, self.params.index(name)) in DICT_OF_ARRAYS
                    r = Dct(A(POS) if doc else A(RAW))
            elif v.k in (DEF, LAB):
                r = v if c == "pandas" else None
            elif v.k == POS:
                r = v if c == "array" else None
            else:
                r = v
            if r is not None:
                res = r if res is None else join(res, r)
        return (name, res)

    def iter_elem(self, it, node):
        if isinstance(it, Lst):
            return it.elem if it.elem is not None else A(NR)
        if isinstance(it, Items):
            return Tup([A(NR), it.val])
        if isinstance(it, GB):
            return Tup([A(NR), A(it.k)])
        if isinstance(it, Dct):
            return A(NR)
        if isinstance(it, Tup):
            v = None
            for i in it.items:
                v = join(v, i)
            return v if v is not None else A(NR)
        if isinstance(it, A):
            if it.k == UNK:
                return A(UNK)
            return A(NR)            # scalars / single rows of a container
        return A(NR)

    def bind(self, target, v, node):
        if isinstance(target, ast.Name):
            self.env[target.id] = v
        elif isinstance(target, (ast.Tuple, ast.List)):
            if isinstance(v, Tup) and len(v.items) == len(target.elts):
                for t, i in zip(target.elts, v.items):
                    self.bind(t, i, node)
            else:
                k = kind(v)
                for t in target.elts:
                    self.bind(t, A(NR if k == NR else UNK), node)
        else:
            raise self.err(node, "unsupported binding target")

    def assign(self, t, v, s):
        an = self.an
        if isinstance(t, ast.Name):
            self.env[t.id] = v
            return
        if isinstance(t, (ast.Tuple, ast.List)):
            self.bind(t, v, s)
            return
        if isinstance(t, ast.Attribute):
            if isinstance(t.value, ast.Name) and t.value.id == "self" and self.selfobj is not None:
                old = self.selfobj.fields.get(t.attr)
                self.selfobj.fields[t.attr] = join(old, v) if (old is not None and rowish(old)) else v
                return
            base = self.ev(t.value)
            if t.attr == "index" and (rowish(base) or rowish(v)):
                k = kjoin(kind(base), kind(v))
                k = DEF if k in (POS, DEF) and kind(v) == DEF else (UNK if k == UNK else kjoin(k, LAB))
                an.note("reindex", k)
                self.update_target(t.value, A(k))
                return
            if rowish(base) or rowish(v):
                raise self.err(s, "attribute store on a row-data object")
            return
        if isinstance(t, ast.Subscript):
            base = self.ev(t.value)
            idx = self.ev(t.slice)
            if isinstance(base, Dct):
                if rowish(v):
                    an.note("store", kind(v))
                base.elem = join(base.elem, v if isinstance(v, A) else A(kind(v)))
                return
            if isinstance(base, (Lst, Tup, Obj, KwD)):
                if rowish(v):
                    raise self.err(s, "store of row data into an unsupported container")
                return
            if rowish(base) or rowish(v) or rowish(idx):
                k = NR
                for x in (base, v, idx):
                    k = kjoin(k, kind(x))
                an.note("store", k)
                self.meet([kind(base), kind(v), kind(idx)])
                if kind(base) == NR and rowish(v):
                    self.update_target(t.value, A(DEF if kind(v) in (POS, DEF) else kind(v)))
            return
        raise self.err(s, "unsupported assignment target")

    def update_target(self, node, v):
        """the object named by `node` (through .loc / .iloc) changes its index kind"""
        while isinstance(node, ast.Attribute) and node.attr in ("loc", "iloc", "at", "iat"):
            node = node.value
        if isinstance(node, ast.Name):
            self.env[node.id] = join(self.env.get(node.id), v)
        elif isinstance(node, ast.Attribute) and isinstance(node.value, ast.Name) and node.value.id == "self" \
                and self.selfobj is not None:
            self.selfobj.fields[node.attr] = join(self.selfobj.fields.get(node.attr), v)
        else:
            raise self.err(node, "store changes the index of an object the translator cannot name")

    # ------------------------------------------------------------------------------ expressions
    def binop_join(self, vals, align=False):
        k = NR
        for v in vals:
            k = kjoin(k, kind(v))
        if align:
            self.meet([kind(v) for v in vals])
        return A(k)

    def meet(self, ks):
        """operands of an index-aligning pandas operation: an internal (default index) object meeting one that
        still carries the caller's index is aligned by label"""
        if DEF in ks and (LAB in ks or RAW in ks):
            self.an.note("align", LAB)

    def ev(self, e):
        an = self.an
        if e is None:
            return const(None)
        if isinstance(e, ast.Constant):
            return const(e.value)
        if isinstance(e, ast.Name):
            if e.id in self.env:
                return self.env[e.id]
            r = an.lookup_internal(self.mod, e.id)
            if r is not None:
                if r[0] == "const":
                    return const(r[1])
                return A(NR)
            if e.id in ("True", "False", "None"):
                return const({"True": True, "False": False, "None": None}[e.id])
            if e.id == "self":
                return self.selfobj if self.selfobj is not None else A(NR)
            return A(NR)            # module-level objects (logger, tables), builtins, imported names
        if isinstance(e, ast.JoinedStr):
            return A(NR)
        if isinstance(e, ast.Lambda):
            return A(NR)
        if isinstance(e, ast.Attribute):
            return self.ev_attr(e)
        if isinstance(e, ast.Subscript):
            base = self.ev(e.value)
            idx = self.ev(e.slice)
            if isinstance(base, Dct):
                return base.elem if base.elem is not None else A(NR)
            if isinstance(base, Lst):
                return base.elem if base.elem is not None else A(NR)
            if isinstance(base, KwD):
                if isinstance(idx, A) and idx.c is not None and idx.c[1] in base.d:
                    return base.d[idx.c[1]]
                return A(kjoin(kind(base), NR))
            if isinstance(base, Tup):
                if isinstance(idx, A) and idx.c is not None and isinstance(idx.c[1], int) \
                        and -len(base.items) <= idx.c[1] < len(base.items):
                    return base.items[idx.c[1]]
                return A(kind(base))
            if isinstance(base, (Obj, Fn, Items, GB)):
                return A(UNK if rowish(base) else NR)
            if rowish(idx):
                self.meet([kind(base), kind(idx)])
            return A(kjoin(kind(base), kind(idx) if rowish(idx) else NR))
        if isinstance(e, ast.Slice):
            return self.binop_join([self.ev(x) for x in (e.lower, e.upper, e.step) if x is not None])
        if isinstance(e, ast.Tuple):
            items = [self.ev(x) for x in e.elts]
            return Tup(items)
        if isinstance(e, ast.List):
            items = [self.ev(x) for x in e.elts]
            v = None
            for i in items:
                v = join(v, i)
            return Lst(v)
        if isinstance(e, ast.Set):
            return self.binop_join([self.ev(x) for x in e.elts])
        if isinstance(e, ast.Dict):
            v = None
            for k_, x in zip(e.keys, e.values):
                if k_ is None:
                    raise self.err(e, "dict unpacking in a literal")
                self.ev(k_)
                xv = self.ev(x)
                v = join(v, xv if isinstance(xv, A) else A(kind(xv)))
            return Dct(v)
        if isinstance(e, ast.BinOp):
            return self.binop_join([self.ev(e.left), self.ev(e.right)], align=True)
        if isinstance(e, ast.UnaryOp):
            v = self.ev(e.operand)
            if isinstance(e.op, ast.Not):
                if isinstance(v, A) and v.c is not None:
                    return const(not v.c[1])
                return A(NR)
            return A(kind(v))
        if isinstance(e, ast.BoolOp):
            vals = [self.ev(x) for x in e.values]
            cs = [v.c[1] if isinstance(v, A) and v.c is not None else None for v in vals]
            if all(isinstance(v, A) and v.c is not None for v in vals):
                r = cs[0]
                for c in cs[1:]:
                    r = (r and c) if isinstance(e.op, ast.And) else (r or c)
                return const(r)
            if isinstance(e.op, ast.And) and any(isinstance(v, A) and v.c is not None and not v.c[1] for v in vals):
                return const(False)
            if isinstance(e.op, ast.Or) and any(isinstance(v, A) and v.c is not None and v.c[1] is True for v in vals):
                return const(True)
            out = None
            for v in vals:
                if isinstance(v, A) and v.c is not None:
                    v = A(NR)
                out = join(out, v)
            return out
        if isinstance(e, ast.Compare):
            vals = [self.ev(e.left)] + [self.ev(c) for c in e.comparators]
            if len(e.ops) == 1 and isinstance(e.ops[0], (ast.Is, ast.IsNot)):
                a, b = vals
                if isinstance(a, A) and isinstance(b, A) and a.c is not None and b.c is not None:
                    r = a.c[1] is b.c[1]
                    return const(r if isinstance(e.ops[0], ast.Is) else not r)
                return A(NR)
            if all(isinstance(o, (ast.In, ast.NotIn, ast.Is, ast.IsNot)) for o in e.ops):
                return A(NR)
            return self.binop_join(vals, align=True)
        if isinstance(e, ast.IfExp):
            self.ev(e.test)
            return join(self.ev(e.body), self.ev(e.orelse))
        if isinstance(e, (ast.ListComp, ast.GeneratorExp, ast.SetComp)):
            saved = dict(self.env)
            over_rows = False
            for g in e.generators:
                it = self.ev(g.iter)
                if isinstance(it, A) and it.k in (POS, DEF, LAB, RAW):
                    over_rows = True
                self.bind(g.target, self.iter_elem(it, e), e)
                for c in g.ifs:
                    self.ev(c)
            elt = self.ev(e.elt)
            self.env = saved
            if kind(elt) == UNK:
                return A(UNK)
            if over_rows:
                return A(POS)       # a new list, in iteration order
            if rowish(elt):
                return Lst(elt)
            return A(NR)
        if isinstance(e, ast.Call):
            return self.ev_call(e)
        if isinstance(e, ast.Starred):
            return self.ev(e.value)
        # anything else: unknown, poisoned when row data takes part
        ks = [kind(self.ev(c)) for c in ast.iter_child_nodes(e) if isinstance(c, ast.expr)]
        return A(UNK if any(k in ROWISH for k in ks) else NR)

    def ev_attr(self, e):
        an = self.an
        if isinstance(e.value, ast.Name) and e.value.id == "self" and self.selfobj is not None:
            if e.attr in self.selfobj.fields:
                return self.selfobj.fields[e.attr]
            if self.selfobj.cls is not None:
                m = an.find_method(an.mods[self.selfobj.cls[0]], self.selfobj.cls[1], e.attr)
                if m is not None:
                    if any(isinstance(d, ast.Name) and d.id == "property" for d in m[2].decorator_list):
                        return an.call_function(m[0], m[1], m[2], self.selfobj, [], {})
                    return Fn([(m[0], m[1], m[2], self.selfobj)])
            return A(UNK)           # attribute set elsewhere: unknown (fatal only if it reaches a site)
        base = self.ev(e.value)
        if isinstance(base, Obj):
            if e.attr in base.fields:
                return base.fields[e.attr]
            if base.cls is not None:
                m = an.find_method(an.mods[base.cls[0]], base.cls[1], e.attr)
                if m is not None:
                    return Fn([(m[0], m[1], m[2], base)])
            return A(UNK)
        if not rowish(base):
            return A(NR)
        if e.attr == "values":
            k = kind(base)
            if k == UNK:
                return A(UNK)
            if k in (DEF, LAB, RAW):
                an.note("strip", POS)
            return A(POS)
        if e.attr in ATTR_NR:
            return A(NR)
        if e.attr in ATTR_SAME:
            return A(kind(base))
        return A(UNK)

    # ------------------------------------------------------------------------------ calls
    def eval_args(self, c):
        args = []
        kwargs = {}
        for a in c.args:
            if isinstance(a, ast.Starred):
                raise self.err(c, "*args at a call")
            args.append(self.ev(a))
        splat = []
        for k in c.keywords:
            if k.arg is None:
                splat.append(self.ev(k.value))
            else:
                kwargs[k.arg] = self.ev(k.value)
        return args, kwargs, splat

    def strip_result(self, vals, what):
        """conversion to a positional array; a site when the input still was a container with an index"""
        ks = [kind(v) for v in vals]
        if UNK in ks:
            return A(UNK)
        if not any(k in ROWISH for k in ks):
            return A(NR)
        if any(k in (DEF, LAB, RAW) for k in ks):
            self.an.note("strip", POS)
        return A(POS)

    def ev_call(self, c):
        an = self.an
        f = c.func
        # ---- super().method(...)
        if isinstance(f, ast.Attribute) and isinstance(f.value, ast.Call) and isinstance(f.value.func, ast.Name) \
                and f.value.func.id == "super":
            after = self.clsname
            if f.value.args:
                if not (isinstance(f.value.args[0], ast.Name)):
                    raise self.err(c, "unsupported super(...) form")
                after = f.value.args[0].id
            args, kwargs, splat = self.eval_args(c)
            if splat:
                raise self.err(c, "** at a super() call")
            base_mod = self.mod
            # the chain is that of the object's class when known (self may be an instance of a subclass)
            start = (an.mods[self.selfobj.cls[0]], self.selfobj.cls[1]) if (self.selfobj is not None and
                                                                              self.selfobj.cls) else (base_mod, self.clsname)
            m = an.find_method(start[0], start[1], f.attr, after=after)
            if m is None:
                if f.attr == "__init__":
                    return const(None)
                raise self.err(c, "super() method not found in the analysed files")
            return an.call_function(m[0], m[1], m[2], self.selfobj, args, kwargs)
        args, kwargs, splat = self.eval_args(c)
        allv = list(args) + list(kwargs.values()) + splat
        # ---- bare names
        if isinstance(f, ast.Name) and f.id not in self.env:
            r = an.lookup_internal(self.mod, f.id)
            if r is not None and r[0] == "func":
                if splat:
                    raise self.err(c, "** at a call of an analysed function")
                return an.call_function(r[1], None, r[2], None, args, kwargs)
            if r is not None and r[0] == "class":
                if splat:
                    raise self.err(c, "** at an instantiation of an analysed class")
                return an.instantiate(r[1], r[2], args, kwargs)
        if isinstance(f, ast.Name) and f.id in self.env:
            fv = self.env[f.id]
            if isinstance(fv, Fn):
                out = None
                for (m, cn, fd, so) in fv.targets:
                    out = join(out, an.call_function(m, cn, fd, so, list(args), dict(kwargs)))
                return out
            return A(UNK if any(rowish(v) for v in allv) else NR)
        origin = an.origin(self.mod, f)
        if origin is not None:
            head, _, last = origin.rpartition(".")
            if origin in PD_CTORS:
                return self.pandas_ctor(c, origin, args, kwargs)
            if last in STRIP_FUNCS and head in STRIP_FUNCS[last]:
                extra = [v for k, v in kwargs.items() if k not in ("dtype", "ensure_2d", "ensure_all_finite",
                                                                    "allow_nd", "copy", "axis", "order",
                                                                    "force_all_finite", "accept_sparse", "ndmin")]
                if any(rowish(v) for v in extra):
                    return A(UNK)
                return self.strip_result(args, origin)
            if last == "map" and head == "builtins" and len(args) == 2:
                return A(POS) if kind(args[1]) == POS else A(UNK if rowish(args[1]) else NR)
            if last in RAW_SOURCES and head in RAW_SOURCES[last]:
                return A(RAW)
            if last in AGG_FUNCS and head in AGG_FUNCS[last]:
                if last in AGG_NEEDS_NONROW and any(rowish(v) for v in allv):
                    return A(UNK)
                return A(NR)
            for dn, o in AGG_DOTTED.items():
                if origin == o + "." + dn:
                    return A(NR)
        # ---- method calls
        if isinstance(f, ast.Attribute):
            if isinstance(f.value, ast.Name) and f.value.id == "self" and self.selfobj is not None \
                    and f.attr not in self.selfobj.fields and self.selfobj.cls is not None:
                m = an.find_method(an.mods[self.selfobj.cls[0]], self.selfobj.cls[1], f.attr)
                if m is not None:
                    holds_rows = any(rowish(v) for v in self.selfobj.fields.values())
                    if not any(rowish(v) or isinstance(v, (Dct, Lst)) for v in allv) and not holds_rows:
                        return A(NR)        # a helper that sees no row data (result caches, bootstrap set-up)
                    if splat:
                        raise self.err(c, "** at a method call")
                    return an.call_function(m[0], m[1], m[2], self.selfobj, args, kwargs)
            if f.attr in ("operation0", "operation1"):
                top = an.mods["threshold_operation"]
                m = an.find_method(top, "ThresholdOperation", "__call__")
                if m is None:
                    raise self.err(c, "ThresholdOperation.__call__ not found")
                o = an.instantiate(top, top.classes["ThresholdOperation"], [const(">"), A(NR)], {})
                return an.call_function(m[0], m[1], m[2], o, args, kwargs)
            recv = self.ev(f.value)
            if isinstance(recv, Fn):        # bound method object called directly
                out = None
                for (m, cn, fd, so) in recv.targets:
                    out = join(out, an.call_function(m, cn, fd, so, list(args), dict(kwargs)))
                return out
            return self.method_call(c, f.attr, recv, args, kwargs, splat)
        return A(UNK if any(rowish(v) for v in allv) else NR)

    def method_call(self, c, name, recv, args, kwargs, splat):
        an = self.an
        allv = list(args) + list(kwargs.values()) + splat
        if isinstance(recv, Obj):
            if recv.cls is not None:
                m = an.find_method(an.mods[recv.cls[0]], recv.cls[1], name)
                if m is not None and not splat:
                    return an.call_function(m[0], m[1], m[2], recv, args, kwargs)
            return A(UNK if any(rowish(v) for v in allv) or rowish(recv) else NR)
        if isinstance(recv, Lst):
            if name == "append" and len(args) == 1:
                recv.elem = join(recv.elem, args[0])
                return const(None)
            return A(UNK if rowish(recv) or any(rowish(v) for v in allv) else NR)
        if isinstance(recv, Dct):
            if name == "items":
                return Items(recv.elem if recv.elem is not None else A(NR))
            if name in ("keys",):
                return A(NR)
            if name == "get":
                return join(recv.elem if recv.elem is not None else A(NR), args[1] if len(args) > 1 else const(None))
            return A(UNK if rowish(recv) or any(rowish(v) for v in allv) else NR)
        if isinstance(recv, KwD):
            if name == "get" and args and isinstance(args[0], A) and args[0].c is not None:
                key = args[0].c[1]
                if key in recv.d:
                    return recv.d[key]
                return args[1] if len(args) > 1 else const(None)
            return A(UNK if rowish(recv) else NR)
        if isinstance(recv, GB):
            if name in ("size", "mean", "sum", "count", "ngroups"):
                return A(NR)
            return A(UNK)
        if isinstance(recv, (Tup, Items)):
            return A(UNK if rowish(recv) or any(rowish(v) for v in allv) else NR)
        k = kind(recv)
        if k == NR:
            if name in METH_SINK_ON_NR:
                return A(NR)
            if name == "get":
                return A(NR)
            if name in ("items", "keys", "values"):
                return A(NR)
            return A(UNK if any(rowish(v) for v in allv) else NR)
        if k == UNK:
            return A(UNK)
        # receiver is row data
        if any(kw == "inplace" for kw in kwargs):
            return A(UNK)
        if name in METH_STRIP:
            return self.strip_result([recv], name)
        if name in METH_AGG:
            return A(NR)
        if name == "groupby":
            return GB(k)
        if name in METH_SAME:
            if any(rowish(v) for v in allv):
                self.meet([k] + [kind(v) for v in allv])
                return A(kjoin(k, max((kind(v) for v in allv), key=lambda x: ORDER[x])))
            return A(k)
        if name == "combine" and len(args) >= 1:
            self.meet([k, kind(args[0])])
            return A(kjoin(k, kind(args[0])))
        if k == RAW and name == "get":
            return A(RAW)
        if k == RAW and name == "items":
            return Items(A(RAW))
        if k == RAW and name == "keys":
            return A(NR)
        return A(UNK)

    def pandas_ctor(self, c, origin, args, kwargs):
        """pd.Series / pd.DataFrame / pd.DataFrame.from_dict: index kind of the new object"""
        an = self.an
        names = ["data", "index"] if origin != "pandas.DataFrame.from_dict" else ["data"]
        vals = {}
        for n, v in zip(names, args):
            vals[n] = v
        if len(args) > len(names):
            return A(UNK) if any(rowish(v) for v in args) else A(NR)
        for k, v in kwargs.items():
            if k in ("data", "index"):
                vals[k] = v
            elif rowish(v):
                return A(UNK)
        data, index = vals.get("data"), vals.get("index")
        dk = kind(data) if data is not None else NR
        if isinstance(data, Lst) and rowish(data):
            dk = UNK if kind(data) != POS else POS
        ik = kind(index) if index is not None else None
        if dk == UNK or ik == UNK:
            an.note("wrap", UNK, ast.unparse(c)[:90])
        if ik is None or (ik == NR and dk == NR):
            res = {NR: NR, POS: DEF, DEF: DEF, LAB: LAB, RAW: RAW}[dk]
        elif ik == NR:
            res = LAB               # rows relabelled with labels the translator knows nothing about
        elif dk in (NR, POS):
            res = DEF if ik == DEF else LAB
        else:
            res = DEF if (dk == DEF and ik == DEF) else kjoin(LAB, kjoin(dk, ik) if kjoin(dk, ik) == RAW else LAB)
        if res != NR:
            an.note("wrap", res)
        return A(res)


def _load(t):
    t2 = ast.parse(ast.unparse(t), mode="eval").body
    ast.copy_location(t2, t)
    for n in ast.walk(t2):
        if not hasattr(n, "lineno"):
            n.lineno = getattr(t, "lineno", 0)
    return t2


# ------------------------------------------------------------------------------------------ roots
def _method(an, modkey, clsname, name):
    m = an.find_method(an.mods[modkey], clsname, name)
    if m is None:
        raise TranslateError(f"{FILES[modkey]}: {clsname}.{name} not found")
    return m


def _check_params(mod, fdef, data, other):
    a = fdef.args
    names = [p.arg for p in a.posonlyargs + a.args + a.kwonlyargs if p.arg != "self"]
    if a.kwarg is not None:
        names.append("**" + a.kwarg.arg)
    if a.vararg is not None:
        names.append("*" + a.vararg.arg)
    if sorted(names) != sorted(data + other):
        raise TranslateError(f"{mod.rel}:{fdef.lineno}: parameters of {fdef.name} are {names}, expected data "
                             f"parameters {data} and others {other}")


def _run_root(an, name, modkey, clsname, meth, data, other, prelude=()):
    an.root = name
    mod = an.mods[modkey]
    cdef = mod.classes.get(clsname)
    if cdef is None:
        raise TranslateError(f"{mod.rel}: class {clsname} not found")
    obj = Obj((modkey, clsname))
    if meth != "__init__":
        init = an.find_method(mod, clsname, "__init__")
        if init is not None:
            ia = init[2].args
            kw = {p.arg: A(NR) for p in ia.posonlyargs + ia.args + ia.kwonlyargs if p.arg != "self"}
            an.call_function(init[0], init[1], init[2], obj, [], kw)
    for pm, pdata, pother in prelude:
        m = _method(an, modkey, clsname, pm)
        _check_params(m[0], m[2], pdata, pother)
        kw = {p.lstrip("*"): A(RAW) for p in pdata if not p.startswith("**")}
        kw.update({p: A(NR) for p in pother if not p.startswith("**")})
        fr_kw = dict(kw)
        _call_root(an, m, obj, fr_kw, [p for p in pdata + pother if p.startswith("**")], pdata)
    m = _method(an, modkey, clsname, meth)
    _check_params(m[0], m[2], data, other)
    kw = {p: A(RAW) for p in data if not p.startswith("**")}
    kw.update({p: A(NR) for p in other if not p.startswith("**")})
    _call_root(an, m, obj, kw, [p for p in data + other if p.startswith("**")], data)


def _call_root(an, m, obj, kw, starred, data):
    """call with every parameter bound by keyword; a **kwargs parameter of a root holds arbitrary user data"""
    mod, clsname, fdef = m
    if starred:
        # bind **kwargs as RAW: done by analysing a copy of the function without the ** parameter
        import copy
        f2 = copy.deepcopy(fdef)
        kwname = f2.args.kwarg.arg
        f2.args.kwarg = None
        f2.args.kwonlyargs.append(ast.arg(arg=kwname))
        f2.args.kw_defaults.append(None)
        kw = dict(kw)
        kw[kwname] = A(RAW if ("**" + kwname) in data else NR)
        fdef = f2
    an.call_function(mod, clsname, fdef, obj, [], kw)


def _scan_tags(an):
    """every store that involves `.tags` anywhere in the two moment files must be a site of the analysed chain;
    self.tags is only read through a few methods"""
    for mk in ("moment", "utility_parity", "error_rate"):
        mod = an.mods[mk]
        for cd in mod.classes.values():
            for fd in [n for n in cd.body if isinstance(n, ast.FunctionDef)]:
                qual = cd.name + "." + fd.name
                for st in ast.walk(fd):
                    if isinstance(st, (ast.Assign, ast.AugAssign, ast.AnnAssign, ast.Delete)):
                        tg = st.targets if isinstance(st, (ast.Assign, ast.Delete)) else [st.target]
                        for t in tg:
                            for n in ast.walk(t):
                                if isinstance(n, ast.Attribute) and n.attr == "tags":
                                    if (mk, qual, st.lineno) not in an.sites:
                                        raise TranslateError(
                                            f"{mod.rel}:{st.lineno}: store to .tags outside the analysed load_data "
                                            f"chain: {ast.unparse(st)[:80]}")
                    if isinstance(st, ast.Call) and isinstance(st.func, ast.Attribute):
                        v = st.func.value
                        if isinstance(v, ast.Attribute) and v.attr == "tags" and \
                                st.func.attr not in READ_ONLY_TAG_METHODS:
                            raise TranslateError(f"{mod.rel}:{st.lineno}: self.tags.{st.func.attr}(...) is not a "
                                                 f"known read-only use")
                        if any(k.arg == "inplace" for k in st.keywords):
                            raise TranslateError(f"{mod.rel}:{st.lineno}: inplace= in a moment")


def analyse(repo):
    an = Analyzer(repo)
    _run_root(an, "MetricFrame", "metric_frame", "MetricFrame", "__init__",
              ["y_true", "y_pred", "sensitive_features", "control_features", "sample_params"],
              ["metrics", "n_boot", "ci_quantiles", "random_state"])
    up = an.mods["utility_parity"]
    loaders = sorted(cd.name for cd in up.classes.values()
                     if cd.name != "UtilityParity" and any(isinstance(n, ast.FunctionDef) and n.name == "load_data"
                                                           for n in cd.body))
    if loaders != sorted(PARITY_MOMENTS):
        raise TranslateError(f"{up.rel}: classes defining load_data are {loaders}, expected {sorted(PARITY_MOMENTS)}")
    for cn in PARITY_MOMENTS:
        _run_root(an, cn, "utility_parity", cn, "load_data",
                  ["X", "y", "sensitive_features", "control_features"], [])
    er = an.mods["error_rate"]
    loaders = sorted(cd.name for cd in er.classes.values()
                     if any(isinstance(n, ast.FunctionDef) and n.name == "load_data" for n in cd.body))
    if loaders != ["ErrorRate"]:
        raise TranslateError(f"{er.rel}: classes defining load_data are {loaders}, expected ['ErrorRate']")
    _run_root(an, "ErrorRate", "error_rate", "ErrorRate", "load_data",
              ["X", "y", "sensitive_features", "control_features"], [])
    _scan_tags(an)
    _run_root(an, "ThresholdOptimizer.fit", "threshold_optimizer", "ThresholdOptimizer", "fit",
              ["X", "y", "sensitive_features", "**kwargs"], [])
    _run_root(an, "InterpolatedThresholder._pmf_predict", "interpolated_thresholder", "InterpolatedThresholder",
              "_pmf_predict", ["X", "sensitive_features"], [],
              prelude=[("fit", ["X", "y", "**kwargs"], [])])
    return an


ENTRY_ORDER = ["MetricFrame"] + PARITY_MOMENTS + ["ErrorRate", "ThresholdOptimizer.fit",
                                                  "InterpolatedThresholder._pmf_predict"]
ROLE_ORDER = ["strip", "wrap", "store", "reindex", "align"]


def site_table(an):
    """[(name, 'Positional'|'Labelled', [entries], source text)] in a fixed order"""
    rows = []
    per_func = {}
    for (mk, qual, ln), s in an.sites.items():
        per_func.setdefault((mk, qual), []).append((ln, s))
    first_line = {}
    for (mk, qual), lst in per_func.items():
        first_line[(mk, qual)] = min(ln for ln, _ in lst)
    for (mk, qual) in sorted(per_func, key=lambda k: (MODULE_ORDER.index(k[0]), first_line[k], k[1])):
        for n, (ln, s) in enumerate(sorted(per_func[(mk, qual)], key=lambda x: x[0]), 1):
            if s["kind"] in (POS, DEF):
                kd = "Positional"
            elif s["kind"] in (LAB, RAW):
                kd = "Labelled"
            else:
                raise TranslateError(f"{FILES[mk]}:{ln}: site of kind {s['kind']}")
            roles = "+".join(r for r in ROLE_ORDER if r in s["roles"])
            rows.append((f"{qual}/{n}:{roles}", kd, [e for e in ENTRY_ORDER if e in s["entries"]],
                         f"{FILES[mk].split('/')[-1]}:{ln}  {s['src']}"))
    return rows


def _cstr(s):
    return '"' + s.replace('"', '""') + '"'


def _ccomment(s):
    return s.replace("(*", "( *").replace("*)", "* )").replace('"', "'")


def translate(repo: Path):
    an = analyse(repo)
    rows = site_table(an)
    out = [f"(* GENERATED by translators/t_ingest.py from {', '.join(FILES.values())} *)",
           "From Coq Require Import String List.",
           "From FL Require Import Ingest.",
           "Import ListNotations.",
           "Open Scope string_scope.",
           "",
           "(* assumptions of the classification:"]
    out += [f"   - {_ccomment(a)}" for a in ASSUMPTIONS]
    out += ["*)", "", "Definition entries : list string :=",
            "  [" + "; ".join(_cstr(e) for e in ENTRY_ORDER) + "].", "",
            "Definition sites : list site :="]
    body = []
    for name, kd, ents, src in rows:
        body.append(f"  (* {_ccomment(src)} *)\n"
                    f"  mk_site {_cstr(name)} {kd} [" + "; ".join(_cstr(e) for e in ents) + "]")
    out.append("  [\n" + ";\n".join(body) + "\n  ].")
    return {"Gen_ingest.v": "\n".join(out) + "\n"}


if __name__ == "__main__":
    import sys
    an_ = analyse(Path(sys.argv[1] if len(sys.argv) > 1 else "/repo"))
    for r in site_table(an_):
        print(f"{r[0]:58s} {r[1]:10s} {','.join(r[2])[:60]:60s} | {r[3]}")
