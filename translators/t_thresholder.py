"""t_thresholder: regenerate the pure kernels of the randomised predictors (C10).

From the CURRENT source it rebuilds, as Gallina over Q / ext:
  * ThresholdOperation.__call__            -> op_src      (which comparison each operator performs)
  * InterpolatedThresholder._pmf_predict   -> interp_src, ignore_src, cols_src (the arithmetic expressions)
  * InterpolatedThresholder.predict        -> draw_thr_src (comparison of the probability with rand())
  * ExponentiatedGradient.predict          -> draw_eg_src ; reg_probs_src (how choice's p= is indexed)
  * ExponentiatedGradient._pmf_predict     -> col_src, the weights_-indexed dot product (shape check)
Fail closed: any statement shape that is not recognised raises.
"""
import ast
from pathlib import Path

OUTPUTS = ["Gen_thresholder.v"]
SRC_OP = "fairlearn/postprocessing/_threshold_operation.py"
SRC_IT = "fairlearn/postprocessing/_interpolated_thresholder.py"
SRC_EG = "fairlearn/reductions/_exponentiated_gradient/exponentiated_gradient.py"


def _nodoc(body):
    return [s for s in body if not (isinstance(s, ast.Expr) and isinstance(s.value, ast.Constant)
                                    and isinstance(s.value.value, str))]


def _method(tree, cls, name):
    for n in tree.body:
        if isinstance(n, ast.ClassDef) and n.name == cls:
            for m in n.body:
                if isinstance(m, ast.FunctionDef) and m.name == name:
                    return m
    raise ValueError(f"{cls}.{name} not found")


def _arith(node, leaves):
    """Python arithmetic expression -> Gallina (Q).  leaves: {unparsed python sub-expression: Coq variable}."""
    src = ast.unparse(node)
    if src in leaves:
        return leaves[src]
    if isinstance(node, ast.Constant) and isinstance(node.value, (int, float)) and not isinstance(node.value, bool):
        v = node.value
        if float(v) != int(v):
            raise ValueError(f"non-integer constant {v!r}")
        return f"{int(v)}" if int(v) >= 0 else f"(-{-int(v)})"
    if isinstance(node, ast.BinOp):
        op = {ast.Add: "+", ast.Sub: "-", ast.Mult: "*"}.get(type(node.op))
        if op is None:
            raise ValueError(f"unsupported operator in {src!r}")
        return f"({_arith(node.left, leaves)} {op} {_arith(node.right, leaves)})"
    raise ValueError(f"unsupported expression {src!r}")


_EXT_CMP = {ast.Gt: "ext_ltb thr (Fin s)", ast.Lt: "ext_ltb (Fin s) thr",
            ast.GtE: "ext_leb thr (Fin s)", ast.LtE: "ext_leb (Fin s) thr"}
# p <op> u
_Q_CMP = {ast.GtE: "Qleb u p", ast.Gt: "Qltb u p", ast.LtE: "Qleb p u", ast.Lt: "Qltb p u"}


def _threshold_operation(repo):
    tree = ast.parse((repo / SRC_OP).read_text())
    init = _nodoc(_method(tree, "ThresholdOperation", "__init__").body)
    got = [ast.unparse(s) for s in init if isinstance(s, ast.Assign)]
    if got != ["self._operator = operator", "self._threshold = threshold"]:
        raise ValueError(f"ThresholdOperation.__init__: unexpected assignments {got}")
    call = _method(tree, "ThresholdOperation", "__call__")
    if [a.arg for a in call.args.args] != ["self", "y_hat"]:
        raise ValueError("ThresholdOperation.__call__: unexpected signature")
    body = _nodoc(call.body)
    if len(body) != 1 or not isinstance(body[0], ast.If):
        raise ValueError("ThresholdOperation.__call__: body is not a single if-chain")
    branches = {}
    node = body[0]
    while True:
        t = node.test
        if not (isinstance(t, ast.Compare) and ast.unparse(t.left) == "self._operator" and len(t.ops) == 1
                and isinstance(t.ops[0], ast.Eq) and isinstance(t.comparators[0], ast.Constant)):
            raise ValueError("ThresholdOperation.__call__: unexpected branch test " + ast.unparse(t))
        key = t.comparators[0].value
        if len(node.body) != 1 or not isinstance(node.body[0], ast.Return):
            raise ValueError("ThresholdOperation.__call__: branch is not a single return")
        r = node.body[0].value
        if not (isinstance(r, ast.Compare) and len(r.ops) == 1 and ast.unparse(r.left) == "y_hat"
                and ast.unparse(r.comparators[0]) == "self._threshold" and type(r.ops[0]) in _EXT_CMP):
            raise ValueError("ThresholdOperation.__call__: unexpected return " + ast.unparse(r))
        if key in branches:
            raise ValueError("duplicate operator branch")
        branches[key] = _EXT_CMP[type(r.ops[0])]
        if len(node.orelse) == 1 and isinstance(node.orelse[0], ast.If):
            node = node.orelse[0]
            continue
        if not (len(node.orelse) == 1 and isinstance(node.orelse[0], ast.Raise)):
            raise ValueError("ThresholdOperation.__call__: final else is not a raise")
        break
    if set(branches) != {">", "<"}:
        raise ValueError(f"ThresholdOperation.__call__: operators {sorted(branches)}")
    return (f"Definition op_src (o : opk) (thr : ext) (s : Q) : bool :=\n"
            f"  match o with OpGt => {branches['>']} | OpLt => {branches['<']} end.\n")


def _draw(ret, what):
    """return (positive_probs >= random_state.rand(len(positive_probs))) * 1"""
    v = ret.value
    if not (isinstance(v, ast.BinOp) and isinstance(v.op, ast.Mult) and ast.unparse(v.right) == "1"
            and isinstance(v.left, ast.Compare) and len(v.left.ops) == 1):
        raise ValueError(f"{what}: unexpected draw expression {ast.unparse(v)}")
    c = v.left
    l, r = ast.unparse(c.left), ast.unparse(c.comparators[0])
    rnd = "random_state.rand(len(positive_probs))"
    ops = dict(_Q_CMP)
    if l == "positive_probs" and r == rnd:
        pass
    elif l == rnd and r == "positive_probs":      # u <op> p : mirror
        ops = {ast.GtE: _Q_CMP[ast.LtE], ast.Gt: _Q_CMP[ast.Lt], ast.LtE: _Q_CMP[ast.GtE], ast.Lt: _Q_CMP[ast.Gt]}
    else:
        raise ValueError(f"{what}: unexpected operands in {ast.unparse(c)}")
    if type(c.ops[0]) not in ops:
        raise ValueError(f"{what}: unexpected comparison in {ast.unparse(c)}")
    return ops[type(c.ops[0])]


def _interpolated_thresholder(repo):
    tree = ast.parse((repo / SRC_IT).read_text())
    fn = _method(tree, "InterpolatedThresholder", "_pmf_predict")
    body = _nodoc(fn.body)
    srcs = [ast.unparse(s) for s in body]
    # 0 check_is_fitted, 1 base_predictions = ..., 2 validate tuple, 3 positive_probs = 0.0 * v, 4 for, 5 return
    if len(body) != 6 or not isinstance(body[4], ast.For) or not isinstance(body[5], ast.Return):
        raise ValueError("_pmf_predict: unexpected statement structure")
    if srcs[1] != "base_predictions = np.array(_get_soft_predictions(self.estimator_, X, self._predict_method))":
        raise ValueError("_pmf_predict: base_predictions: " + srcs[1])
    want2 = ("_, base_predictions_vector, sensitive_feature_vector, _ = _validate_and_reformat_input(X, "
             "y=base_predictions, sensitive_features=sensitive_features, expect_y=True, enforce_binary_labels=False)")
    if srcs[2] != want2:
        raise ValueError("_pmf_predict: validation call: " + srcs[2])
    if srcs[3] != "positive_probs = 0.0 * base_predictions_vector":
        raise ValueError("_pmf_predict: initialisation: " + srcs[3])
    loop = body[4]
    if ast.unparse(loop.target) != "(a, interpolation)" or ast.unparse(loop.iter) != "self.interpolation_dict.items()" \
            or loop.orelse:
        raise ValueError("_pmf_predict: loop header")
    lb = loop.body
    if len(lb) != 3 or not isinstance(lb[0], ast.Assign) or not isinstance(lb[1], ast.If) \
            or not isinstance(lb[2], ast.Assign):
        raise ValueError("_pmf_predict: loop body structure")
    if ast.unparse(lb[0].targets[0]) != "interpolated_predictions":
        raise ValueError("_pmf_predict: first assignment target")
    v = "base_predictions_vector"
    interp = _arith(lb[0].value, {"interpolation.p0": "a0", f"interpolation.operation0({v})": "b0",
                                  "interpolation.p1": "a1", f"interpolation.operation1({v})": "b1"})
    iff = lb[1]
    if ast.unparse(iff.test) != "'p_ignore' in interpolation" or iff.orelse or len(iff.body) != 1 \
            or not isinstance(iff.body[0], ast.Assign) \
            or ast.unparse(iff.body[0].targets[0]) != "interpolated_predictions":
        raise ValueError("_pmf_predict: p_ignore branch")
    ign = _arith(iff.body[0].value, {"interpolation.p_ignore": "pig", "interpolation.prediction_constant": "c",
                                     "interpolated_predictions": "x"})
    want = ("positive_probs[sensitive_feature_vector == a] = "
            "interpolated_predictions[sensitive_feature_vector == a]")
    if ast.unparse(lb[2]) != want:
        raise ValueError("_pmf_predict: group selection: " + ast.unparse(lb[2]))
    ret = body[5].value
    # np.array([e0, e1]).transpose()
    if not (isinstance(ret, ast.Call) and isinstance(ret.func, ast.Attribute) and ret.func.attr == "transpose"
            and not ret.args and isinstance(ret.func.value, ast.Call)
            and ast.unparse(ret.func.value.func) == "np.array" and len(ret.func.value.args) == 1
            and isinstance(ret.func.value.args[0], ast.List) and len(ret.func.value.args[0].elts) == 2):
        raise ValueError("_pmf_predict: return shape " + ast.unparse(ret))
    c0, c1 = (_arith(e, {"positive_probs": "p"}) for e in ret.func.value.args[0].elts)
    # predict
    pr = _nodoc(_method(tree, "InterpolatedThresholder", "predict").body)
    ps = [ast.unparse(s) for s in pr]
    if len(pr) != 4 or ps[1] != "random_state = check_random_state(random_state)" or \
            ps[2] != "positive_probs = self._pmf_predict(X, sensitive_features=sensitive_features)[:, 1]" \
            or not isinstance(pr[3], ast.Return):
        raise ValueError("InterpolatedThresholder.predict: unexpected statements")
    cmp_ = _draw(pr[3], "InterpolatedThresholder.predict")
    return (f"Definition interp_src (a0 b0 a1 b1 : Q) : Q := {interp}.\n"
            f"Definition ignore_src (pig c x : Q) : Q := {ign}.\n"
            f"Definition cols_src (p : Q) : Q * Q := ({c0}, {c1}).\n"
            f"Definition draw_thr_src (p u : Q) : Z := if {cmp_} then 1%Z else 0%Z.\n")


def _exponentiated_gradient(repo):
    tree = ast.parse((repo / SRC_EG).read_text())
    pr = _nodoc(_method(tree, "ExponentiatedGradient", "predict").body)
    ps = [ast.unparse(s) for s in pr]
    if len(pr) != 3 or ps[1] != "random_state = check_random_state(random_state)" or not isinstance(pr[2], ast.If):
        raise ValueError("ExponentiatedGradient.predict: unexpected statements")
    br = pr[2]
    if ast.unparse(br.test) != "isinstance(self.constraints, ClassificationMoment)":
        raise ValueError("ExponentiatedGradient.predict: branch test")
    cb = br.body
    if len(cb) != 2 or ast.unparse(cb[0]) != "positive_probs = self._pmf_predict(X)[:, 1]" \
            or not isinstance(cb[1], ast.Return):
        raise ValueError("ExponentiatedGradient.predict: classification branch")
    cmp_ = _draw(cb[1], "ExponentiatedGradient.predict")
    rb = [ast.unparse(s) for s in br.orelse]
    if len(rb) != 4 or rb[0] != "pred = self._pmf_predict(X)" or rb[1] != "randomized_pred = np.zeros(pred.shape[0])" \
            or rb[3] != "return randomized_pred" or not isinstance(br.orelse[2], ast.For):
        raise ValueError("ExponentiatedGradient.predict: regression branch")
    loop = br.orelse[2]
    if ast.unparse(loop.target) != "i" or ast.unparse(loop.iter) != "range(pred.shape[0])" or len(loop.body) != 1:
        raise ValueError("ExponentiatedGradient.predict: regression loop")
    st = ast.unparse(loop.body[0])
    aligned = "randomized_pred[i] = random_state.choice(pred.iloc[i, :], p=self.weights_[pred.columns])"
    positional = "randomized_pred[i] = random_state.choice(pred.iloc[i, :], p=self.weights_)"
    if st == aligned:
        probs = "reg_probs Qw outs"
    elif st == positional:
        probs = "map snd Qw"
    else:
        raise ValueError("ExponentiatedGradient.predict: choice call: " + st)
    # _pmf_predict
    pm = _nodoc(_method(tree, "ExponentiatedGradient", "_pmf_predict").body)
    pmsrc = [ast.unparse(s) for s in pm]
    want = ["check_is_fitted(self)", "pred = pd.DataFrame()",
            "for t in range(len(self._hs)):\n    if self.weights_[t] == 0:\n        pred[t] = np.zeros(len(X))\n"
            "    else:\n        pred[t] = self._hs[t](X)",
            "if isinstance(self.constraints, ClassificationMoment):\n"
            "    positive_probs = pred[self.weights_.index].dot(self.weights_).to_frame()\n"
            "    return np.concatenate((1 - positive_probs, positive_probs), axis=1)\nelse:\n    return pred"]
    if pmsrc != want:
        k = next(i for i, (a, b) in enumerate(zip(pmsrc + [""] * 4, want)) if a != b)
        raise ValueError("ExponentiatedGradient._pmf_predict: statement %d is %r" % (k, pmsrc[k] if k < len(pmsrc) else None))
    return (f"Definition draw_eg_src (p u : Q) : Z := if {cmp_} then 1%Z else 0%Z.\n"
            f"Definition reg_probs_src (Qw : weights) (outs : list Q) : list Q := {probs}.\n"
            "(* _pmf_predict: column t = zeros when weights_[t] == 0 else h_t(X); positive = pred[weights_.index].dot(weights_) *)\n"
            "Definition col_src (Qw : weights) (outs : list Q) (t : nat) : Q :=\n"
            "  if Qeqb (weight_of Qw t) 0 then 0 else nth t outs 0.\n"
            "Definition pmf_eg_src (Qw : weights) (outs : list Q) : Q :=\n"
            "  qsum (map (fun tw => col_src Qw outs (fst tw) * snd tw) Qw).\n")


def translate(repo: Path):
    repo = Path(repo)
    text = ("(* GENERATED by translators/t_thresholder.py from " + ", ".join([SRC_OP, SRC_IT, SRC_EG])
            + " -- do not edit *)\n"
            "From Coq Require Import QArith ZArith List.\nFrom FL Require Import Num Thresholder.\n"
            "Import ListNotations.\nOpen Scope Q_scope.\n")
    text += _threshold_operation(repo)
    text += _interpolated_thresholder(repo)
    text += _exponentiated_gradient(repo)
    return {"Gen_thresholder.v": text}
