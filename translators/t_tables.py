"""t_tables: regenerate the constraint / objective tables of ThresholdOptimizer (C20) and check,
fail closed, that ThresholdOptimizer.fit consults them in the recognised if / elif chain before
any data is processed (estimator None, combination tables, control-feature refusal,
_validate_and_reformat_input(..., enforce_binary_labels=True))."""
import ast
from pathlib import Path

OUTPUTS = ["Gen_tables.v"]
SRC = "fairlearn/postprocessing/_threshold_optimizer.py"
T_SIMPLE, T_OBJ_SIMPLE, T_OBJ_EO = ("SIMPLE_CONSTRAINTS", "OBJECTIVES_FOR_SIMPLE_CONSTRAINTS",
                                    "OBJECTIVES_FOR_EQUALIZED_ODDS")


def _str(node, what):
    if isinstance(node, ast.Constant) and isinstance(node.value, str):
        return node.value
    raise ValueError(f"{what}: not a string literal at line {getattr(node, 'lineno', '?')}")


def _zs(s):
    return "[" + "; ".join(str(ord(c)) for c in s) + "]"


def _is_raise_only(body, what):
    if not (len(body) == 1 and isinstance(body[0], ast.Raise) and body[0].exc is not None):
        raise ValueError(f"{what}: body is not a single raise")


def _strip_doc(body):
    if body and isinstance(body[0], ast.Expr) and isinstance(body[0].value, ast.Constant) \
            and isinstance(body[0].value.value, str):
        return body[1:]
    return body


def translate(repo: Path):
    tree = ast.parse((Path(repo) / SRC).read_text())
    tables = {}
    for n in tree.body:
        if isinstance(n, ast.Assign) and len(n.targets) == 1 and isinstance(n.targets[0], ast.Name) \
                and n.targets[0].id in (T_SIMPLE, T_OBJ_SIMPLE, T_OBJ_EO):
            name = n.targets[0].id
            if name in tables:
                raise ValueError(f"{name} assigned more than once")
            if name == T_SIMPLE:
                if not isinstance(n.value, ast.Dict) or any(k is None for k in n.value.keys):
                    raise ValueError(f"{name} is not a plain dict literal")
                keys = [_str(k, name) for k in n.value.keys]
                vals = [_str(v, name) for v in n.value.values]
                if len(set(keys)) != len(keys):
                    raise ValueError(f"{name}: duplicate key")
                tables[name] = sorted(zip(keys, vals))
            else:
                if not isinstance(n.value, ast.Set):
                    raise ValueError(f"{name} is not a set literal")
                tables[name] = sorted({_str(e, name) for e in n.value.elts})
    for name in (T_SIMPLE, T_OBJ_SIMPLE, T_OBJ_EO):
        if name not in tables:
            raise ValueError(f"{name} not found at module level")
    # no other binding or mutation of the tables anywhere in the module
    for node in ast.walk(tree):
        if isinstance(node, ast.Name) and node.id in tables and not isinstance(node.ctx, ast.Load):
            if not (isinstance(node.ctx, ast.Store) and any(
                    isinstance(a, ast.Assign) and a.targets[0] is node for a in tree.body)):
                raise ValueError(f"{node.id} is rebound or deleted at line {node.lineno}")
        if isinstance(node, ast.Attribute) and isinstance(node.value, ast.Name) and node.value.id in tables \
                and node.attr not in ("keys", "values", "items", "get"):
            raise ValueError(f"{node.value.id}.{node.attr} used at line {node.lineno}")
        if isinstance(node, (ast.Subscript,)) and isinstance(node.value, ast.Name) and node.value.id in tables \
                and not isinstance(node.ctx, ast.Load):
            raise ValueError(f"{node.value.id}[...] assigned at line {node.lineno}")
        if isinstance(node, (ast.Global, ast.Nonlocal)) and any(x in tables for x in node.names):
            raise ValueError("table declared global")
        if isinstance(node, ast.AugAssign) and isinstance(node.target, ast.Name) and node.target.id in tables:
            raise ValueError(f"{node.target.id} augmented at line {node.lineno}")

    cls = next((n for n in tree.body if isinstance(n, ast.ClassDef) and n.name == "ThresholdOptimizer"), None)
    if cls is None:
        raise ValueError("class ThresholdOptimizer not found")
    fit = next((n for n in cls.body if isinstance(n, ast.FunctionDef) and n.name == "fit"), None)
    if fit is None:
        raise ValueError("ThresholdOptimizer.fit not found")
    a = fit.args
    if [x.arg for x in a.args] != ["self", "X", "y"] or [x.arg for x in a.kwonlyargs] != ["sensitive_features"] \
            or a.kwarg is None or a.vararg is not None or any(d is not None for d in a.kw_defaults):
        raise ValueError("fit: unexpected signature")
    kw = a.kwarg.arg
    body = _strip_doc(fit.body)
    if len(body) < 5:
        raise ValueError("fit: too few statements")
    # 1. if self.estimator is None: raise
    s0 = body[0]
    if not (isinstance(s0, ast.If) and ast.unparse(s0.test) == "self.estimator is None" and not s0.orelse):
        raise ValueError("fit: first statement is not the estimator-None guard")
    _is_raise_only(s0.body, "estimator guard")
    # 2. the combination chain
    s1 = body[1]
    if not (isinstance(s1, ast.If) and ast.unparse(s1.test) == f"self.constraints in {T_SIMPLE}"):
        raise ValueError("fit: second statement is not `if self.constraints in SIMPLE_CONSTRAINTS`")
    inner = s1.body
    if not (len(inner) == 1 and isinstance(inner[0], ast.If) and not inner[0].orelse
            and ast.unparse(inner[0].test) == f"self.objective not in {T_OBJ_SIMPLE}"):
        raise ValueError("fit: simple-constraint branch does not test the objective table")
    _is_raise_only(inner[0].body, "simple-constraint objective test")
    if not (len(s1.orelse) == 1 and isinstance(s1.orelse[0], ast.If)):
        raise ValueError("fit: missing elif branch")
    s1b = s1.orelse[0]
    t = s1b.test
    if not (isinstance(t, ast.Compare) and len(t.ops) == 1 and isinstance(t.ops[0], ast.Eq)
            and ast.unparse(t.left) == "self.constraints"):
        raise ValueError("fit: elif is not `self.constraints == <string>`")
    eo = _str(t.comparators[0], "elif comparator")
    inner = s1b.body
    if not (len(inner) == 1 and isinstance(inner[0], ast.If) and not inner[0].orelse
            and ast.unparse(inner[0].test) == f"self.objective not in {T_OBJ_EO}"):
        raise ValueError("fit: equalized-odds branch does not test its objective table")
    _is_raise_only(inner[0].body, "equalized-odds objective test")
    _is_raise_only(s1b.orelse, "else branch of the constraint chain")
    # 3. self._predict_method = self.predict_method   (no data touched)
    if ast.unparse(body[2]) != "self._predict_method = self.predict_method":
        raise ValueError("fit: unexpected third statement")
    # 4. control features refused
    s3 = body[3]
    if not (isinstance(s3, ast.If) and not s3.orelse
            and ast.unparse(s3.test) == f"{kw}.get(_KW_CONTROL_FEATURES) is not None"):
        raise ValueError("fit: fourth statement is not the control-feature refusal")
    _is_raise_only(s3.body, "control-feature refusal")
    # 5. shared validation with binary labels enforced
    s4 = body[4]
    if not (isinstance(s4, ast.Assign) and isinstance(s4.value, ast.Call)
            and ast.unparse(s4.value.func) == "_validate_and_reformat_input"):
        raise ValueError("fit: fifth statement is not the _validate_and_reformat_input call")
    call = s4.value
    if [ast.unparse(x) for x in call.args] != ["X", "y"]:
        raise ValueError("fit: validation call does not receive (X, y)")
    kws = {k.arg: ast.unparse(k.value) for k in call.keywords}
    if kws != {"sensitive_features": "sensitive_features", "enforce_binary_labels": "True"}:
        raise ValueError(f"fit: validation call keywords are {kws}")

    simple = tables[T_SIMPLE]
    text = ("(* GENERATED by translators/t_tables.py from " + SRC + " -- do not edit *)\n"
            "From Coq Require Import ZArith List.\nImport ListNotations.\nOpen Scope Z_scope.\n"
            "(* SIMPLE_CONSTRAINTS: (constraint, metric), keys in lexicographic order *)\n"
            "Definition simple_constraints : list (list Z * list Z) :=\n  ["
            + ";\n   ".join(f"({_zs(k)}, {_zs(v)})" for k, v in simple) + "].\n"
            "(* OBJECTIVES_FOR_SIMPLE_CONSTRAINTS *)\n"
            "Definition objectives_simple : list (list Z) :=\n  ["
            + ";\n   ".join(_zs(x) for x in tables[T_OBJ_SIMPLE]) + "].\n"
            "(* the string of the elif branch *)\n"
            f"Definition eo_name : list Z := {_zs(eo)}.\n"
            "(* OBJECTIVES_FOR_EQUALIZED_ODDS *)\n"
            "Definition objectives_eo : list (list Z) :=\n  ["
            + ";\n   ".join(_zs(x) for x in tables[T_OBJ_EO]) + "].\n")
    return {"Gen_tables.v": text}
