"""t_aggregates: regenerate DisaggregatedResult.apply_grouping / difference / ratio (C02) as Coq functions over the
table vocabulary of FL.Aggregates, by partial evaluation of the three method bodies for every valid combination of
(control features present?, errors, method).  Fail closed: any statement, pandas method, keyword or expression that is
not in the small vocabulary below raises.

Vocabulary (pandas expression -> Coq, `c_` = one metric column without control features, `t_` = rows keyed by control
level):   self.by_group, self.overall, local names;   X.apply(lambda x: x.apply(lambda y: <filter>)) -> c_filter/t_filter;
X.agg(<fn>, axis=0) | X.groupby(level=control_feature_names).agg(<fn>) | X.max() | X.min() |
X.groupby(level=control_feature_names).max()/.min() -> c_agg/t_agg <fn> <skipna>;   X - Y -> c_sub/t_sub;
X / Y -> c_div/t_div/ext_div;   X.abs() -> c_abs/t_abs;   X.apply(lambda x: x.transform(ratio_sub_one)) -> c_map/t_map;
A.unstack(level=control_feature_names) / B.unstack(level=control_feature_names) ... .min().unstack(0) (control features
only);   self.apply_grouping("min"|"max", control_feature_names, errors=errors).
Filter expressions: y, np.nan, ints, `a if c else b`, and / or / not, np.isscalar(y), isinstance(y, float|int)."""
import ast
from pathlib import Path

OUTPUTS = ["Gen_aggregates.v"]
SRC = "fairlearn/metrics/_disaggregated_result.py"
SRC_MF = "fairlearn/metrics/_metric_frame.py"

AGG = {"min": "AggMin", "max": "AggMax"}
ERR = {"raise": "ErrRaise", "coerce": "ErrCoerce"}
METH = {"between_groups": "BetweenGroups", "to_overall": "ToOverall"}
CFN = "control_feature_names"


class Unsupported(ValueError):
    pass


def _bad(node, what):
    raise Unsupported(f"{what} at line {getattr(node, 'lineno', '?')}: {ast.unparse(node)[:100]}")


# ------------------------------------------------------------------------------------------------
# filter lambdas (python values -> python values)
# ------------------------------------------------------------------------------------------------
def _is_nan_expr(e):
    s = ast.unparse(e)
    return s in ("np.nan", "numpy.nan", "math.nan", "np.NaN", "float('nan')", 'float("nan")')


def _filter_expr(e, var):
    if isinstance(e, ast.Name) and e.id == var:
        return var
    if _is_nan_expr(e):
        return "py_nan"
    if isinstance(e, ast.Constant) and type(e.value) is int:
        return f"(PyInt ({e.value}))"
    if isinstance(e, ast.Constant) and type(e.value) is bool:
        return f"(PyBool {'true' if e.value else 'false'})"
    if isinstance(e, ast.IfExp):
        return (f"(if py_truth {_filter_expr(e.test, var)} then {_filter_expr(e.body, var)} "
                f"else {_filter_expr(e.orelse, var)})")
    if isinstance(e, ast.BoolOp):
        op = "py_and" if isinstance(e.op, ast.And) else "py_or"
        acc = _filter_expr(e.values[0], var)
        for v in e.values[1:]:
            acc = f"({op} {acc} {_filter_expr(v, var)})"
        return acc
    if isinstance(e, ast.UnaryOp) and isinstance(e.op, ast.Not):
        return f"(py_not {_filter_expr(e.operand, var)})"
    if isinstance(e, ast.Call) and not e.keywords:
        fn = ast.unparse(e.func)
        if fn in ("np.isscalar", "numpy.isscalar") and len(e.args) == 1:
            return f"(py_isscalar {_filter_expr(e.args[0], var)})"
        if fn == "isinstance" and len(e.args) == 2 and isinstance(e.args[1], ast.Name):
            if e.args[1].id == "float":
                return f"(py_isinstance_float {_filter_expr(e.args[0], var)})"
            if e.args[1].id == "int":
                return f"(py_isinstance_int {_filter_expr(e.args[0], var)})"
    _bad(e, "filter: unsupported expression")


def _single_arg_lambda(node):
    if not isinstance(node, ast.Lambda):
        return None
    a = node.args
    if len(a.args) != 1 or a.vararg or a.kwarg or a.kwonlyargs or a.defaults or a.posonlyargs:
        return None
    return a.args[0].arg, node.body


# ------------------------------------------------------------------------------------------------
# table expressions
# ------------------------------------------------------------------------------------------------
class Ctx:
    """one partial evaluation: cf = control features present, concrete errors / method strings"""

    def __init__(self, fname, cf, errors, method, filters, consts):
        self.fname, self.cf, self.errors, self.method = fname, cf, errors, method
        self.filters = filters          # shared: (fname, lineno) -> (name, text)
        self.consts = consts
        self.env = {}
        self.p = "t_" if cf else "c_"
        self.k = " keqb" if cf else ""


def _num(t):
    term, ty = t
    if ty == "py":
        return term_num(term), "rows"
    return t


def term_num(term):
    return f"(NUM {term})"


def _skipna(call, allowed=()):
    sk = "true"
    for kw in call.keywords:
        if kw.arg == "skipna" and isinstance(kw.value, ast.Constant) and type(kw.value.value) is bool:
            sk = "true" if kw.value.value else "false"
        elif kw.arg in allowed:
            continue
        else:
            _bad(call, "unsupported keyword")
    return sk


def _is_cf_groupby(node):
    """X.groupby(level=control_feature_names) -> X, else None"""
    if isinstance(node, ast.Call) and isinstance(node.func, ast.Attribute) and node.func.attr == "groupby" \
            and not node.args and len(node.keywords) == 1 and node.keywords[0].arg == "level" \
            and isinstance(node.keywords[0].value, ast.Name) and node.keywords[0].value.id == CFN:
        return node.func.value
    return None


def _aggname(c, node):
    if isinstance(node, ast.Constant) and node.value in AGG:
        return AGG[node.value]
    if isinstance(node, ast.Name) and node.id == "grouping_function" and c.fname == "apply_grouping":
        return "grouping_function"
    _bad(node, "unsupported grouping function")


def _reduce(c, call, recv, fn, sk):
    """reduction of the rows `recv` over the sensitive groups (per control level when c.cf)"""
    if c.cf:
        inner = _is_cf_groupby(recv)
        if inner is None:
            x = _expr(c, recv)
            if x[1] == "urows":          # unstacked: one column per control level, plain .min()/.max()
                return f"(t_agg keqb {fn} {sk} {x[0]})", "ured"
            _bad(call, "reduction without groupby(level=control_feature_names) although control features are present")
        x = _num(_expr(c, inner))
        if x[1] != "rows":
            _bad(call, "groupby on something that is not the by_group rows")
        return f"(t_agg keqb {fn} {sk} {x[0]})", "red"
    if _is_cf_groupby(recv) is not None:
        _bad(call, "groupby over control features although there are none")
    x = _num(_expr(c, recv))
    if x[1] != "rows":
        _bad(call, "reduction of something that is not the by_group rows")
    return f"(c_agg {fn} {sk} {x[0]})", "red"


def _expr(c, e):
    if isinstance(e, ast.Name):
        if e.id in c.env:
            v = c.env[e.id]
            if v is None:
                _bad(e, "use of a variable holding None")
            return v
        _bad(e, "unknown name")
    if isinstance(e, ast.Attribute) and isinstance(e.value, ast.Name) and e.value.id == "self":
        if e.attr == "by_group":
            return "by_group", "py"
        if e.attr == "overall":
            return "overall", "red"
        _bad(e, "unknown attribute of self")
    if isinstance(e, ast.BinOp) and isinstance(e.op, (ast.Sub, ast.Div)):
        op = "sub" if isinstance(e.op, ast.Sub) else "div"
        a, b = _num(_expr(c, e.left)), _num(_expr(c, e.right))
        if a[1] == "rows" and b[1] == "red":
            return f"({c.p}{op}{c.k} {a[0]} {b[0]})", "rows"
        if a[1] == "urows" and b[1] == "ured" and op == "div":
            return f"(t_div keqb {a[0]} {b[0]})", "urows"
        if a[1] == "red" and b[1] == "red" and op == "div":
            return (f"(t_div keqb {a[0]} {b[0]})" if c.cf else f"(ext_div {a[0]} {b[0]})"), "red"
        _bad(e, f"unsupported operand kinds {a[1]} {op} {b[1]}")
    if isinstance(e, ast.Call) and isinstance(e.func, ast.Attribute):
        recv, meth = e.func.value, e.func.attr
        # self.apply_grouping("min", control_feature_names, errors=errors)
        if isinstance(recv, ast.Name) and recv.id == "self" and meth == "apply_grouping":
            if c.fname == "apply_grouping":
                _bad(e, "recursive apply_grouping")
            if len(e.args) != 2 or not isinstance(e.args[0], ast.Constant) or e.args[0].value not in AGG \
                    or not (isinstance(e.args[1], ast.Name) and e.args[1].id == CFN) \
                    or len(e.keywords) != 1 or e.keywords[0].arg != "errors" \
                    or not (isinstance(e.keywords[0].value, ast.Name) and e.keywords[0].value.id == "errors"):
                _bad(e, "unsupported apply_grouping call")
            fn = "apply_grouping_cf keqb" if c.cf else "apply_grouping_nocf"
            return f"({fn} {AGG[e.args[0].value]} {ERR[c.errors]} by_group)", "red"
        if meth == "apply" and len(e.args) == 1 and not e.keywords:
            outer = _single_arg_lambda(e.args[0])
            if outer is None:
                _bad(e, "apply of something that is not a one-argument lambda")
            col, body = outer
            if not (isinstance(body, ast.Call) and isinstance(body.func, ast.Attribute)
                    and isinstance(body.func.value, ast.Name) and body.func.value.id == col
                    and len(body.args) == 1 and not body.keywords):
                _bad(e, "unsupported column lambda")
            x = _expr(c, recv)
            if body.func.attr == "apply":          # cell filter
                inner = _single_arg_lambda(body.args[0])
                if inner is None:
                    _bad(e, "cell filter is not a one-argument lambda")
                if x[1] != "py":
                    _bad(e, "cell filter applied to something that is not by_group")
                key = (c.fname, body.args[0].lineno, body.args[0].col_offset)
                if key not in c.filters:
                    var, fbody = inner
                    k = 1 + sum(1 for kk in c.filters if kk[0] == c.fname)
                    name = f"filter_{c.fname}_{k}"
                    text = (f"(* {ast.unparse(body.args[0])} *)\n"
                            f"Definition {name} (y : pycell) : pycell :=\n  {_filter_expr(_rename(fbody, var), 'y')}.\n")
                    c.filters[key] = (name, text)
                return f"({c.p}filter {c.filters[key][0]} {x[0]})", "py"
            if body.func.attr == "transform":      # element-wise fold of the ratios
                if not (isinstance(body.args[0], ast.Name) and body.args[0].id == "ratio_sub_one"
                        and c.env.get("ratio_sub_one") == ("ratio_sub_one", "fold")):
                    _bad(e, "transform of something that is not ratio_sub_one")
                x = _num(x)
                if x[1] not in ("rows", "urows"):
                    _bad(e, "transform applied to something that is not a table of ratios")
                return f"({c.p}map ratio_sub_one {x[0]})", x[1]
            _bad(e, "unsupported column lambda")
        if meth == "abs" and not e.args and not e.keywords:
            x = _num(_expr(c, recv))
            if x[1] != "rows":
                _bad(e, "abs of something that is not the rows")
            return f"({c.p}abs {x[0]})", "rows"
        if meth == "agg":
            sk = _skipna(e, allowed=("axis",))
            for kw in e.keywords:
                if kw.arg == "axis" and not (isinstance(kw.value, ast.Constant) and kw.value.value == 0):
                    _bad(e, "agg over an axis other than 0")
            if len(e.args) != 1:
                _bad(e, "unsupported agg call")
            return _reduce(c, e, recv, _aggname(c, e.args[0]), sk)
        if meth in ("min", "max") and not e.args:
            return _reduce(c, e, recv, AGG[meth], _skipna(e))
        if meth == "unstack":
            if not c.cf:
                _bad(e, "unstack although there are no control features")
            if not e.args and len(e.keywords) == 1 and e.keywords[0].arg == "level" \
                    and isinstance(e.keywords[0].value, ast.Name) and e.keywords[0].value.id == CFN:
                x = _num(_expr(c, recv))
                if x[1] == "rows":
                    return x[0], "urows"
                if x[1] == "red":
                    return x[0], "ured"
                _bad(e, "unstack of an unstacked table")
            if len(e.args) == 1 and not e.keywords and isinstance(e.args[0], ast.Constant) and e.args[0].value == 0:
                x = _expr(c, recv)
                if x[1] != "ured":
                    _bad(e, "unstack(0) of something that is not the reduced unstacked table")
                return x[0], "red"
            _bad(e, "unsupported unstack call")
    _bad(e, "unsupported expression")


def _rename(node, var):
    """rename the lambda variable to y"""
    class R(ast.NodeTransformer):
        def visit_Name(self, n):
            if n.id == var:
                return ast.copy_location(ast.Name(id="y", ctx=n.ctx), n)
            if n.id == "y":
                raise Unsupported("filter: free name y")
            return n
    import copy
    return R().visit(copy.deepcopy(node))


# ------------------------------------------------------------------------------------------------
# statements: concrete evaluation of the tests on control_feature_names / errors / method
# ------------------------------------------------------------------------------------------------
def _test(c, t):
    """value of a test under this context (True / False)"""
    if isinstance(t, ast.UnaryOp) and isinstance(t.op, ast.Not):
        return not _test(c, t.operand)
    if isinstance(t, ast.Name) and t.id == CFN:
        return c.cf
    if isinstance(t, ast.Compare) and len(t.ops) == 1 and len(t.comparators) == 1:
        l, op, r = t.left, t.ops[0], t.comparators[0]
        if isinstance(l, ast.Name) and l.id == CFN and isinstance(r, ast.Constant) and r.value is None:
            if isinstance(op, ast.Is):
                return not c.cf
            if isinstance(op, ast.IsNot):
                return c.cf
        val = {"errors": c.errors, "method": c.method}
        if c.fname == "apply_grouping":
            val["grouping_function"] = "min"        # membership test only; the value stays symbolic elsewhere
        if isinstance(l, ast.Name) and l.id in val and val[l.id] is not None:
            if isinstance(r, ast.Constant) and isinstance(r.value, str):
                if isinstance(op, ast.Eq):
                    if l.id == "grouping_function":
                        _bad(t, "branch on the grouping function")
                    return val[l.id] == r.value
                if isinstance(op, ast.NotEq):
                    if l.id == "grouping_function":
                        _bad(t, "branch on the grouping function")
                    return val[l.id] != r.value
            if isinstance(r, ast.Name) and r.id in c.consts and isinstance(op, (ast.In, ast.NotIn)):
                if l.id == "grouping_function":
                    if c.consts[r.id] != ["min", "max"]:
                        _bad(t, "grouping functions are not exactly ['min', 'max']")
                    return isinstance(op, ast.In)
                inside = val[l.id] in c.consts[r.id]
                return inside if isinstance(op, ast.In) else not inside
    _bad(t, "unsupported test")


class _Return(Exception):
    def __init__(self, value):
        self.value = value


def _only_raises(handlers):
    return all(len(h.body) == 1 and isinstance(h.body[0], ast.Raise) for h in handlers)


def _run(c, body):
    for s in body:
        if isinstance(s, ast.Expr) and isinstance(s.value, ast.Constant):
            continue
        if isinstance(s, ast.Assert):
            continue
        if isinstance(s, ast.FunctionDef):
            if s.name != "ratio_sub_one" or c.fname != "ratio":
                _bad(s, "unexpected nested function")
            c.env["ratio_sub_one"] = ("ratio_sub_one", "fold")      # body: translators/t_ratio.py
            continue
        if isinstance(s, ast.If):
            _run(c, s.body if _test(c, s.test) else s.orelse)
            continue
        if isinstance(s, ast.Try):
            if s.orelse or s.finalbody or not _only_raises(s.handlers):
                _bad(s, "unsupported try statement")
            _run(c, s.body)
            continue
        if isinstance(s, ast.Raise):
            _bad(s, "a raise statement is reached for valid arguments")
        if isinstance(s, ast.Assign) and len(s.targets) == 1 and isinstance(s.targets[0], ast.Name):
            if isinstance(s.value, ast.Constant) and s.value.value is None:
                c.env[s.targets[0].id] = None
            else:
                c.env[s.targets[0].id] = _expr(c, s.value)
            continue
        if isinstance(s, ast.Return):
            raise _Return(_expr(c, s.value))
        _bad(s, "unsupported statement")


def _eval(fn, cf, errors, method, filters, consts):
    c = Ctx(fn.name, cf, errors, method, filters, consts)
    try:
        _run(c, fn.body)
    except _Return as r:
        term, ty = r.value
        if ty != "red":
            raise Unsupported(f"{fn.name}: result is not one value per control level (kind {ty})")
        return term
    raise Unsupported(f"{fn.name}: no return reached (cf={cf}, errors={errors}, method={method})")


def _sig(fn, want):
    a = fn.args
    names = [x.arg for x in a.args]
    if names != want or a.vararg or a.kwarg or a.kwonlyargs or a.posonlyargs:
        raise Unsupported(f"{fn.name}: unexpected signature {names}")


def _list_const(tree, name):
    for n in tree.body:
        if isinstance(n, ast.Assign) and len(n.targets) == 1 and isinstance(n.targets[0], ast.Name) \
                and n.targets[0].id == name and isinstance(n.value, ast.List) \
                and all(isinstance(x, ast.Constant) and isinstance(x.value, str) for x in n.value.elts):
            return [x.value for x in n.value.elts]
    raise Unsupported(f"module constant {name} is not a list of strings")


def _metric_frame_side(repo):
    """_populate_results: which grouping function backs group_min / group_max, and how the methods are called"""
    tree = ast.parse((Path(repo) / SRC_MF).read_text())
    cls = next((n for n in tree.body if isinstance(n, ast.ClassDef) and n.name == "MetricFrame"), None)
    if cls is None:
        raise Unsupported("class MetricFrame not found")
    fns = {n.name: n for n in cls.body if isinstance(n, ast.FunctionDef)}
    for nm in ("_populate_results", "_group"):
        if nm not in fns:
            raise Unsupported(f"MetricFrame.{nm} not found")
    pop = fns["_populate_results"]
    gf = None
    for n in ast.walk(pop):
        if isinstance(n, ast.Assign) and len(n.targets) == 1 and isinstance(n.targets[0], ast.Name) \
                and n.targets[0].id == "group_functions" and isinstance(n.value, ast.Dict):
            gf = {}
            for k, v in zip(n.value.keys, n.value.values):
                if not (isinstance(k, ast.Constant) and isinstance(v, ast.Constant) and v.value in AGG):
                    _bad(n, "unsupported group_functions entry")
                gf[k.value] = AGG[v.value]
    if gf is None or sorted(gf) != ["group_max", "group_min"]:
        raise Unsupported("_populate_results: group_functions is not a dict with keys group_min, group_max")
    src = ast.unparse(pop)
    for needle in ("for k, v in group_functions.items():",
                   "self._result_cache[k][err_string] = self._group(raw_result, v, err_string)",
                   "tmp = raw_result.difference(self.control_levels, method=c_m, errors=err_string)",
                   "tmp = raw_result.ratio(self.control_levels, method=c_m, errors=err_string)",
                   "for c_t in ['difference', 'ratio']:", "if c_t == 'difference':",
                   "result = self._none_to_nan(tmp)"):
        if needle not in src:
            raise Unsupported(f"_populate_results: expected statement not found: {needle}")
    gsrc = ast.unparse(fns["_group"])
    needle = "result = disagg_result.apply_grouping(grouping_function, self.control_levels, errors=errors)"
    if needle not in gsrc:
        raise Unsupported(f"_group: expected statement not found: {needle}")
    return gf


def translate(repo: Path):
    tree = ast.parse((Path(repo) / SRC).read_text())
    consts = {nm: _list_const(tree, nm) for nm in ("_VALID_ERROR_STRING", "_VALID_GROUPING_FUNCTION")}
    if sorted(consts["_VALID_ERROR_STRING"]) != ["coerce", "raise"]:
        raise Unsupported("_VALID_ERROR_STRING is not ['raise', 'coerce']")
    if sorted(consts["_VALID_GROUPING_FUNCTION"]) != ["max", "min"]:
        raise Unsupported("_VALID_GROUPING_FUNCTION is not ['min', 'max']")
    cls = next((n for n in tree.body if isinstance(n, ast.ClassDef) and n.name == "DisaggregatedResult"), None)
    if cls is None:
        raise Unsupported("class DisaggregatedResult not found")
    fns = {n.name: n for n in cls.body if isinstance(n, ast.FunctionDef)}
    for nm in ("apply_grouping", "difference", "ratio"):
        if nm not in fns:
            raise Unsupported(f"DisaggregatedResult.{nm} not found")
    _sig(fns["apply_grouping"], ["self", "grouping_function", CFN, "errors"])
    _sig(fns["difference"], ["self", CFN, "method", "errors"])
    _sig(fns["ratio"], ["self", CFN, "method", "errors"])
    gf = _metric_frame_side(repo)

    filters = {}
    out = {}
    for cf in (False, True):
        tag = "cf" if cf else "nocf"
        out[f"apply_grouping_{tag}"] = {e: _eval(fns["apply_grouping"], cf, e, None, filters, consts) for e in ERR}
        for nm in ("difference", "ratio"):
            out[f"{nm}_{tag}"] = {(m, e): _eval(fns[nm], cf, e, m, filters, consts) for m in METH for e in ERR}

    def fix(term, cf):
        return term.replace("NUM ", "t_num " if cf else "c_num ")

    L = ["(* GENERATED by translators/t_aggregates.py from " + SRC + " and " + SRC_MF + " -- do not edit *)",
         "From Coq Require Import QArith ZArith List Bool.", "From FL Require Import Num Aggregates.",
         "Import ListNotations.", ""]
    for key in sorted(filters, key=lambda k: (["apply_grouping", "difference", "ratio"].index(k[0]), k[1], k[2])):
        L.append(filters[key][1])
    L += ["(* _populate_results: group_functions *)",
          f"Definition populate_group_min : aggname := {gf['group_min']}.",
          f"Definition populate_group_max : aggname := {gf['group_max']}.", ""]
    for cf in (False, True):
        tag = "cf" if cf else "nocf"
        if cf:
            kk = "{K : Type} (keqb : K -> K -> bool) "
            bg, ov, res = "(by_group : list (K * pycell))", "(overall : list (K * ext))", "list (K * ext)"
        else:
            kk = ""
            bg, ov, res = "(by_group : list pycell)", "(overall : ext)", "ext"
        L.append(f"Definition apply_grouping_{tag} {kk}(grouping_function : aggname) (errors : errmode) {bg} : {res} :=")
        L.append("  match errors with")
        for e in ERR:
            L.append(f"  | {ERR[e]} => {fix(out[f'apply_grouping_{tag}'][e], cf)}")
        L += ["  end.", ""]
        for nm in ("difference", "ratio"):
            extra = "(ratio_sub_one : ext -> ext) " if nm == "ratio" else ""
            L.append(f"Definition {nm}_{tag} {kk}{extra}(method : cmethod) (errors : errmode) {bg} {ov} : {res} :=")
            L.append("  match method, errors with")
            for m in METH:
                for e in ERR:
                    L.append(f"  | {METH[m]}, {ERR[e]} => {fix(out[f'{nm}_{tag}'][(m, e)], cf)}")
            L += ["  end.", ""]
    return {"Gen_aggregates.v": "\n".join(L)}
