"""t_egconst: constants and pure kernels of the ExponentiatedGradient certificate (C08).

Regenerates, from the source under test, as Gallina definitions over the primitives of FL.Saddle / FL.SaddleFit:
  * _PRECISION, _MIN_ITER                      (_constants.py)
  * the multiplier literal of eval_gap          (`for mul in [...]` in _lagrangian.py)
  * _GapResult.gap                              gap_of_src
  * the tail of _Lagrangian._eval               eval_tail_src   (L, L_high)
  * eval_gap                                    gap_init_src (arguments of _GapResult(...)), loop_step_src
                                                (query handed to best_h, candidate, update of L_low),
                                                loop_break_src (the early `break`), eval_gap_src
  * ExponentiatedGradient.fit                   nu_src (which nu is used), keep_src (what an iteration appends
                                                to Qs / gaps), stop_src (the break rule), select_src /
                                                returned_src (best_iter_, best_gap_, weights_)
props/C08.v states (by reflexivity, resp. one structural lemma for the loop) that these ARE the model's
definitions.  Everything else the model relies on (statement frames, the linear program handed to scipy) is
matched statement by statement; any shape this translator does not recognise raises (fail closed).

Trusted reading of Python/numpy/pandas primitives (the only interpretation done here):
  np.sum(a * b), np.dot(a, b), a.dot(b) -> rdot a b ;  np.sum(v) -> rsum v ;  v.max()/v.min() -> vmax/vmin ;
  v - w, v + w, s * v -> vsub, vadd, vscale ;  max(a, b)/min(a, b) -> Qmaxq/Qminq ;
  a < b, a <= b, a > b, a >= b on numbers -> Qltb a b, Qleb a b, Qltb b a, Qleb b a (Nat.ltb/Nat.leb on counters) ;
  `for x in LIST: ...; if c: break` -> SaddleFit.for_break ;  series[series <= thr].index[-1] -> last_index_le thr.
An assignment whose right-hand side is an arithmetic operation is wrapped in Qred (a change of representation
only: Qred q == q), as in the model.
"""
import ast
from fractions import Fraction
from pathlib import Path

OUTPUTS = ["Gen_egconst.v"]
CONST = "fairlearn/reductions/_exponentiated_gradient/_constants.py"
LAGR = "fairlearn/reductions/_exponentiated_gradient/_lagrangian.py"
EG = "fairlearn/reductions/_exponentiated_gradient/exponentiated_gradient.py"


class Unsupported(ValueError):
    pass


def _q(x):
    if isinstance(x, bool) or not isinstance(x, (int, float)):
        raise Unsupported(f"not a number: {x!r}")
    f = Fraction(repr(x)) if isinstance(x, float) else Fraction(x)
    return f"(({f.numerator})#{f.denominator})" if f < 0 else f"({f.numerator}#{f.denominator})"


def _module_consts(tree):
    out = {}
    for n in tree.body:
        if isinstance(n, ast.Assign) and len(n.targets) == 1 and isinstance(n.targets[0], ast.Name):
            v = n.value
            if isinstance(v, ast.Constant) and isinstance(v.value, (int, float)) and not isinstance(v.value, bool):
                if n.targets[0].id in out:
                    raise Unsupported(f"{n.targets[0].id} assigned twice")
                out[n.targets[0].id] = v.value
    return out


def _strip(body):
    """drop docstrings and logger.* calls (no effect on the computed values)"""
    out = []
    for s in body:
        if isinstance(s, ast.Expr) and isinstance(s.value, ast.Constant):
            continue
        if isinstance(s, ast.Expr) and isinstance(s.value, ast.Call) and isinstance(s.value.func, ast.Attribute) \
                and isinstance(s.value.func.value, ast.Name) and s.value.func.value.id == "logger":
            continue
        out.append(s)
    return out


def _find_class(tree, name):
    c = next((n for n in tree.body if isinstance(n, ast.ClassDef) and n.name == name), None)
    if c is None:
        raise Unsupported(f"class {name} not found")
    return c


def _find_method(cls, name):
    f = [n for n in cls.body if isinstance(n, ast.FunctionDef) and n.name == name]
    if len(f) != 1:
        raise Unsupported(f"{cls.name}.{name}: expected exactly one definition")
    return f[0]


def _gap_expr(e):
    """self.L / self.L_low / self.L_high, +, -, max(a, b) -> Gallina over Lv low high"""
    names = {"L": "Lv", "L_low": "low", "L_high": "high"}
    if isinstance(e, ast.Attribute) and isinstance(e.value, ast.Name) and e.value.id == "self" and e.attr in names:
        return names[e.attr]
    if isinstance(e, ast.BinOp) and isinstance(e.op, (ast.Sub, ast.Add)):
        op = "-" if isinstance(e.op, ast.Sub) else "+"
        return f"({_gap_expr(e.left)} {op} {_gap_expr(e.right)})"
    if isinstance(e, ast.Call) and isinstance(e.func, ast.Name) and e.func.id == "max" and len(e.args) == 2 \
            and not e.keywords:
        return f"(Qmaxq {_gap_expr(e.args[0])} {_gap_expr(e.args[1])})"
    raise Unsupported(f"_GapResult.gap: unsupported expression {ast.unparse(e)!r}")


def _norm(src_or_node):
    """canonical text of a statement (independent of the Python version's unparse conventions)"""
    node = ast.parse(src_or_node).body[0] if isinstance(src_or_node, str) else src_or_node
    return ast.dump(node, annotate_fields=False, include_attributes=False)


def _expect(stmts, wanted, where):
    got = [ast.unparse(s) for s in stmts]
    if [_norm(s) for s in stmts] == [_norm(w) for w in wanted]:
        return
    for i, (g, w) in enumerate(zip(got + ["<missing>"] * len(wanted), wanted + ["<extra>"] * len(got))):
        if g == "<missing>" or w == "<extra>" or _norm(g) != _norm(w):
            raise Unsupported(f"{where}: statement {i} is {g!r}, expected {w!r}")
    raise Unsupported(f"{where}: unexpected statements")


# ---------------------------------------------------------------------------------------------
# a small typed expression compiler: S = number (Q), V = vector (list Q), N = counter (nat), B = bool
# ---------------------------------------------------------------------------------------------
class Ex:
    def __init__(self, env, where):
        self.env = dict(env)          # ast.unparse(atom) -> (type, gallina)
        self.where = where

    def bad(self, node, why="unsupported expression"):
        raise Unsupported(f"{self.where}: {why}: {ast.unparse(node)!r}")

    def atom(self, node):
        return self.env.get(ast.unparse(node))

    def c(self, node):
        """-> (type, text[, pending elementwise product])"""
        a = self.atom(node)
        if a is not None:
            return a
        if isinstance(node, ast.Constant) and isinstance(node.value, (int, float)) and not isinstance(node.value, bool):
            return ("S", _q(node.value))
        if isinstance(node, ast.UnaryOp) and isinstance(node.op, ast.USub):
            t, x = self.c(node.operand)
            if t == "S":
                return ("S", f"(- {x})")
            self.bad(node)
        if isinstance(node, ast.UnaryOp) and isinstance(node.op, ast.Not):
            t, x = self.c(node.operand)
            if t == "B":
                return ("B", f"(negb {x})")
            self.bad(node, "`not` of a non-boolean")
        if isinstance(node, ast.BinOp):
            (tl, l), (tr, r) = self.c(node.left), self.c(node.right)
            op = type(node.op)
            if tl == "S" and tr == "S" and op in (ast.Add, ast.Sub, ast.Mult):
                return ("S", f"({l} {'+' if op is ast.Add else '-' if op is ast.Sub else '*'} {r})")
            if tl == "V" and tr == "V" and op in (ast.Add, ast.Sub):
                return ("V", f"({'vadd' if op is ast.Add else 'vsub'} {l} {r})")
            if tl == "V" and tr == "V" and op is ast.Mult:
                return ("P", (l, r))           # elementwise product: only under np.sum
            if op is ast.Mult and {tl, tr} == {"S", "V"}:
                s, v = (l, r) if tl == "S" else (r, l)
                return ("V", f"(vscale {s} {v})")
            self.bad(node)
        if isinstance(node, ast.Call) and not node.keywords:
            f = ast.unparse(node.func)
            args = node.args
            if f in ("np.sum", "numpy.sum") and len(args) == 1:
                t, x = self.c(args[0])
                if t == "P":
                    return ("S", f"(rdot {x[0]} {x[1]})")
                if t == "V":
                    return ("S", f"(rsum {x})")
                self.bad(node)
            if f in ("np.dot", "numpy.dot") and len(args) == 2:
                (tl, l), (tr, r) = self.c(args[0]), self.c(args[1])
                if tl == "V" and tr == "V":
                    return ("S", f"(rdot {l} {r})")
                self.bad(node)
            if f in ("max", "min") and len(args) == 2:
                (tl, l), (tr, r) = self.c(args[0]), self.c(args[1])
                if tl == "S" and tr == "S":
                    return ("S", f"({'Qmaxq' if f == 'max' else 'Qminq'} {l} {r})")
                self.bad(node)
            if f in ("np.max", "np.amax", "np.min", "np.amin") and len(args) == 1:
                t, x = self.c(args[0])
                if t == "V":
                    return ("S", f"({'vmax' if 'max' in f else 'vmin'} {x})")
                self.bad(node)
            if isinstance(node.func, ast.Attribute) and node.func.attr in ("max", "min") and not args:
                t, x = self.c(node.func.value)
                if t == "V":
                    return ("S", f"({'vmax' if node.func.attr == 'max' else 'vmin'} {x})")
                self.bad(node)
            if isinstance(node.func, ast.Attribute) and node.func.attr == "dot" and len(args) == 1:
                (tl, l), (tr, r) = self.c(node.func.value), self.c(args[0])
                if tl == "V" and tr == "V":
                    return ("S", f"(rdot {l} {r})")
                self.bad(node)
            self.bad(node, "unsupported call")
        if isinstance(node, ast.Compare) and len(node.ops) == 1:
            (tl, l), (tr, r) = self.c(node.left), self.c(node.comparators[0])
            op = type(node.ops[0])
            if tl == tr and tl in ("S", "N") and op in (ast.Lt, ast.LtE, ast.Gt, ast.GtE):
                if op in (ast.Gt, ast.GtE):
                    l, r = r, l
                strict = op in (ast.Lt, ast.Gt)
                fn = {("S", True): "Qltb", ("S", False): "Qleb", ("N", True): "Nat.ltb", ("N", False): "Nat.leb"}
                return ("B", f"({fn[tl, strict]} {l} {r})")
            self.bad(node, "unsupported comparison")
        if isinstance(node, ast.BoolOp):
            parts = [self.c(v) for v in node.values]
            if all(t == "B" for t, _ in parts):
                j = " && " if isinstance(node.op, ast.And) else " || "
                return ("B", "(" + j.join(x for _, x in parts) + ")")
            self.bad(node)
        self.bad(node)

    def typed(self, node, want):
        t, x = self.c(node)
        if t != want:
            self.bad(node, f"expected a value of kind {want}, got {t}")
        return x


def _is_arith(node):
    return isinstance(node, ast.BinOp)


class Block:
    """straight-line statements over number-valued names -> a chain of Gallina lets"""

    def __init__(self, ex, assignable):
        self.ex = ex
        self.assignable = dict(assignable)   # ast.unparse(target) -> Gallina name (may be (re)bound here)
        self.lets = []

    def _target(self, t):
        key = ast.unparse(t)
        if key not in self.assignable:
            raise Unsupported(f"{self.ex.where}: assignment to {key!r} is not understood")
        return key, self.assignable[key]

    def _value(self, s):
        """value assigned by a simple Assign / AugAssign, as Gallina text (number)"""
        if isinstance(s, ast.Assign) and len(s.targets) == 1:
            key, name = self._target(s.targets[0])
            x = self.ex.typed(s.value, "S")
            return key, name, (f"Qred {x}" if _is_arith(s.value) else x)
        if isinstance(s, ast.AugAssign) and isinstance(s.op, (ast.Add, ast.Sub, ast.Mult)):
            key, name = self._target(s.target)
            if key not in self.ex.env:
                raise Unsupported(f"{self.ex.where}: {key} updated before it is defined")
            x = self.ex.typed(s.value, "S")
            op = {ast.Add: "+", ast.Sub: "-", ast.Mult: "*"}[type(s.op)]
            return key, name, f"Qred ({self.ex.env[key][1]} {op} {x})"
        raise Unsupported(f"{self.ex.where}: unsupported statement {ast.unparse(s)!r}")

    def stmt(self, s):
        if isinstance(s, (ast.Assign, ast.AugAssign)):
            key, name, val = self._value(s)
            self.lets.append(f"let {name} := {val} in")
            self.ex.env[key] = ("S", name)
            return
        if isinstance(s, ast.If):
            cond = self.ex.typed(s.test, "B")
            if len(s.body) != 1 or len(s.orelse) > 1:
                raise Unsupported(f"{self.ex.where}: unsupported conditional {ast.unparse(s)!r}")
            key, name, val = self._value(s.body[0])
            if key not in self.ex.env and not s.orelse:
                raise Unsupported(f"{self.ex.where}: {key} assigned on one branch only")
            if s.orelse:
                key2, _, val2 = self._value(s.orelse[0])
                if key2 != key:
                    raise Unsupported(f"{self.ex.where}: branches assign different names")
            else:
                val2 = self.ex.env[key][1]
            self.lets.append(f"let {name} := if {cond} then {val} else {val2} in")
            self.ex.env[key] = ("S", name)
            return
        raise Unsupported(f"{self.ex.where}: unsupported statement {ast.unparse(s)!r}")

    def text(self, result, indent="  "):
        return "\n".join(indent + l for l in self.lets + [result])


# ---------------------------------------------------------------------------------------------
def _eval_tail(lag):
    """_Lagrangian._eval -> (Gallina body of eval_tail_src, names of the returned tuple)"""
    ev = _strip(_find_method(lag, "_eval").body)
    if [a.arg for a in _find_method(lag, "_eval").args.args] != ["self", "Q", "lambda_vec"]:
        raise Unsupported("_Lagrangian._eval: unexpected signature")
    if len(ev) < 4:
        raise Unsupported("_Lagrangian._eval: unexpected statement structure")
    _expect(ev[:2], ["if callable(Q):\n    error = self.obj.gamma(Q).iloc[0]\n    gamma = self.constraints.gamma(Q)\n"
                     "else:\n    error = self.errors[Q.index].dot(Q)\n    gamma = self.gammas[Q.index].dot(Q)",
                     "if self.opt_lambda:\n    lambda_vec = self.constraints.project_lambda(lambda_vec)"],
            "_Lagrangian._eval")
    ret = ev[-1]
    if not (isinstance(ret, ast.Return) and isinstance(ret.value, ast.Tuple)
            and all(isinstance(e, ast.Name) for e in ret.value.elts)):
        raise Unsupported("_Lagrangian._eval: does not end in `return (names)`")
    rnames = [e.id for e in ret.value.elts]
    if rnames != ["L", "L_high", "gamma", "error"]:
        raise Unsupported(f"_Lagrangian._eval: returns {rnames}, expected ['L', 'L_high', 'gamma', 'error']")
    ex = Ex({"error": ("S", "error"), "gamma": ("V", "gamma"), "lambda_vec": ("V", "lambda_vec"),
             "self.B": ("S", "B"), "self.constraints.bound()": ("V", "bound")}, "_Lagrangian._eval")
    blk = Block(ex, {"L": "L", "L_high": "L_high", "max_constraint": "max_constraint"})
    for s in ev[2:-1]:
        blk.stmt(s)
    for n in ("L", "L_high"):
        if n not in ex.env:
            raise Unsupported(f"_Lagrangian._eval: {n} is never assigned")
    if ex.env["error"] != ("S", "error") or ex.env["gamma"] != ("V", "gamma"):
        raise Unsupported("_Lagrangian._eval: error / gamma reassigned in the tail")
    return blk.text("(L, L_high)"), rnames


def _eval_gap(lag, gr, eval_ret):
    fn = _find_method(lag, "eval_gap")
    if [a.arg for a in fn.args.args] != ["self", "Q", "lambda_hat", "nu"]:
        raise Unsupported("eval_gap: unexpected signature")
    body = _strip(fn.body)
    if len(body) != 4 or not isinstance(body[2], ast.For):
        raise Unsupported("eval_gap: unexpected statement structure")
    _expect(body[:1], ["(L, L_high, gamma, error) = self._eval(Q, lambda_hat)"], "eval_gap")
    _expect(body[3:], ["return result"], "eval_gap")
    # result = _GapResult(<L>, <L_low>, <L_high>, gamma, error)
    init = _find_method(gr, "__init__")
    if [a.arg for a in init.args.args] != ["self", "L", "L_low", "L_high", "gamma", "error"]:
        raise Unsupported("_GapResult.__init__: unexpected signature")
    _expect(_strip(init.body), ["self.L = L", "self.L_low = L_low", "self.L_high = L_high", "self.gamma = gamma",
                                "self.error = error"], "_GapResult.__init__")
    mk = body[1]
    if not (isinstance(mk, ast.Assign) and ast.unparse(mk.targets[0]) == "result" and isinstance(mk.value, ast.Call)
            and ast.unparse(mk.value.func) == "_GapResult" and not mk.value.keywords and len(mk.value.args) == 5
            and all(isinstance(a, ast.Name) for a in mk.value.args)):
        raise Unsupported(f"eval_gap: statement 1 is {ast.unparse(mk)!r}, expected result = _GapResult(five names)")
    a = [x.id for x in mk.value.args]
    if a[3:] != ["gamma", "error"] or any(x not in ("L", "L_high") for x in a[:3]):
        raise Unsupported(f"eval_gap: unexpected arguments of _GapResult: {a}")
    gap_init = f"({a[0]}, {a[1]}, {a[2]})"

    loop = body[2]
    if loop.orelse or not (isinstance(loop.target, ast.Name) and loop.target.id == "mul"):
        raise Unsupported("eval_gap: unexpected for-loop header")
    if not isinstance(loop.iter, (ast.List, ast.Tuple)) or not loop.iter.elts:
        raise Unsupported("eval_gap: the multipliers are not a non-empty literal list")
    muls = []
    for e in loop.iter.elts:
        if not (isinstance(e, ast.Constant) and isinstance(e.value, (int, float)) and not isinstance(e.value, bool)):
            raise Unsupported("eval_gap: non-literal multiplier")
        muls.append(e.value)
    lb = _strip(loop.body)
    if len(lb) < 3:
        raise Unsupported("eval_gap loop: unexpected statement structure")
    # (_, h_hat_idx) = self.best_h(<query>)
    s0 = lb[0]
    if not (isinstance(s0, ast.Assign) and isinstance(s0.targets[0], ast.Tuple) and len(s0.targets[0].elts) == 2
            and all(isinstance(e, ast.Name) for e in s0.targets[0].elts) and s0.targets[0].elts[0].id == "_"
            and isinstance(s0.value, ast.Call) and ast.unparse(s0.value.func) == "self.best_h"
            and len(s0.value.args) == 1 and not s0.value.keywords):
        raise Unsupported(f"eval_gap loop: statement 0 is {ast.unparse(s0)!r}, expected (_, idx) = self.best_h(query)")
    idx = s0.targets[0].elts[1].id
    query = Ex({"mul": ("S", "mul"), "lambda_hat": ("V", "lambda_hat")}, "eval_gap loop").typed(s0.value.args[0], "V")
    # (L_low_mul, _, _, _) = self._eval(pd.Series({idx: 1.0}), lambda_hat)
    s1 = lb[1]
    ok = (isinstance(s1, ast.Assign) and isinstance(s1.targets[0], ast.Tuple)
          and len(s1.targets[0].elts) == len(eval_ret) and all(isinstance(e, ast.Name) for e in s1.targets[0].elts)
          and isinstance(s1.value, ast.Call) and ast.unparse(s1.value.func) == "self._eval"
          and len(s1.value.args) == 2 and not s1.value.keywords)
    if not ok:
        raise Unsupported(f"eval_gap loop: statement 1 is {ast.unparse(s1)!r}, expected (x, _, _, _) = self._eval(.., ..)")
    tn = [e.id for e in s1.targets[0].elts]
    if tn[0] == "_" or any(n != "_" for n in tn[1:]) or eval_ret[0] != "L":
        raise Unsupported(f"eval_gap loop: the candidate is not the first component (L) of _eval: {tn}")
    cand = tn[0]
    if _norm(ast.parse(ast.unparse(s1.value.args[0])).body[0]) != _norm(f"pd.Series({{{idx}: 1.0}})"):
        raise Unsupported(f"eval_gap loop: candidate evaluated at {ast.unparse(s1.value.args[0])!r}, expected "
                          f"pd.Series({{{idx}: 1.0}})")
    if ast.unparse(s1.value.args[1]) != "lambda_hat":
        raise Unsupported(f"eval_gap loop: candidate evaluated with multiplier {ast.unparse(s1.value.args[1])!r}, "
                          "expected lambda_hat")
    # update of result.L_low, then the break
    brk = lb[-1]
    if not (isinstance(brk, ast.If) and not brk.orelse and len(brk.body) == 1 and isinstance(brk.body[0], ast.Break)):
        raise Unsupported(f"eval_gap loop: last statement is {ast.unparse(brk)!r}, expected `if ...: break`")
    for s in lb[2:-1]:
        if any(isinstance(n, (ast.Break, ast.Continue, ast.Return)) for n in ast.walk(s)):
            raise Unsupported("eval_gap loop: control flow inside the update")
    env = {cand: ("S", cand), "result.L_low": ("S", "L_low"), "result.L": ("S", "Lv"), "result.L_high": ("S", "high"),
           "nu": ("S", "nu"), "_PRECISION": ("S", "precision"), "result.gap()": ("S", "(gap_of_src Lv L_low high)")}
    ex = Ex(env, "eval_gap loop")
    blk = Block(ex, {"result.L_low": "L_low"})
    for s in lb[2:-1]:
        blk.stmt(s)
        ex.env["result.gap()"] = ("S", "(gap_of_src Lv L_low high)")
    step = (f"  let {cand} := L_pt c (best_response H {query}) lam' in\n" + blk.text("L_low"))
    cond = Ex(env, "eval_gap break").typed(brk.test, "B")
    return muls, gap_init, step, cond


def _fit(etree):
    cls = _find_class(etree, "ExponentiatedGradient")
    fit = _find_method(cls, "fit")
    stmts = _strip(fit.body)
    loops = [s for s in stmts if isinstance(s, ast.For)]
    if len(loops) != 2 or ast.unparse(loops[0].target) != "t" or ast.unparse(loops[0].iter) != "range(0, self.max_iter)" \
            or loops[0].orelse:
        raise Unsupported("fit: unexpected loop structure")
    lb = _strip(loops[0].body)
    lsrc = [_norm(s) for s in lb]

    def pos(src):
        if lsrc.count(_norm(src)) != 1:
            raise Unsupported(f"fit loop: expected exactly one statement {src!r}")
        return lsrc.index(_norm(src))
    p_q = pos("Q_EG = Qsum / Qsum.sum()")
    p_ev = pos("result_EG = lagrangian.eval_gap(Q_EG, lambda_EG, self.nu)")
    p_g = pos("gap_EG = result_EG.gap()")
    p_lam = pos("lambda_EG = self.lambda_vecs_EG_.mean(axis=1)")
    p_lp = pos("if t == 0 or not self.run_linprog_step:\n    gap_LP = np.inf\nelse:\n"
               "    (Q_LP, self.lambda_vecs_LP_[t], result_LP) = lagrangian.solve_linprog(self.nu)\n"
               "    gap_LP = result_LP.gap()")
    p_th = pos("theta += eta * (gamma - self.constraints.bound())")

    # ---- which nu: inside `if t == 0:`
    t0 = [i for i, s in enumerate(lb) if isinstance(s, ast.If) and ast.unparse(s.test) == "t == 0"]
    if len(t0) != 1 or lb[t0[0]].orelse:
        raise Unsupported("fit loop: expected exactly one `if t == 0:` block without else")
    first = _strip(lb[t0[0]].body)
    if not first or not isinstance(first[0], ast.If):
        raise Unsupported("fit loop: `if t == 0:` does not start with the choice of nu")
    nuif = first[0]
    if nuif.orelse or len(nuif.body) != 1 or not isinstance(nuif.body[0], ast.Assign) \
            or ast.unparse(nuif.body[0].targets[0]) != "self.nu":
        raise Unsupported(f"fit loop: unexpected choice of nu {ast.unparse(nuif)!r}")
    test = ast.unparse(nuif.test)
    if test == "self.nu is None":
        nu_src = "match nu_param with None => auto | Some v => v end"
    elif test in ("not self.nu", "self.nu is None or self.nu == 0", "self.nu is None or not self.nu"):
        nu_src = "match nu_param with None => auto | Some v => if Qeqb v 0 then auto else v end"
    else:
        raise Unsupported(f"fit loop: the automatic nu is chosen under {test!r}, expected 'self.nu is None'")
    n_assign = 0
    for n in ast.walk(fit):
        tg = []
        if isinstance(n, ast.Assign):
            for t in n.targets:
                tg += list(t.elts) if isinstance(t, (ast.Tuple, ast.List)) else [t]
        elif isinstance(n, (ast.AugAssign, ast.AnnAssign)):
            tg = [n.target]
        n_assign += sum(1 for t in tg if ast.unparse(t) == "self.nu")
    if n_assign != 1:
        raise Unsupported(f"fit: self.nu is assigned {n_assign} times, expected once")
    if not (t0[0] < p_ev):
        raise Unsupported("fit loop: nu is chosen after its first use")

    # ---- what an iteration appends
    keeps = [i for i, s in enumerate(lb) if isinstance(s, ast.If) and
             any(isinstance(n, ast.Call) and ast.unparse(n.func) in ("Qs.append", "gaps.append") for n in ast.walk(s))]
    if len(keeps) != 1:
        raise Unsupported("fit loop: expected exactly one conditional appending to Qs / gaps")
    kif = lb[keeps[0]]

    def branch(stmts_, which):
        got = {}
        if len(stmts_) != 2:
            raise Unsupported(f"fit loop: the {which} branch of the EG/LP choice has {len(stmts_)} statements")
        for s in stmts_:
            if not (isinstance(s, ast.Expr) and isinstance(s.value, ast.Call) and len(s.value.args) == 1
                    and not s.value.keywords and isinstance(s.value.args[0], ast.Name)
                    and ast.unparse(s.value.func) in ("Qs.append", "gaps.append")):
                raise Unsupported(f"fit loop: unexpected statement {ast.unparse(s)!r} in the EG/LP choice")
            got[ast.unparse(s.value.func)] = s.value.args[0].id
        if set(got) != {"Qs.append", "gaps.append"}:
            raise Unsupported(f"fit loop: the {which} branch does not append once to Qs and once to gaps")
        qn = {"Q_EG": "Q_EG", "Q_LP": "(fst lp)"}
        gn = {"gap_EG": "gap_EG", "gap_LP": "(snd lp)"}
        if got["Qs.append"] not in qn or got["gaps.append"] not in gn:
            raise Unsupported(f"fit loop: the {which} branch appends {got}")
        uses_lp = got["Qs.append"] == "Q_LP" or got["gaps.append"] == "gap_LP"
        return f"({qn[got['Qs.append']]}, {gn[got['gaps.append']]})", uses_lp
    b_then, lp_then = branch(kif.body, "then")
    b_else, lp_else = branch(kif.orelse, "else")
    kt = kif.test
    if not (isinstance(kt, ast.Compare) and len(kt.ops) == 1 and
            {ast.unparse(kt.left), ast.unparse(kt.comparators[0])} == {"gap_EG", "gap_LP"}):
        raise Unsupported(f"fit loop: the EG/LP choice tests {ast.unparse(kt)!r}")
    ktest = Ex({"gap_EG": ("S", "gap_EG"), "gap_LP": ("S", "(snd lp)")}, "fit EG/LP choice").typed(kt, "B")
    # gap_LP = np.inf when the linear program did not run
    eg_left = ast.unparse(kt.left) == "gap_EG"
    less = isinstance(kt.ops[0], (ast.Lt, ast.LtE))
    inf_true = (eg_left and less) or (not eg_left and not less)
    none_branch, none_lp = (b_then, lp_then) if inf_true else (b_else, lp_else)
    if none_lp:
        raise Unsupported("fit loop: the LP candidate is appended when the linear program did not run")
    keep_src = (f"  match LP with\n  | None => {none_branch}\n"
                f"  | Some lp => if {ktest} then {b_then} else {b_else}\n  end")
    # Qs / gaps are touched by nothing else
    for nm in ("Qs", "gaps"):
        n_app = sum(1 for n in ast.walk(fit) if isinstance(n, ast.Call) and ast.unparse(n.func) == f"{nm}.append")
        n_other = sum(1 for n in ast.walk(fit) if isinstance(n, ast.Call) and isinstance(n.func, ast.Attribute)
                      and ast.unparse(n.func.value) == nm and n.func.attr != "append")
        n_store = sum(1 for n in ast.walk(fit) if isinstance(n, (ast.Name, ast.Subscript)) and
                      isinstance(getattr(n, "ctx", None), (ast.Store, ast.Del)) and
                      ast.unparse(n.value if isinstance(n, ast.Subscript) else n) == nm)
        if n_app != 2 or n_other != 0 or n_store != 1:
            raise Unsupported(f"fit: {nm} is modified outside the EG/LP choice "
                              f"({n_app} appends, {n_other} other calls, {n_store} stores)")
    inits = [_norm(s) for s in stmts]
    for need in ("gaps: list[float] = []", "Qs: list[pd.Series] = []"):
        if inits.count(_norm(need)) != 1:
            raise Unsupported(f"fit: expected exactly one statement {need!r} before the loop")

    # ---- the break rule
    brks = [i for i, s in enumerate(lb) if isinstance(s, ast.If) and
            any(isinstance(n, ast.Break) for n in ast.walk(s))]
    if len(brks) != 1 or any(isinstance(n, (ast.Break, ast.Continue, ast.Return)) for i, s in enumerate(lb)
                             if i != brks[0] for n in ast.walk(s)):
        raise Unsupported("fit loop: expected exactly one `if ...: break` and no other jump")
    bif = lb[brks[0]]
    if bif.orelse or len(_strip(bif.body)) != 1 or not isinstance(_strip(bif.body)[0], ast.Break):
        raise Unsupported(f"fit loop: unexpected break statement {ast.unparse(bif)!r}")
    stop = Ex({"gaps[t]": ("S", "(gaps t)"), "self.nu": ("S", "nu"), "t": ("N", "t"),
               "_MIN_ITER": ("N", "min_iter")}, "fit break rule").typed(bif.test, "B")
    if not (p_lam < p_q < p_ev < p_g < p_lp < keeps[0] < brks[0] < p_th):
        raise Unsupported("fit loop: statements are not in the expected order "
                          "(EG candidate, LP candidate, choice, break, update)")

    # ---- what fit hands out
    after = stmts[stmts.index(loops[0]) + 1:]
    if len(after) < 5:
        raise Unsupported("fit: statements after the loop are missing")
    _expect(after[:1], ["gaps_series = pd.Series(gaps)"], "fit after the loop")
    s1 = after[1]
    ok = (isinstance(s1, ast.Assign) and ast.unparse(s1.targets[0]) == "gaps_best"
          and isinstance(s1.value, ast.Subscript) and ast.unparse(s1.value.value) == "gaps_series"
          and isinstance(s1.value.slice, ast.Compare) and len(s1.value.slice.ops) == 1
          and ast.unparse(s1.value.slice.left) == "gaps_series")
    if not ok:
        raise Unsupported(f"fit: statement 1 after the loop is {ast.unparse(s1)!r}, expected "
                          "gaps_best = gaps_series[gaps_series <= threshold]")
    if not isinstance(s1.value.slice.ops[0], ast.LtE):
        raise Unsupported(f"fit: the candidates are selected by {ast.unparse(s1.value.slice)!r}, expected `<=`")
    thr = Ex({"gaps_series": ("V", "gaps"), "_PRECISION": ("S", "precision")}, "fit selection threshold") \
        .typed(s1.value.slice.comparators[0], "S")
    _expect(after[2:3], ["self.best_iter_ = gaps_best.index[-1]"], "fit after the loop")
    select_src = f"last_index_le {thr} gaps 0 0"

    def pick(s, target, where):
        if not (isinstance(s, ast.Assign) and len(s.targets) == 1 and ast.unparse(s.targets[0]) == target):
            raise Unsupported(f"fit: statement {where} after the loop is {ast.unparse(s)!r}, expected {target} = ...")
        v = s.value
        if isinstance(v, ast.Subscript) and ast.unparse(v.value) in ("gaps", "Qs"):
            if ast.unparse(v.slice) != "self.best_iter_":
                raise Unsupported(f"fit: {target} is taken at index {ast.unparse(v.slice)!r}, expected self.best_iter_")
            return ast.unparse(v.value)
        raise Unsupported(f"fit: {target} = {ast.unparse(v)!r} is not an element of gaps / Qs")
    if pick(after[3], "self.best_gap_", 3) != "gaps":
        raise Unsupported(f"fit: best_gap_ is not taken from gaps: {ast.unparse(after[3])!r}")
    if pick(after[4], "self.weights_", 4) != "Qs":
        raise Unsupported(f"fit: weights_ is not taken from Qs: {ast.unparse(after[4])!r}")
    for s in after[5:]:
        for n in ast.walk(s):
            if isinstance(n, (ast.Assign, ast.AugAssign, ast.AnnAssign)):
                tg = n.targets if isinstance(n, ast.Assign) else [n.target]
                if any(ast.unparse(t) in ("self.best_gap_", "self.best_iter_", "self.weights_") for t in tg):
                    raise Unsupported(f"fit: {ast.unparse(n)!r} overwrites a returned attribute")
    returned_src = ("  let best_iter_ := select_src gaps in\n  let best_gap_ := nth best_iter_ gaps 0 in\n"
                    "  let weights_ := nth best_iter_ Qs d in\n  (best_iter_, best_gap_, weights_)")
    _expect(after[5:8], ["self._hs = lagrangian.hs",
                         "for h_idx in self._hs.index:\n    if h_idx not in self.weights_.index:\n"
                         "        self.weights_.at[h_idx] = 0.0",
                         "self.last_iter_ = len(Qs) - 1"], "fit after the selection")
    return nu_src, keep_src, stop, select_src, returned_src


def _linprog(lag):
    """the linear program of solve_linprog, matched statement by statement (the `method=` string is free)"""
    fn = _find_method(lag, "solve_linprog")
    body = _strip(fn.body)
    if len(body) < 10:
        raise Unsupported("solve_linprog: unexpected statement structure")
    _expect(body[:8], ["n_hs = len(self.hs)",
                       "n_constraints = len(self.constraints.index)",
                       "if self.last_linprog_n_hs == n_hs:\n    return self.last_linprog_result",
                       "c = np.concatenate((self.errors, [self.B]))",
                       "A_ub = np.concatenate((self.gammas.sub(self.constraints.bound(), axis=0), "
                       "-np.ones((n_constraints, 1))), axis=1)",
                       "b_ub = np.zeros(n_constraints)",
                       "A_eq = np.concatenate((np.ones((1, n_hs)), np.zeros((1, 1))), axis=1)",
                       "b_eq = np.ones(1)"], "solve_linprog")
    call = body[8]
    ok = (isinstance(call, ast.Assign) and ast.unparse(call.targets[0]) == "result" and isinstance(call.value, ast.Call)
          and ast.unparse(call.value.func) == "opt.linprog" and [ast.unparse(a) for a in call.value.args] == ["c"])
    if not ok:
        raise Unsupported(f"solve_linprog: statement 8 is {ast.unparse(call)!r}, expected result = opt.linprog(c, ...)")
    kw = {k.arg: k.value for k in call.value.keywords}
    if set(kw) != {"A_ub", "b_ub", "A_eq", "b_eq", "method"} or \
            any(ast.unparse(kw[k]) != k for k in ("A_ub", "b_ub", "A_eq", "b_eq")) or \
            not (isinstance(kw["method"], ast.Constant) and isinstance(kw["method"].value, str)):
        raise Unsupported(f"solve_linprog: unexpected arguments of linprog (bounds must be the default): "
                          f"{ast.unparse(call)!r}")
    _expect(body[9:10], ["Q = pd.Series(result.x[:-1], self.hs.index)"], "solve_linprog")
    tail = body[-2:]
    _expect(tail, ["self.last_linprog_result = (Q, lambda_vec, self.eval_gap(Q, lambda_vec, nu))",
                   "return self.last_linprog_result"], "solve_linprog")
    for s in body[10:-2]:
        for n in ast.walk(s):
            if isinstance(n, ast.Name) and isinstance(n.ctx, ast.Store) and n.id == "Q":
                raise Unsupported("solve_linprog: Q is reassigned after the primal solve")


def translate(repo: Path):
    repo = Path(repo)
    consts = _module_consts(ast.parse((repo / CONST).read_text()))
    for k in ("_PRECISION", "_MIN_ITER"):
        if k not in consts:
            raise Unsupported(f"{k} not found in {CONST}")
    prec, min_iter = consts["_PRECISION"], consts["_MIN_ITER"]
    if not isinstance(min_iter, int) or min_iter < 0:
        raise Unsupported("_MIN_ITER is not a natural number")
    if not (isinstance(prec, float) and prec >= 0):
        raise Unsupported("_PRECISION is not a non-negative float")

    ltree = ast.parse((repo / LAGR).read_text())
    lag = _find_class(ltree, "_Lagrangian")
    # the constants must come from _constants (not shadowed in the module)
    if "_PRECISION" in _module_consts(ltree):
        raise Unsupported("_PRECISION shadowed in _lagrangian.py")
    gr = _find_class(ltree, "_GapResult")
    gap_body = _strip(_find_method(gr, "gap").body)
    if len(gap_body) != 1 or not isinstance(gap_body[0], ast.Return) or gap_body[0].value is None:
        raise Unsupported("_GapResult.gap: body is not a single return")
    gap_src = _gap_expr(gap_body[0].value)

    tail_src, eval_ret = _eval_tail(lag)
    muls, gap_init, step_src, break_src = _eval_gap(lag, gr, eval_ret)
    _linprog(lag)

    etree = ast.parse((repo / EG).read_text())
    if any(k in _module_consts(etree) for k in ("_PRECISION", "_MIN_ITER")):
        raise Unsupported("constants shadowed in exponentiated_gradient.py")
    nu_src, keep_src, stop_src, select_src, returned_src = _fit(etree)

    text = ("(* GENERATED by translators/t_egconst.py from " + CONST + ", " + LAGR + " and " + EG +
            " -- do not edit *)\n"
            "From Coq Require Import QArith List Bool.\nFrom FL Require Import Num Saddle SaddleFit.\n"
            "Import ListNotations.\nOpen Scope Q_scope.\n"
            f"Definition precision : Q := {_q(prec)}.\n"
            f"Definition min_iter : nat := {min_iter}%nat.\n"
            f"Definition muls : list Q := [{'; '.join(_q(m) for m in muls)}].\n"
            f"Definition gap_of_src (Lv low high : Q) : Q := {gap_src}.\n"
            "(* _Lagrangian._eval after error / gamma / the projection: (L, L_high) *)\n"
            "Definition eval_tail_src (B error : Q) (lambda_vec gamma bound : list Q) : Q * Q :=\n"
            f"{tail_src}.\n"
            "(* eval_gap: the (L, L_low, L_high) given to _GapResult *)\n"
            f"Definition gap_init_src (L L_high : Q) : Q * Q * Q := {gap_init}.\n"
            "(* eval_gap: one pass of the loop body before the break test; lam' = the multiplier _eval uses *)\n"
            "Definition loop_step_src (H : list hyp) (c : list Q) (nu Lv high : Q) (lambda_hat lam' : list Q)\n"
            "    (mul L_low : Q) : Q :=\n"
            f"{step_src}.\n"
            "Definition loop_break_src (nu Lv high L_low : Q) : bool :=\n"
            f"  {break_src}.\n"
            "(* eval_gap(Q, lambda_hat, nu).gap() *)\n"
            "Definition eval_gap_src (H : list hyp) (c : list Q) (B nu : Q) (Qw lambda_hat lam' : list Q) : Q :=\n"
            "  let ev := eval_tail_src B (err H Qw) lam' (gammaQ H c Qw) c in\n"
            "  let init := gap_init_src (fst ev) (snd ev) in\n"
            "  let Lv := fst (fst init) in\n"
            "  let high := snd init in\n"
            "  gap_of_src Lv (for_break (loop_step_src H c nu Lv high lambda_hat lam') (loop_break_src nu Lv high)\n"
            "                           muls (snd (fst init))) high.\n"
            "(* fit: the threshold used (nu_param = the constructor argument, auto = the automatic value) *)\n"
            "Definition nu_src (nu_param : option Q) (auto : Q) : Q :=\n"
            f"  {nu_src}.\n"
            "(* fit: the pair appended to (Qs, gaps) by one iteration; LP = None when solve_linprog did not run *)\n"
            "Definition keep_src {A : Type} (Q_EG : A) (gap_EG : Q) (LP : option (A * Q)) : A * Q :=\n"
            f"{keep_src}.\n"
            "(* fit: the break rule at iteration t *)\n"
            "Definition stop_src (gaps : nat -> Q) (nu : Q) (t : nat) : bool :=\n"
            f"  {stop_src}.\n"
            "(* fit: best_iter_, best_gap_, weights_ *)\n"
            "Definition select_src (gaps : list Q) : nat :=\n"
            f"  {select_src}.\n"
            "Definition returned_src {A : Type} (d : A) (gaps : list Q) (Qs : list A) : nat * Q * A :=\n"
            f"{returned_src}.\n")
    return {"Gen_egconst.v": text}
