"""t_egconst: constants and pure kernels of the ExponentiatedGradient certificate (C08).

Regenerates, from the source under test:
  * _PRECISION, _MIN_ITER                      (_constants.py)
  * the multiplier literal of eval_gap          (`for mul in [...]` in _lagrangian.py)
  * _GapResult.gap as a Gallina expression      (`return max(self.L - self.L_low, self.L_high - self.L)`)
and checks (fail closed) that eval_gap, the choice of the returned iterate and the break rule of
ExponentiatedGradient.fit still have the shape the model Saddle.v follows.
"""
import ast
from fractions import Fraction
from pathlib import Path

OUTPUTS = ["Gen_egconst.v"]
CONST = "fairlearn/reductions/_exponentiated_gradient/_constants.py"
LAGR = "fairlearn/reductions/_exponentiated_gradient/_lagrangian.py"
EG = "fairlearn/reductions/_exponentiated_gradient/exponentiated_gradient.py"


def _q(x):
    if isinstance(x, bool) or not isinstance(x, (int, float)):
        raise ValueError(f"not a number: {x!r}")
    f = Fraction(repr(x)) if isinstance(x, float) else Fraction(x)
    return f"(({f.numerator})#{f.denominator})" if f < 0 else f"({f.numerator}#{f.denominator})"


def _module_consts(tree):
    out = {}
    for n in tree.body:
        if isinstance(n, ast.Assign) and len(n.targets) == 1 and isinstance(n.targets[0], ast.Name):
            v = n.value
            if isinstance(v, ast.Constant) and isinstance(v.value, (int, float)) and not isinstance(v.value, bool):
                if n.targets[0].id in out:
                    raise ValueError(f"{n.targets[0].id} assigned twice")
                out[n.targets[0].id] = v.value
    return out


def _strip(body):
    """drop docstrings and logger.* calls (no effect on the computed values)"""
    out = []
    for s in body:
        if isinstance(s, ast.Expr) and isinstance(s.value, ast.Constant):
            continue
        if isinstance(s, ast.Expr) and isinstance(s.value, ast.Call) and isinstance(s.value.func, ast.Attribute) \
                and isinstance(s.value.func.value, ast.Name) and s.value.func.value.id == "logger":
            continue
        out.append(s)
    return out


def _find_class(tree, name):
    c = next((n for n in tree.body if isinstance(n, ast.ClassDef) and n.name == name), None)
    if c is None:
        raise ValueError(f"class {name} not found")
    return c


def _find_method(cls, name):
    f = [n for n in cls.body if isinstance(n, ast.FunctionDef) and n.name == name]
    if len(f) != 1:
        raise ValueError(f"{cls.name}.{name}: expected exactly one definition")
    return f[0]


def _gap_expr(e):
    """self.L / self.L_low / self.L_high, +, -, max(a, b) -> Gallina over Lv low high"""
    names = {"L": "Lv", "L_low": "low", "L_high": "high"}
    if isinstance(e, ast.Attribute) and isinstance(e.value, ast.Name) and e.value.id == "self" and e.attr in names:
        return names[e.attr]
    if isinstance(e, ast.BinOp) and isinstance(e.op, (ast.Sub, ast.Add)):
        op = "-" if isinstance(e.op, ast.Sub) else "+"
        return f"({_gap_expr(e.left)} {op} {_gap_expr(e.right)})"
    if isinstance(e, ast.Call) and isinstance(e.func, ast.Name) and e.func.id == "max" and len(e.args) == 2 \
            and not e.keywords:
        return f"(Qmaxq {_gap_expr(e.args[0])} {_gap_expr(e.args[1])})"
    raise ValueError(f"_GapResult.gap: unsupported expression {ast.unparse(e)!r}")


def _norm(src_or_node):
    """canonical text of a statement (independent of the Python version's unparse conventions)"""
    node = ast.parse(src_or_node).body[0] if isinstance(src_or_node, str) else src_or_node
    return ast.dump(node, annotate_fields=False, include_attributes=False)


def _expect(stmts, wanted, where):
    got = [ast.unparse(s) for s in stmts]
    if [_norm(s) for s in stmts] == [_norm(w) for w in wanted]:
        return
    if got != wanted:
        for i, (g, w) in enumerate(zip(got + ["<missing>"] * len(wanted), wanted + ["<extra>"] * len(got))):
            if g == "<missing>" or w == "<extra>" or _norm(g) != _norm(w):
                raise ValueError(f"{where}: statement {i} is {g!r}, expected {w!r}")
        raise ValueError(f"{where}: unexpected statements")


def translate(repo: Path):
    repo = Path(repo)
    consts = _module_consts(ast.parse((repo / CONST).read_text()))
    for k in ("_PRECISION", "_MIN_ITER"):
        if k not in consts:
            raise ValueError(f"{k} not found in {CONST}")
    prec, min_iter = consts["_PRECISION"], consts["_MIN_ITER"]
    if not isinstance(min_iter, int) or min_iter < 0:
        raise ValueError("_MIN_ITER is not a natural number")
    if not (isinstance(prec, float) and prec >= 0):
        raise ValueError("_PRECISION is not a non-negative float")

    ltree = ast.parse((repo / LAGR).read_text())
    lag = _find_class(ltree, "_Lagrangian")
    # the constants must come from _constants (not shadowed in the module)
    if "_PRECISION" in _module_consts(ltree):
        raise ValueError("_PRECISION shadowed in _lagrangian.py")
    eg_fn = _find_method(lag, "eval_gap")
    if [a.arg for a in eg_fn.args.args] != ["self", "Q", "lambda_hat", "nu"]:
        raise ValueError("eval_gap: unexpected signature")
    body = _strip(eg_fn.body)
    if len(body) != 4 or not isinstance(body[2], ast.For):
        raise ValueError("eval_gap: unexpected statement structure")
    _expect(body[:2], ["(L, L_high, gamma, error) = self._eval(Q, lambda_hat)",
                       "result = _GapResult(L, L, L_high, gamma, error)"], "eval_gap")
    _expect(body[3:], ["return result"], "eval_gap")
    loop = body[2]
    if loop.orelse or not (isinstance(loop.target, ast.Name) and loop.target.id == "mul"):
        raise ValueError("eval_gap: unexpected for-loop header")
    if not isinstance(loop.iter, (ast.List, ast.Tuple)) or not loop.iter.elts:
        raise ValueError("eval_gap: the multipliers are not a non-empty literal list")
    muls = []
    for e in loop.iter.elts:
        if not (isinstance(e, ast.Constant) and isinstance(e.value, (int, float)) and not isinstance(e.value, bool)):
            raise ValueError("eval_gap: non-literal multiplier")
        muls.append(e.value)
    _expect(_strip(loop.body),
            ["(_, h_hat_idx) = self.best_h(mul * lambda_hat)",
             "(L_low_mul, _, _, _) = self._eval(pd.Series({h_hat_idx: 1.0}), lambda_hat)",
             "if L_low_mul < result.L_low:\n    result.L_low = L_low_mul",
             "if result.gap() > nu + _PRECISION:\n    break"], "eval_gap loop")

    gr = _find_class(ltree, "_GapResult")
    init = _strip(_find_method(gr, "__init__").body)
    _expect(init, ["self.L = L", "self.L_low = L_low", "self.L_high = L_high", "self.gamma = gamma",
                   "self.error = error"], "_GapResult.__init__")
    if [a.arg for a in _find_method(gr, "__init__").args.args] != ["self", "L", "L_low", "L_high", "gamma", "error"]:
        raise ValueError("_GapResult.__init__: unexpected signature")
    gap_body = _strip(_find_method(gr, "gap").body)
    if len(gap_body) != 1 or not isinstance(gap_body[0], ast.Return) or gap_body[0].value is None:
        raise ValueError("_GapResult.gap: body is not a single return")
    gap_src = _gap_expr(gap_body[0].value)

    # tail of _eval: L and L_high
    ev = _strip(_find_method(lag, "_eval").body)
    tail = [ast.unparse(s) for s in ev[-6:]]
    tail_n = [_norm(s) for s in ev[-6:]]
    want_tail = ["if self.opt_lambda:\n    lambda_vec = self.constraints.project_lambda(lambda_vec)",
                 "L = error + np.sum(lambda_vec * (gamma - self.constraints.bound()))",
                 "max_constraint = (gamma - self.constraints.bound()).max()",
                 "L_high = error",
                 "if max_constraint > 0:\n    L_high += self.B * max_constraint",
                 "return (L, L_high, gamma, error)"]
    if tail_n != [_norm(w) for w in want_tail]:
        bad = next(i for i, (a, b) in enumerate(zip(tail_n, want_tail)) if a != _norm(b)) if len(tail) == 6 else 0
        raise ValueError(f"_Lagrangian._eval: tail statement {bad} is {tail[bad] if tail else None!r}, "
                         f"expected {want_tail[bad]!r}")

    # fit: break rule and choice of the returned iterate
    etree = ast.parse((repo / EG).read_text())
    if any(k in _module_consts(etree) for k in ("_PRECISION", "_MIN_ITER")):
        raise ValueError("constants shadowed in exponentiated_gradient.py")
    fit = _find_method(_find_class(etree, "ExponentiatedGradient"), "fit")
    stmts = _strip(fit.body)
    loops = [s for s in stmts if isinstance(s, ast.For)]
    if len(loops) != 2 or ast.unparse(loops[0].target) != "t" or ast.unparse(loops[0].iter) != "range(0, self.max_iter)":
        raise ValueError("fit: unexpected loop structure")
    lsrc = [_norm(s) for s in _strip(loops[0].body)]
    for need in ["if gaps[t] < self.nu and t >= _MIN_ITER:\n    break",
                 "if gap_EG < gap_LP:\n    Qs.append(Q_EG)\n    gaps.append(gap_EG)\nelse:\n    Qs.append(Q_LP)\n"
                 "    gaps.append(gap_LP)",
                 "gap_EG = result_EG.gap()",
                 "result_EG = lagrangian.eval_gap(Q_EG, lambda_EG, self.nu)",
                 "Q_EG = Qsum / Qsum.sum()"]:
        if lsrc.count(_norm(need)) != 1:
            raise ValueError(f"fit loop: expected exactly one statement {need!r}")
    after = [ast.unparse(s) for s in stmts[stmts.index(loops[0]) + 1:]]
    want_after = ["gaps_series = pd.Series(gaps)",
                  "gaps_best = gaps_series[gaps_series <= gaps_series.min() + _PRECISION]",
                  "self.best_iter_ = gaps_best.index[-1]",
                  "self.best_gap_ = gaps[self.best_iter_]",
                  "self.weights_ = Qs[self.best_iter_]"]
    after_n = [_norm(s) for s in stmts[stmts.index(loops[0]) + 1:]]
    if after_n[:5] != [_norm(w) for w in want_after]:
        bad = next((i for i, (a, b) in enumerate(zip(after_n, want_after)) if a != _norm(b)), 0)
        raise ValueError(f"fit: statement {bad} after the loop is {after[bad] if after else None!r}, "
                         f"expected {want_after[bad]!r}")

    text = ("(* GENERATED by translators/t_egconst.py from " + CONST + ", " + LAGR + " and " + EG +
            " -- do not edit *)\n"
            "From Coq Require Import QArith List.\nFrom FL Require Import Num.\nImport ListNotations.\n"
            "Open Scope Q_scope.\n"
            f"Definition precision : Q := {_q(prec)}.\n"
            f"Definition min_iter : nat := {min_iter}%nat.\n"
            f"Definition muls : list Q := [{'; '.join(_q(m) for m in muls)}].\n"
            f"Definition gap_of_src (Lv low high : Q) : Q := {gap_src}.\n")
    return {"Gen_egconst.v": text}
