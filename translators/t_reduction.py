"""t_reduction: regenerate the kernels of the reduction step (C07) that t_moments does not cover.

Generated (Gen_reduction.v), every definition from the statement named on the right:
  project_lambda_src r m lam          <- UtilityParity.project_lambda, WHOLE body (condition, difference, negation,
                                         the two clippings, concatenation order, fall-through return)
  er_default_costs_src, er_index_src  <- ErrorRate.__init__ (costs=None) / ErrorRate.load_data `self._index = [_ALL]`
  er_signed_error_src y p             <- ErrorRate.gamma `signed_errors = self.tags[_LABEL] - pred`
  er_total_fn_src / er_total_fp_src   <- `np.sum(signed_errors[signed_errors > 0] * self.fn_cost)` / the fp line
  er_error_value_src                  <- `(total_fn_cost + total_fp_cost) / self.total_samples`
  er_weight_src fp fn y               <- ErrorRate.signed_weights `weights = -self.fp_cost + (...) * self.tags[_LABEL]`
  er_weight_lam_src l w               <- `lambda_vec[_ALL] * weights`
  prob_attr_entry_src size n          <- ConditionalLossMoment.load_data `self.prob_attr = ....size() / self.total_samples`
  bgl_signed_weights_src rows lam     <- ConditionalLossMoment.signed_weights, WHOLE body (None branch, division, lookup)
  co_weights_entry_src o c            <- _Lagrangian._call_oracle `signed_weights = self.obj.signed_weights() + ...`
  co_relabel_entry_src w              <- `redY = 1 * (signed_weights > 0)`
  co_abs_entry_src w                  <- `redW = signed_weights.abs()`
  co_norm_entry_src n a s             <- `redW = self.constraints.total_samples * redW / redW.sum()`
  co_dummy_constant_src redY          <- `redY_unique = np.unique(redY)`, `len(redY_unique) == 1`, `constant=redY_unique[0]`
Everything else in _call_oracle (which estimator is trained on what, the classification test, the order of the
statements), ErrorRate.load_data, ErrorRate.gamma's frame, ConditionalLossMoment.gamma and the `index` properties is
compared LITERALLY (docstrings, logger.debug calls and annotations removed) with the text the model was written from.
signed_weights / project_lambda / bound of the three moment classes must not assign to `self` (loaded state is
written by load_data only).  Any other shape raises (fail closed)."""
import ast
import copy
from fractions import Fraction
from pathlib import Path

OUTPUTS = ["Gen_reduction.v"]
UP = "fairlearn/reductions/_moments/utility_parity.py"
ER = "fairlearn/reductions/_moments/error_rate.py"
BGL = "fairlearn/reductions/_moments/bounded_group_loss.py"
LAG = "fairlearn/reductions/_exponentiated_gradient/_lagrangian.py"


class Shape(ValueError):
    pass


# ---------------------------------------------------------------------------------------------
# scalar (entry-wise) expressions
# ---------------------------------------------------------------------------------------------
BIN = {ast.Add: "+", ast.Sub: "-", ast.Mult: "*", ast.Div: "/"}
CMP = {ast.Gt: lambda a, b: f"(Qltb {b} {a})", ast.GtE: lambda a, b: f"(Qleb {b} {a})",
       ast.Lt: lambda a, b: f"(Qltb {a} {b})", ast.LtE: lambda a, b: f"(Qleb {a} {b})",
       ast.Eq: lambda a, b: f"(Qeqb {a} {b})", ast.NotEq: lambda a, b: f"(negb (Qeqb {a} {b}))"}


def _where(e):
    return f"line {getattr(e, 'lineno', '?')}: {ast.unparse(e)[:90]}"


def _q(v):
    if isinstance(v, bool) or not isinstance(v, (int, float)):
        raise Shape(f"constant {v!r} is not a number")
    f = Fraction(v)
    if isinstance(v, float) and float(f) != v:
        raise Shape(f"constant {v!r} is not exactly representable")
    if f.denominator > 10 ** 6 or abs(f.numerator) > 10 ** 9:
        raise Shape(f"constant {v!r} out of range")
    return f"(({f.numerator})#{f.denominator})" if f.numerator < 0 else f"({f.numerator}#{f.denominator})"


def _is_one(e):
    return isinstance(e, ast.Constant) and type(e.value) is int and e.value == 1


def _cmp(e, atoms):
    if isinstance(e, ast.Compare) and len(e.ops) == 1 and type(e.ops[0]) in CMP:
        return CMP[type(e.ops[0])](_num(e.left, atoms), _num(e.comparators[0], atoms))
    raise Shape(f"unsupported condition at {_where(e)}")


def _num(e, atoms):
    """numeric (element-wise) expression -> Coq term of type Q; atoms: unparsed source -> Coq term"""
    src = ast.unparse(e)
    if src in atoms:
        return atoms[src]
    if isinstance(e, ast.Constant):
        return _q(e.value)
    if isinstance(e, ast.UnaryOp) and isinstance(e.op, ast.USub):
        return f"(- {_num(e.operand, atoms)})"
    if isinstance(e, ast.UnaryOp) and isinstance(e.op, ast.UAdd):
        return _num(e.operand, atoms)
    if isinstance(e, ast.BinOp) and isinstance(e.op, ast.Mult):
        # the integer cast idiom `1 * (boolean series)`
        if _is_one(e.left) and isinstance(e.right, ast.Compare):
            return f"(ind {_cmp(e.right, atoms)})"
        if _is_one(e.right) and isinstance(e.left, ast.Compare):
            return f"(ind {_cmp(e.left, atoms)})"
    if isinstance(e, ast.BinOp) and type(e.op) in BIN:
        return f"({_num(e.left, atoms)} {BIN[type(e.op)]} {_num(e.right, atoms)})"
    if isinstance(e, ast.Call) and not e.keywords:
        if isinstance(e.func, ast.Attribute) and e.func.attr == "abs" and not e.args:
            return f"(qabs {_num(e.func.value, atoms)})"
        if ast.unparse(e.func) in ("abs", "np.abs", "np.absolute") and len(e.args) == 1:
            return f"(qabs {_num(e.args[0], atoms)})"
    raise Shape(f"unsupported expression at {_where(e)}")


# ---------------------------------------------------------------------------------------------
# statements
# ---------------------------------------------------------------------------------------------
def _is_noise(s):
    if isinstance(s, ast.Expr) and isinstance(s.value, ast.Constant):
        return True
    return isinstance(s, ast.Expr) and isinstance(s.value, ast.Call) and ast.unparse(s.value.func) == "logger.debug"


def _strip(node):
    """remove docstrings, logger.debug calls and annotations (in place, on a private copy)"""
    if isinstance(node, ast.FunctionDef):
        node.returns = None
        for a in node.args.args + node.args.kwonlyargs + node.args.posonlyargs:
            a.annotation = None
    for fld in ("body", "orelse", "finalbody"):
        stmts = getattr(node, fld, None)
        if isinstance(stmts, list):
            kept = [s for s in stmts if not _is_noise(s)]
            if not kept and stmts and fld == "body":
                kept = [ast.Pass()]
            setattr(node, fld, kept)
            for s in kept:
                _strip(s)
    return node


def _norm(text):
    return ast.unparse(ast.parse(text))


def _classes(repo, rel):
    tree = ast.parse((Path(repo) / rel).read_text())
    out = {}
    for n in tree.body:
        if isinstance(n, ast.ClassDef):
            if n.name in out:
                raise Shape(f"{rel}: class {n.name} defined twice")
            out[n.name] = n
    return tree, out


def _methods(cls):
    fns = {}
    for n in cls.body:
        if isinstance(n, ast.FunctionDef):
            if n.name in fns:
                raise Shape(f"{cls.name}.{n.name} defined twice")
            fns[n.name] = _strip(copy.deepcopy(n))
    return fns


def _need(fns, cname, name, args=None, decorators=()):
    f = fns.get(name)
    if f is None:
        raise Shape(f"{cname}.{name} not found")
    if [ast.unparse(d) for d in f.decorator_list] != list(decorators):
        raise Shape(f"{cname}.{name}: unexpected decorators")
    f.decorator_list = []
    if args is not None:
        got = ast.unparse(f.args)
        if got != args:
            raise Shape(f"{cname}.{name}: arguments ({got}), expected ({args})")
    return f


def _single_assign(stmts, target, what):
    found = [s for s in stmts if isinstance(s, ast.Assign) and len(s.targets) == 1
             and ast.unparse(s.targets[0]) == target]
    if len(found) != 1:
        raise Shape(f"{what}: expected exactly one top-level assignment to {target}, found {len(found)}")
    return found[0]


def _hole(name):
    return ast.Name(id=name, ctx=ast.Load())


def _literal(f, template, what):
    got = ast.unparse(f)
    want = _norm(template)
    if got != want:
        import difflib
        d = [ln for ln in difflib.unified_diff(want.splitlines(), got.splitlines(), lineterm="", n=0)
             if not ln.startswith(("---", "+++", "@@"))]
        raise Shape(f"{what} differs from the modelled text: " + " | ".join(d)[:400])


def _self_writes(f):
    """targets of the form self.<...> written anywhere in f (assignment, augmented assignment, del, setattr)"""
    out = []
    for s in ast.walk(f):
        tg = []
        if isinstance(s, (ast.Assign, ast.Delete)):
            tg = s.targets
        elif isinstance(s, (ast.AugAssign, ast.AnnAssign)):
            tg = [s.target]
        elif isinstance(s, ast.Call) and ast.unparse(s.func) in ("setattr", "object.__setattr__", "delattr"):
            out.append(ast.unparse(s))
        for t in tg:
            for el in (t.elts if isinstance(t, (ast.Tuple, ast.List)) else [t]):
                base = el
                while isinstance(base, (ast.Subscript, ast.Attribute)):
                    if isinstance(base, ast.Attribute) and isinstance(base.value, ast.Name) and base.value.id == "self":
                        out.append(ast.unparse(el))
                        break
                    base = base.value
    return out


def _pure(fns, cname, names):
    for nm in names:
        if nm in fns:
            w = _self_writes(fns[nm])
            if w:
                raise Shape(f"{cname}.{nm} writes object state: {w[:3]}")


# ---------------------------------------------------------------------------------------------
# vector programs (UtilityParity.project_lambda)
# ---------------------------------------------------------------------------------------------
RESERVED = {"lam", "m", "r", "a", "b", "rows", "rw"}
CONCAT_NAMES = "[_SIGN, _EVENT, _GROUP_ID]"


def _vec(e, env):
    """series-valued expression -> Coq term of type list Q; env: python name -> Coq name"""
    if isinstance(e, ast.Name):
        if e.id in env:
            return env[e.id]
        raise Shape(f"unknown name at {_where(e)}")
    if isinstance(e, ast.Subscript) and isinstance(e.value, ast.Name) and e.value.id == "lambda_vec" \
            and env.get("lambda_vec") == "lam" and isinstance(e.slice, ast.Constant) and e.slice.value in ("+", "-"):
        # index = '+' block ++ '-' block, each of length m (t_moments ties the concat that builds it)
        return "(firstn m lam)" if e.slice.value == "+" else "(skipn m lam)"
    if isinstance(e, ast.UnaryOp) and isinstance(e.op, ast.USub):
        return f"(map (fun a => - a) {_vec(e.operand, env)})"
    if isinstance(e, ast.BinOp) and type(e.op) in (ast.Add, ast.Sub):
        return f"(zipw (fun a b => a {BIN[type(e.op)]} b) {_vec(e.left, env)} {_vec(e.right, env)})"
    if isinstance(e, ast.Call) and isinstance(e.func, ast.Attribute) and e.func.attr == "copy" and not e.args \
            and not e.keywords:
        return _vec(e.func.value, env)
    if isinstance(e, ast.Call) and isinstance(e.func, ast.Attribute) and e.func.attr == "clip" and not e.args \
            and [k.arg for k in e.keywords] == ["lower"]:
        c = _num(e.keywords[0].value, {})
        return f"(map (fun a => if (Qltb a {c}) then {c} else a) {_vec(e.func.value, env)})"
    if isinstance(e, ast.Call) and ast.unparse(e.func) == "pd.concat":
        kw = {k.arg: k.value for k in e.keywords}
        if len(e.args) != 1 or set(kw) != {"keys", "names"} or not isinstance(e.args[0], ast.List) \
                or len(e.args[0].elts) != 2:
            raise Shape(f"pd.concat: unexpected arguments at {_where(e)}")
        if ast.unparse(kw["keys"]) != "['+', '-']" or ast.unparse(kw["names"]) != CONCAT_NAMES:
            raise Shape(f"pd.concat: keys / names not recognised at {_where(e)}")
        return f"({_vec(e.args[0].elts[0], env)} ++ {_vec(e.args[0].elts[1], env)})"
    raise Shape(f"unsupported series expression at {_where(e)}")


def _returns(stmts):
    """every path through stmts ends in a return"""
    if not stmts:
        return False
    s = stmts[-1]
    if isinstance(s, ast.Return):
        return True
    return isinstance(s, ast.If) and _returns(s.body) and _returns(s.orelse)


def _block(stmts, env, scal, ind):
    pad = "  " * ind
    if not stmts:
        raise Shape("a path falls off the end of the function without a return")
    s, rest = stmts[0], stmts[1:]
    if isinstance(s, ast.Return):
        if rest or s.value is None:
            raise Shape(f"unexpected return at {_where(s)}")
        return pad + _vec(s.value, env)
    if isinstance(s, ast.Assign) and len(s.targets) == 1 and isinstance(s.targets[0], ast.Name):
        nm = s.targets[0].id
        if nm in RESERVED or nm == "lambda_vec":
            raise Shape(f"assignment to reserved name {nm}")
        if isinstance(s.value, ast.Name):
            raise Shape(f"alias assignment at {_where(s)} (in-place updates would be shared)")
        rhs = _vec(s.value, env)
        return f"{pad}let {nm} := {rhs} in\n" + _block(rest, dict(env, **{nm: nm}), scal, ind)
    if isinstance(s, ast.Assign) and len(s.targets) == 1 and isinstance(s.targets[0], ast.Subscript):
        t = s.targets[0]
        if not (isinstance(t.value, ast.Name) and t.value.id in env and t.value.id != "lambda_vec"):
            raise Shape(f"masked assignment to something that is not a local series at {_where(s)}")
        nm = t.value.id
        c = t.slice
        if not (isinstance(c, ast.Compare) and isinstance(c.left, ast.Name) and c.left.id == nm):
            raise Shape(f"mask is not a comparison of the same series at {_where(s)}")
        cond = _cmp(c, {nm: "a"})
        val = _num(s.value, {})
        return (f"{pad}let {nm} := (map (fun a => if {cond} then {val} else a) {env[nm]}) in\n"
                + _block(rest, env, scal, ind))
    if isinstance(s, ast.If):
        test = _cmp(s.test, scal)
        if s.orelse:
            if rest or not (_returns(s.body) and _returns(s.orelse)):
                raise Shape(f"if/else whose branches do not both return at {_where(s)}")
            return (f"{pad}if {test} then\n" + _block(s.body, env, scal, ind + 1) + f"\n{pad}else\n"
                    + _block(s.orelse, env, scal, ind + 1))
        if not _returns(s.body):
            raise Shape(f"if without else whose body does not return at {_where(s)}")
        return (f"{pad}if {test} then\n" + _block(s.body, env, scal, ind + 1) + f"\n{pad}else\n"
                + _block(rest, env, scal, ind + 1))
    raise Shape(f"unsupported statement at {_where(s)}")


def _project_lambda(repo):
    _, classes = _classes(repo, UP)
    up = classes.get("UtilityParity")
    if up is None:
        raise Shape("class UtilityParity not found")
    fns = _methods(up)
    f = _need(fns, "UtilityParity", "project_lambda", "self, lambda_vec")
    _pure(fns, "UtilityParity", ["project_lambda", "signed_weights", "bound"])
    for cname, c in classes.items():          # a subclass must not override the projection / the weights
        if cname != "UtilityParity":
            for n in c.body:
                if isinstance(n, ast.FunctionDef) and n.name in ("project_lambda", "signed_weights"):
                    raise Shape(f"{cname} overrides {n.name}")
    body = _block(f.body, {"lambda_vec": "lam"}, {"self.ratio": "r"}, 1)
    return ["(* UtilityParity.project_lambda; lam is aligned with index = '+' block ++ '-' block, m = length of a block *)",
            "Definition project_lambda_src (r : Q) (m : nat) (lam : list Q) : list Q :=", body + ".", ""]


# ---------------------------------------------------------------------------------------------
# ErrorRate
# ---------------------------------------------------------------------------------------------
ER_LOAD_TEMPLATE = """def load_data(self, X, y, *, sensitive_features, control_features=None):
    _, y_train, sf_train, _ = _validate_and_reformat_input(X, y, enforce_binary_labels=True, sensitive_features=sensitive_features, control_features=control_features)
    super().load_data(X, y_train, sensitive_features=sf_train)
    self._index = HOLE_INDEX"""

ER_GAMMA_TEMPLATE = """def gamma(self, predictor):
    pred = predictor(self.X)
    if isinstance(pred, np.ndarray):
        pred = np.squeeze(pred)
    signed_errors = HOLE_SIGNED
    total_fn_cost = HOLE_FN
    total_fp_cost = HOLE_FP
    error_value = HOLE_VALUE
    error = pd.Series(data=error_value, index=self.index)
    self._gamma_descr = str(error)
    return error"""

INDEX_TEMPLATE = """def index(self):
    return self._index"""

IDENTITY_PROJECTION = """def project_lambda(self, lambda_vec):
    return lambda_vec"""


def _masked_sum(e, cost_atoms):
    """np.sum(<entry-wise expression over signed_errors[signed_errors CMP c]>)  or  (<...>).sum()"""
    if isinstance(e, ast.Call) and ast.unparse(e.func) in ("np.sum", "sum") and len(e.args) == 1 and not e.keywords:
        inner = e.args[0]
    elif isinstance(e, ast.Call) and isinstance(e.func, ast.Attribute) and e.func.attr == "sum" and not e.args \
            and not e.keywords:
        inner = e.func.value
    else:
        raise Shape(f"not a sum at {_where(e)}")
    subs = [n for n in ast.walk(inner) if isinstance(n, ast.Subscript)]
    names = [n for n in ast.walk(inner) if isinstance(n, ast.Name) and n.id == "signed_errors"]
    if len(subs) != 1 or len(names) != 2:
        raise Shape(f"expected exactly one masked selection of signed_errors at {_where(e)}")
    sub = subs[0]
    if not (isinstance(sub.value, ast.Name) and sub.value.id == "signed_errors" and isinstance(sub.slice, ast.Compare)
            and isinstance(sub.slice.left, ast.Name) and sub.slice.left.id == "signed_errors"):
        raise Shape(f"mask not recognised at {_where(sub)}")
    cond = _cmp(sub.slice, {"signed_errors": "s"})
    entry = _num(inner, dict(cost_atoms, **{ast.unparse(sub): "s"}))
    return f"qsum (map (fun s => {entry}) (filter (fun s => {cond}) signed_errors))"


def _error_rate(repo):
    _, classes = _classes(repo, ER)
    er = classes.get("ErrorRate")
    if er is None:
        raise Shape("class ErrorRate not found")
    fns = _methods(er)
    out = []
    # ---- __init__: default costs and which key goes where
    init = _need(fns, "ErrorRate", "__init__", "self, *, costs=None")
    ifs = [s for s in init.body if isinstance(s, ast.If)]
    if len(ifs) != 1 or ast.unparse(ifs[0].test) != "costs is None" or len(ifs[0].orelse) != 1 \
            or not isinstance(ifs[0].orelse[0], ast.If):
        raise Shape("ErrorRate.__init__: `if costs is None: ... elif ...: ... else: raise` expected")
    dflt = {ast.unparse(s.targets[0]): s.value for s in ifs[0].body if isinstance(s, ast.Assign) and len(s.targets) == 1}
    if set(dflt) != {"self.fp_cost", "self.fn_cost"} or len(ifs[0].body) != 2:
        raise Shape("ErrorRate.__init__: the default branch must assign fp_cost and fn_cost only")
    given = ifs[0].orelse[0]
    got = sorted(ast.unparse(s) for s in given.body)
    if got != ["self.fn_cost = costs['fn']", "self.fp_cost = costs['fp']"]:
        raise Shape(f"ErrorRate.__init__: costs branch {got}")
    if len(given.orelse) != 1 or not isinstance(given.orelse[0], ast.Raise):
        raise Shape("ErrorRate.__init__: the else branch must raise")
    for nm, f in fns.items():
        if nm != "__init__" and any(w.startswith(("self.fp_cost", "self.fn_cost")) for w in _self_writes(f)):
            raise Shape(f"ErrorRate.{nm} assigns the costs")
    out += ["(* ErrorRate.__init__(costs=None): (fp_cost, fn_cost) *)",
            f"Definition er_default_costs_src : Q * Q := ({_num(dflt['self.fp_cost'], {})}, {_num(dflt['self.fn_cost'], {})}).", ""]
    # ---- load_data / index
    ld = _need(fns, "ErrorRate", "load_data")
    a_idx = _single_assign(ld.body, "self._index", "ErrorRate.load_data")
    idx = a_idx.value
    if not (isinstance(idx, ast.List) and all(ast.unparse(x) == "_ALL" for x in idx.elts)):
        raise Shape(f"ErrorRate.load_data: index {ast.unparse(idx)!r} is not a list of _ALL")
    n_idx = len(idx.elts)
    a_idx.value = _hole("HOLE_INDEX")
    _literal(ld, ER_LOAD_TEMPLATE, "ErrorRate.load_data")
    _literal(_need(fns, "ErrorRate", "index", decorators=["property"]), INDEX_TEMPLATE, "ErrorRate.index")
    _literal(_need(fns, "ErrorRate", "project_lambda"), IDENTITY_PROJECTION, "ErrorRate.project_lambda")
    for nm, f in fns.items():
        if nm != "load_data" and any(w.startswith(("self._index", "self.tags", "self.X")) for w in _self_writes(f)):
            raise Shape(f"ErrorRate.{nm} writes loaded state")
    out += ["(* ErrorRate.load_data: self._index = [_ALL]   (code 2 = all) *)",
            "Definition er_index_src : list Z := [" + "; ".join(["2%Z"] * n_idx) + "].", ""]
    # ---- gamma
    gm = _need(fns, "ErrorRate", "gamma", "self, predictor")
    costs = {"self.fp_cost": "fp", "self.fn_cost": "fn"}
    a = _single_assign(gm.body, "signed_errors", "ErrorRate.gamma")
    signed = _num(a.value, {"self.tags[_LABEL]": "y", "pred": "p"})
    a.value = _hole("HOLE_SIGNED")
    a = _single_assign(gm.body, "total_fn_cost", "ErrorRate.gamma")
    tfn = _masked_sum(a.value, costs)
    a.value = _hole("HOLE_FN")
    a = _single_assign(gm.body, "total_fp_cost", "ErrorRate.gamma")
    tfp = _masked_sum(a.value, costs)
    a.value = _hole("HOLE_FP")
    a = _single_assign(gm.body, "error_value", "ErrorRate.gamma")
    val = _num(a.value, {"total_fn_cost": "total_fn_cost", "total_fp_cost": "total_fp_cost", "self.total_samples": "n"})
    a.value = _hole("HOLE_VALUE")
    _literal(gm, ER_GAMMA_TEMPLATE, "ErrorRate.gamma")
    out += ["(* ErrorRate.gamma: y = tags[label], p = prediction, n = total_samples *)",
            f"Definition er_signed_error_src (y p : Q) : Q := {signed}.",
            f"Definition er_total_fn_src (fp fn : Q) (signed_errors : list Q) : Q :=\n  {tfn}.",
            f"Definition er_total_fp_src (fp fn : Q) (signed_errors : list Q) : Q :=\n  {tfp}.",
            f"Definition er_error_value_src (total_fn_cost total_fp_cost n : Q) : Q := {val}.", ""]
    # ---- signed_weights
    sw = _need(fns, "ErrorRate", "signed_weights", "self, lambda_vec=None")
    _pure(fns, "ErrorRate", ["signed_weights", "project_lambda", "bound", "index"])
    b = sw.body
    if len(b) not in (2, 3) or not isinstance(b[1], ast.If) or ast.unparse(b[1].test) != "lambda_vec is None":
        raise Shape("ErrorRate.signed_weights: `weights = ...; if lambda_vec is None: ...` expected")
    a = _single_assign(b[:1], "weights", "ErrorRate.signed_weights")
    w = _num(a.value, dict(costs, **{"self.tags[_LABEL]": "y"}))
    if [ast.unparse(s) for s in b[1].body] != ["return weights"]:
        raise Shape("ErrorRate.signed_weights: the None branch must return the weights")
    other = b[1].orelse if len(b) == 2 else b[2:]
    if (len(b) == 3 and b[1].orelse) or len(other) != 1 or not isinstance(other[0], ast.Return) or other[0].value is None:
        raise Shape("ErrorRate.signed_weights: a single return for the multiplier branch expected")
    wl = _num(other[0].value, {"lambda_vec[_ALL]": "l", "weights": "w"})
    out += ["(* ErrorRate.signed_weights: y = tags[label]; with a multiplier: l = lambda_vec[all], w = the weight above *)",
            f"Definition er_weight_src (fp fn y : Q) : Q := {w}.",
            f"Definition er_weight_lam_src (l w : Q) : Q := {wl}.", ""]
    return out


# ---------------------------------------------------------------------------------------------
# ConditionalLossMoment
# ---------------------------------------------------------------------------------------------
BGL_GAMMA_TEMPLATE = """def gamma(self, predictor):
    self.tags[_PREDICTION] = predictor(self.X)
    self.tags[_LOSS] = self.reduction_loss.eval(self.tags[_LABEL], self.tags[_PREDICTION])
    expect_attr = self.tags.groupby(_GROUP_ID).mean()
    self._gamma_descr = str(expect_attr[[_LOSS]])
    return expect_attr[_LOSS]"""

BGL_LOAD_HEAD = ["(_, y_train, sf_train, _) = _validate_and_reformat_input(X, y, enforce_binary_labels=False, "
                 "sensitive_features=sensitive_features)",
                 "if self.no_groups:\n    sf_train = y_train.apply(lambda v: _ALL)",
                 "super().load_data(X, y_train, sensitive_features=sf_train)",
                 "self.prob_attr = HOLE_PROB",
                 "self._index = self.prob_attr.index",
                 "self.default_objective_lambda_vec = self.prob_attr"]

BGL_LOOKUP = "return self.tags.apply(lambda row: adjust[row[_GROUP_ID]], axis=1)"


def _loss_moment(repo):
    _, classes = _classes(repo, BGL)
    cl = classes.get("ConditionalLossMoment")
    if cl is None:
        raise Shape("class ConditionalLossMoment not found")
    fns = _methods(cl)
    for cname in ("MeanLoss", "BoundedGroupLoss"):
        c = classes.get(cname)
        if c is None or [ast.unparse(b) for b in c.bases] != ["ConditionalLossMoment"]:
            raise Shape(f"{cname} must derive from ConditionalLossMoment")
        extra = [n.name for n in c.body if isinstance(n, ast.FunctionDef) and n.name != "__init__"]
        if extra:
            raise Shape(f"{cname} overrides {extra}")
    out = []
    # ---- load_data: prob_attr and the index
    ld = _need(fns, "ConditionalLossMoment", "load_data", "self, X, y, *, sensitive_features")
    a = _single_assign(ld.body, "self.prob_attr", "ConditionalLossMoment.load_data")
    pa = _num(a.value, {"self.tags.groupby(_GROUP_ID).size()": "size", "self.total_samples": "n"})
    a.value = _hole("HOLE_PROB")
    head = [ast.unparse(s) for s in ld.body[:len(BGL_LOAD_HEAD)]]
    want = [_norm(t) for t in BGL_LOAD_HEAD]
    if head != want:
        bad = next((g for g, w in zip(head, want) if g != w), "(too short)")
        raise Shape(f"ConditionalLossMoment.load_data: unexpected statement {bad[:160]!r}")
    for s in ld.body[len(BGL_LOAD_HEAD):]:      # the basis block (C09's concern) must not touch what was tied above
        for w in _self_writes(s):
            if w.startswith(("self.prob_attr", "self._index", "self.tags", "self.X", "self.default_objective")):
                raise Shape(f"ConditionalLossMoment.load_data: later statement writes {w}")
    for nm, f in fns.items():
        if nm == "load_data":
            continue
        bad = [w for w in _self_writes(f) if w.startswith(("self.prob_attr", "self._index", "self.X",
                                                           "self.default_objective"))]
        if nm != "gamma":
            bad += [w for w in _self_writes(f) if w.startswith("self.tags")]
        if bad:
            raise Shape(f"ConditionalLossMoment.{nm} writes loaded state: {bad[:3]}")
    _literal(_need(fns, "ConditionalLossMoment", "index", decorators=["property"]), INDEX_TEMPLATE,
             "ConditionalLossMoment.index")
    _literal(_need(fns, "ConditionalLossMoment", "project_lambda"), IDENTITY_PROJECTION,
             "ConditionalLossMoment.project_lambda")
    _literal(_need(fns, "ConditionalLossMoment", "gamma", "self, predictor"), BGL_GAMMA_TEMPLATE,
             "ConditionalLossMoment.gamma")
    out += ["(* ConditionalLossMoment.load_data: size = rows of the group, n = total_samples *)",
            f"Definition prob_attr_entry_src (size n : Q) : Q := {pa}.", ""]
    # ---- signed_weights
    sw = _need(fns, "ConditionalLossMoment", "signed_weights", "self, lambda_vec=None")
    _pure(fns, "ConditionalLossMoment", ["signed_weights", "project_lambda", "bound", "index", "default_objective"])
    b = sw.body
    if len(b) != 2 or not isinstance(b[0], ast.If) or len(b[0].body) != 1 or len(b[0].orelse) != 1:
        raise Shape("ConditionalLossMoment.signed_weights: `if ...: adjust = ... else: adjust = ...; return ...` expected")
    test = ast.unparse(b[0].test)
    if test == "lambda_vec is None":
        none_b, some_b = b[0].body, b[0].orelse
    elif test == "lambda_vec is not None":
        none_b, some_b = b[0].orelse, b[0].body
    else:
        raise Shape(f"ConditionalLossMoment.signed_weights: test {test!r}")
    a_none = _single_assign(none_b, "adjust", "signed_weights / None branch").value
    a_some = _single_assign(some_b, "adjust", "signed_weights / multiplier branch").value
    if not (isinstance(a_none, ast.Call) and ast.unparse(a_none.func) == "pd.Series" and len(a_none.args) == 1
            and [k.arg for k in a_none.keywords] == ["index"] and ast.unparse(a_none.keywords[0].value) == "self.index"):
        raise Shape(f"signed_weights / None branch: {ast.unparse(a_none)!r}")
    unit = _num(a_none.args[0], {})
    entry = _num(a_some, {"lambda_vec": "l", "self.prob_attr": "p"})
    if ast.unparse(b[1]) != _norm(BGL_LOOKUP):
        raise Shape(f"signed_weights: lookup line {ast.unparse(b[1])!r}")
    out += ["(* ConditionalLossMoment.signed_weights: l = lambda_vec[g], p = prob_attr[g] (both over self.index) *)",
            f"Definition bgl_adjust_unit_src : Q := {unit}.",
            f"Definition bgl_adjust_entry_src (l p : Q) : Q := {entry}.",
            "Definition bgl_signed_weights_src (rows : list lrow) (lam : option (list Q)) : list Q :=",
            "  let adjust := match lam with",
            "                | None => map (fun _ => bgl_adjust_unit_src) (bgl_index rows)",
            "                | Some lambda_vec => zipw bgl_adjust_entry_src lambda_vec (prob_attr rows)",
            "                end in",
            "  map (fun rw => match zassoc (snd rw) (combine (bgl_index rows) adjust) with Some a => a | None => 0 end) rows.",
            ""]
    return out


# ---------------------------------------------------------------------------------------------
# _Lagrangian._call_oracle
# ---------------------------------------------------------------------------------------------
CALL_ORACLE_TEMPLATE = """def _call_oracle(self, lambda_vec):
    signed_weights = HOLE_WEIGHTS
    if isinstance(self.constraints, ClassificationMoment):
        redY = HOLE_RELABEL
    else:
        redY = self.constraints._y_as_series
    redW = HOLE_ABS
    redW = HOLE_NORM
    redY_unique = np.unique(redY)
    estimator = None
    if HOLE_SINGLE:
        estimator = DummyClassifier(strategy='constant', constant=HOLE_CONSTANT)
        self.n_oracle_calls_dummy_returned += 1
    else:
        estimator = clone(estimator=self.estimator, safe=False)
    oracle_call_start_time = time()
    estimator.fit(self.constraints.X, redY, **{self.sample_weight_name: redW})
    self.oracle_execution_times.append(time() - oracle_call_start_time)
    self.n_oracle_calls += 1
    return estimator"""


def _small_nat(e, what):
    if isinstance(e, ast.Constant) and type(e.value) is int and 0 <= e.value < 100:
        return str(e.value)
    raise Shape(f"{what}: small natural number expected, found {ast.unparse(e)!r}")


def _call_oracle(repo):
    _, classes = _classes(repo, LAG)
    lg = classes.get("_Lagrangian")
    if lg is None:
        raise Shape("class _Lagrangian not found")
    fns = _methods(lg)
    f = _need(fns, "_Lagrangian", "_call_oracle", "self, lambda_vec")
    top = f.body
    a = _single_assign(top, "signed_weights", "_call_oracle")
    weights = _num(a.value, {"self.obj.signed_weights()": "o", "self.constraints.signed_weights(lambda_vec)": "c"})
    a.value = _hole("HOLE_WEIGHTS")
    cls_if = [s for s in top if isinstance(s, ast.If)
              and ast.unparse(s.test) == "isinstance(self.constraints, ClassificationMoment)"]
    if len(cls_if) != 1 or len(cls_if[0].body) != 1:
        raise Shape("_call_oracle: `if isinstance(self.constraints, ClassificationMoment):` with one statement expected")
    a = _single_assign(cls_if[0].body, "redY", "_call_oracle / relabelling")
    relabel = _num(a.value, {"signed_weights": "w"})
    a.value = _hole("HOLE_RELABEL")
    ws = [s for s in top if isinstance(s, ast.Assign) and len(s.targets) == 1 and ast.unparse(s.targets[0]) == "redW"]
    if len(ws) != 2:
        raise Shape(f"_call_oracle: two assignments to redW expected, found {len(ws)}")
    absw = _num(ws[0].value, {"signed_weights": "w"})
    norm = _num(ws[1].value, {"self.constraints.total_samples": "n", "redW.sum()": "s", "redW": "a"})
    ws[0].value = _hole("HOLE_ABS")
    ws[1].value = _hole("HOLE_NORM")
    dm = [s for s in top if isinstance(s, ast.If) and s is not cls_if[0]]
    if len(dm) != 1:
        raise Shape("_call_oracle: the single-label branch was not found")
    t = dm[0].test
    if not (isinstance(t, ast.Compare) and len(t.ops) == 1 and isinstance(t.ops[0], ast.Eq)
            and ast.unparse(t.left) == "len(redY_unique)"):
        raise Shape(f"_call_oracle: single-label test {ast.unparse(t)!r}")
    single = _small_nat(t.comparators[0], "_call_oracle: single-label test")
    dm[0].test = _hole("HOLE_SINGLE")
    calls = [s for s in dm[0].body if isinstance(s, ast.Assign) and isinstance(s.value, ast.Call)
             and ast.unparse(s.value.func) == "DummyClassifier"]
    if len(calls) != 1:
        raise Shape("_call_oracle: DummyClassifier(...) not found in the single-label branch")
    kw = {k.arg: k for k in calls[0].value.keywords}
    c = kw.get("constant")
    if c is None or not (isinstance(c.value, ast.Subscript) and ast.unparse(c.value.value) == "redY_unique"):
        raise Shape("_call_oracle: DummyClassifier constant is not an element of redY_unique")
    pos = _small_nat(c.value.slice, "_call_oracle: DummyClassifier constant")
    c.value = _hole("HOLE_CONSTANT")
    _literal(f, CALL_ORACLE_TEMPLATE, "_Lagrangian._call_oracle")
    return ["(* _Lagrangian._call_oracle: o = objective weight, c = constraint weight of one row *)",
            f"Definition co_weights_entry_src (o c : Q) : Q := {weights}.",
            "(* redY = ... (classification) *)",
            f"Definition co_relabel_entry_src (w : Q) : Q := {relabel}.",
            "(* redW = ... (first assignment) *)",
            f"Definition co_abs_entry_src (w : Q) : Q := {absw}.",
            "(* redW = ... (second assignment): n = total_samples, a = redW[i], s = redW.sum() *)",
            f"Definition co_norm_entry_src (n a s : Q) : Q := {norm}.",
            "(* redY_unique = np.unique(redY); the test of the DummyClassifier branch and its constant *)",
            "Definition co_dummy_constant_src (redY : list Q) : option Q :=",
            "  let redY_unique := quniq redY in",
            f"  if Nat.eqb (length redY_unique) {single} then nth_error redY_unique {pos} else None.", ""]


def translate(repo: Path):
    out = ["(* GENERATED by translators/t_reduction.py from " + ", ".join([UP, ER, BGL, LAG]) + " -- do not edit *)",
           "From Coq Require Import QArith ZArith List Bool.",
           "From FL Require Import Num ListX Moments Reduction ReductionExt.",
           "Import ListNotations.", "Open Scope Q_scope.", ""]
    out += _project_lambda(repo)
    out += _error_rate(repo)
    out += _loss_moment(repo)
    out += _call_oracle(repo)
    return {"Gen_reduction.v": "\n".join(out)}
