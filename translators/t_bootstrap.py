"""t_bootstrap: regenerate the decisions of the bootstrap code on which the model FL.Bootstrap depends (C18).

Sources: fairlearn/metrics/_bootstrap.py (all six functions) and, in fairlearn/metrics/_metric_frame.py,
the tail of MetricFrame.__init__, _populate_results_ci, _group_ci, _none_to_nan and the six *_ci accessors.

Every function body is matched statement by statement against a template.  In a template
  L_<name>   stands for a local variable (any name, used consistently; comprehension variables are scoped),
  H_<name>   stands for an expression that is decoded into a tag afterwards (and rejected if unknown),
everything else must be the same syntax tree (keyword arguments in any order, layout irrelevant).
Anything that does not fit raises: the generated fragment then does not compile (fail closed).
Output: coq/gen/Gen_bootstrap.v, a value `src : BootstrapSrc.bootstrap_src`.
"""
import ast
import builtins
from fractions import Fraction
from pathlib import Path

OUTPUTS = ["Gen_bootstrap.v"]
SRC_B = "fairlearn/metrics/_bootstrap.py"
SRC_M = "fairlearn/metrics/_metric_frame.py"

# callees whose positional arguments are turned into keywords before matching
SIGNATURES = {"calculate_pandas_quantiles": ["quantiles", "bootstrap_samples"]}


class Mismatch(ValueError):
    pass


# ------------------------------------------------------------------------------------------------
# template matcher
# ------------------------------------------------------------------------------------------------
class Env:
    def __init__(self, where, reserved=()):
        self.where = where
        self.loc = {}          # template local -> actual name
        self.holes = {}        # hole -> (node, snapshot of loc)
        self.reserved = set(reserved)   # names a local must not take (it would capture a name the template uses)

    def bind_local(self, pname, actual, node=None):
        if actual in self.reserved:
            self.fail(f"local variable {actual!r} shadows a name the code relies on", node)
        if pname in self.loc:
            if self.loc[pname] != actual:
                self.fail(f"local {pname[2:]!r} is {self.loc[pname]!r} and {actual!r}", node)
        else:
            if actual in self.loc.values():
                self.fail(f"name {actual!r} used for two different locals", node)
            self.loc[pname] = actual

    def fail(self, msg, node=None):
        ln = getattr(node, "lineno", None)
        raise Mismatch(f"{self.where}{'' if ln is None else f' line {ln}'}: {msg}")


def _kwdict(call, env):
    d = {}
    for k in call.keywords:
        if k.arg is None or k.arg in d:
            env.fail(f"unsupported keyword arguments in {ast.unparse(call)[:70]}", call)
        d[k.arg] = k.value
    return d


def _norm_call(call, env):
    """(positional args, keyword dict) with positional arguments of known callees named"""
    args, kws = list(call.args), _kwdict(call, env)
    if isinstance(call.func, ast.Name) and call.func.id in SIGNATURES:
        names = SIGNATURES[call.func.id]
        if len(args) > len(names):
            env.fail(f"too many arguments for {call.func.id}", call)
        for nm, a in zip(names, args):
            if nm in kws:
                env.fail(f"argument {nm} given twice", call)
            kws[nm] = a
        args = []
    return args, kws


def unify(pat, node, env):
    if isinstance(pat, ast.Name) and pat.id.startswith("H_"):
        if pat.id in env.holes:
            env.fail(f"template error: hole {pat.id} used twice", node)
        if not isinstance(node, ast.expr):
            env.fail("expression expected", node)
        env.holes[pat.id] = (node, dict(env.loc))
        return
    if isinstance(pat, ast.Name) and pat.id.startswith("L_"):
        if not isinstance(node, ast.Name) or type(node.ctx) is not type(pat.ctx):
            env.fail(f"a local variable was expected, found {_show(node)}", node)
        env.bind_local(pat.id, node.id, node)
        return
    if isinstance(pat, list):
        if not isinstance(node, list) or len(pat) != len(node):
            got = len(node) if isinstance(node, list) else "?"
            env.fail(f"{got} items where the template has {len(pat)}: {_show(node)}",
                     node[0] if isinstance(node, list) and node else None)
        for p, n in zip(pat, node):
            unify(p, n, env)
        return
    if isinstance(pat, ast.AST):
        if type(pat) is not type(node):
            env.fail(f"expected {_show(pat)}, found {_show(node)}", node)
        if isinstance(pat, ast.Call):
            unify(pat.func, node.func, env)
            pa, pk = _norm_call(pat, env)
            na, nk = _norm_call(node, env)
            if len(pa) != len(na):
                env.fail(f"{len(na)} positional arguments where {len(pa)} are expected in {_show(node)}", node)
            for p, n in zip(pa, na):
                unify(p, n, env)
            if set(pk) != set(nk):
                env.fail(f"keyword arguments {sorted(nk)} where {sorted(pk)} are expected in {_show(node)}", node)
            for k in pk:
                unify(pk[k], nk[k], env)
            return
        if isinstance(pat, (ast.ListComp, ast.GeneratorExp, ast.SetComp)):
            before = set(env.loc)
            unify(pat.generators, node.generators, env)
            unify(pat.elt, node.elt, env)
            for k in list(env.loc):
                if k not in before:
                    del env.loc[k]            # comprehension variables are local to the comprehension
            return
        for f in pat._fields:
            if f in ("type_comment", "kind"):
                continue
            unify(getattr(pat, f, None), getattr(node, f, None), env)
        return
    if isinstance(pat, str) and pat.startswith("L_"):
        if not isinstance(node, str):
            env.fail(f"a name was expected, found {node!r}")
        env.bind_local(pat, node)
        return
    if pat != node or type(pat) is not type(node):
        env.fail(f"expected {pat!r}, found {node!r}")


def _show(n):
    if isinstance(n, list):
        return "; ".join(_show(x) for x in n)[:90]
    if isinstance(n, ast.AST):
        try:
            return ast.unparse(n).split("\n")[0][:90]
        except Exception:
            return type(n).__name__
    return repr(n)


def _body(fn):
    b = list(fn.body)
    if b and isinstance(b[0], ast.Expr) and isinstance(b[0].value, ast.Constant) and isinstance(b[0].value.value, str):
        b = b[1:]
    return b


def match_body(where, stmts, template, reserved=()):
    tree = ast.parse(template)
    literal = {n.id for n in ast.walk(tree) if isinstance(n, ast.Name) and not n.id.startswith(("L_", "H_"))}
    env = Env(where, literal | set(reserved) | set(dir(builtins)))
    unify(tree.body, stmts, env)
    return env


def _module_names(tree):
    """names bound at module level (imports, definitions, assignments)"""
    out = set()
    for n in tree.body:
        if isinstance(n, (ast.Import, ast.ImportFrom)):
            out |= {(a.asname or a.name).split(".")[0] for a in n.names}
        elif isinstance(n, (ast.FunctionDef, ast.ClassDef, ast.AsyncFunctionDef)):
            out.add(n.name)
        elif isinstance(n, (ast.Assign, ast.AnnAssign, ast.AugAssign)):
            for t in (n.targets if isinstance(n, ast.Assign) else [n.target]):
                out |= {x.id for x in ast.walk(t) if isinstance(x, ast.Name)}
    return out


def _params(fn):
    a = fn.args
    return {x.arg for x in a.posonlyargs + a.args + a.kwonlyargs} | ({a.vararg.arg} if a.vararg else set()) \
        | ({a.kwarg.arg} if a.kwarg else set())


def _sig(fn, where, posargs, kwonly):
    a = fn.args
    if [x.arg for x in a.posonlyargs + a.args] != posargs or [x.arg for x in a.kwonlyargs] != kwonly \
            or a.vararg is not None or a.kwarg is not None:
        raise Mismatch(f"{where}: unexpected signature ({ast.unparse(a)[:100]})")
    if fn.decorator_list and [ast.unparse(d) for d in fn.decorator_list] != ["property"]:
        raise Mismatch(f"{where}: unexpected decorators")


def _no_rebinding(fn, where, names):
    for n in ast.walk(fn):
        if isinstance(n, ast.Name) and n.id in names and not isinstance(n.ctx, ast.Load):
            raise Mismatch(f"{where} line {n.lineno}: {n.id} is rebound")
        if isinstance(n, (ast.Global, ast.Nonlocal)):
            raise Mismatch(f"{where}: global / nonlocal")


# ------------------------------------------------------------------------------------------------
# decoders of the holes
# ------------------------------------------------------------------------------------------------
def _const(node, types, where, what):
    if isinstance(node, ast.Constant) and type(node.value) in types:
        return node.value
    raise Mismatch(f"{where}: {what} is {_show(node)}, a literal {'/'.join(t.__name__ for t in types)} was expected")


def _is_name(node, name):
    return isinstance(node, ast.Name) and node.id == name and isinstance(node.ctx, ast.Load)


def _qexpr(node, param, where):
    """number of nested sorted(..) around the name `param`"""
    depth = 0
    while True:
        if _is_name(node, param):
            return depth
        if isinstance(node, ast.Call) and _is_name(node.func, "sorted") and len(node.args) == 1 and not node.keywords:
            depth += 1
            node = node.args[0]
            continue
        raise Mismatch(f"{where}: the quantiles are passed as {_show(node)}; only {param} or sorted({param}) "
                       f"are understood")


def _g_qexpr(depth):
    s = "QGiven"
    for _ in range(depth):
        s = f"(QSorted {s})"
    return s


def _g_bool(b):
    return "true" if b else "false"


def _g_z(z):
    return f"({z})%Z"


def _g_q(v):
    q = Fraction(str(v)) if isinstance(v, float) else Fraction(v)
    return f"({q.numerator} # {q.denominator})%Q" if q >= 0 else f"(({q.numerator}) # {q.denominator})%Q"


def _draw(env, k, where):
    low = _const(env.holes[f"H_low{k}"][0], (int,), where, "low=")
    hn = env.holes[f"H_high{k}"][0]
    if ast.unparse(hn) == "np.iinfo(np.uint32).max":
        high = "HighUint32Max"
    else:
        high = f"(HighConst {_g_z(_const(hn, (int,), where, 'high='))})"
    size = _is_name(env.holes[f"H_size{k}"][0], "n_samples")
    if not size and not isinstance(env.holes[f"H_size{k}"][0], (ast.Constant, ast.BinOp, ast.Name)):
        raise Mismatch(f"{where}: size= is {_show(env.holes[f'H_size{k}'][0])}")
    dt = ast.unparse(env.holes[f"H_dt{k}"][0]) == "np.uint32"
    return f"(mk_draw {_g_z(low)} {high} {_g_bool(size)} {_g_bool(dt)})"


def _rng(node, where):
    if not (isinstance(node, ast.Call) and ast.unparse(node.func) == "np.random.default_rng"):
        raise Mismatch(f"{where}: generator is {_show(node)}, np.random.default_rng(..) was expected")
    if not node.args and not node.keywords:
        return "RngFresh"
    arg = None
    if len(node.args) == 1 and not node.keywords:
        arg = node.args[0]
    elif not node.args and len(node.keywords) == 1 and node.keywords[0].arg == "seed":
        arg = node.keywords[0].value
    if arg is not None and _is_name(arg, "random_state"):
        return "RngSeededByArg"
    if arg is not None and isinstance(arg, ast.Constant) and arg.value is None:
        return "RngFresh"
    raise Mismatch(f"{where}: unsupported generator construction {_show(node)}")


def _np_call(node, where):
    """np.quantile / np.nanquantile (samples, q=.., axis=..[, method=..])"""
    if not (isinstance(node, ast.Call) and isinstance(node.func, ast.Attribute) and _is_name(node.func.value, "np")):
        raise Mismatch(f"{where}: {_show(node)} is not a call of a numpy function")
    fun = {"quantile": "NpQuantile", "nanquantile": "NpNanquantile"}.get(node.func.attr)
    if fun is None:
        raise Mismatch(f"{where}: numpy function {node.func.attr} is not modelled")
    kws = {}
    for k in node.keywords:
        if k.arg is None or k.arg in kws:
            raise Mismatch(f"{where}: unsupported keyword arguments in {_show(node)}")
        kws[k.arg] = k.value
    args = list(node.args)
    if not args or not _is_name(args[0], "samples"):
        raise Mismatch(f"{where}: the first argument of {_show(node)} is not `samples`")
    if len(args) == 2 and "q" not in kws:
        kws["q"] = args[1]
    elif len(args) != 1:
        raise Mismatch(f"{where}: unexpected positional arguments in {_show(node)}")
    extra = set(kws) - {"q", "axis", "method", "interpolation"}
    if extra or "q" not in kws or "axis" not in kws:
        raise Mismatch(f"{where}: arguments of {_show(node)}: q= and axis= are required, {sorted(extra)} not understood")
    q = _qexpr(kws["q"], "quantiles", where)
    axis = _const(kws["axis"], (int,), where, "axis=")
    method = "MLinear"
    for kw in ("method", "interpolation"):
        if kw in kws:
            if _const(kws[kw], (str,), where, kw + "=") != "linear":
                method = "MOther"
    return fun, q, axis, method


# ------------------------------------------------------------------------------------------------
# templates
# ------------------------------------------------------------------------------------------------
PASS_THROUGH = ("data=data, annotated_functions=annotated_functions, sensitive_feature_names=sensitive_feature_names, "
                "control_feature_names=control_feature_names")
KW5 = ["data", "annotated_functions", "sensitive_feature_names", "control_feature_names"]

T_SINGLE = f"""
assert random_state is not None, H_msg
L_sampled = data.sample(frac=H_frac, replace=H_replace, random_state=H_rs, axis=H_axis, ignore_index=H_ii)
L_result = DisaggregatedResult.create(data=L_sampled, annotated_functions=annotated_functions, sensitive_feature_names=sensitive_feature_names, control_feature_names=control_feature_names)
return L_result
"""

T_SAMPLES = f"""
assert n_samples >= 1
if H_test:
    L_gen = H_rng1
    L_rs = L_gen.integers(low=H_low1, high=H_high1, size=H_size1, dtype=H_dt1)
elif isinstance(random_state, np.random.RandomState):
    L_rs = random_state.randint(low=H_low2, high=H_high2, size=H_size2, dtype=H_dt2)
elif isinstance(random_state, int):
    L_gen = H_rng3
    L_rs = L_gen.integers(low=H_low3, high=H_high3, size=H_size3, dtype=H_dt3)
else:
    raise ValueError(H_msg)
L_result = []
for L_i in range(H_count):
    L_nxt = generate_single_bootstrap_sample(random_state=H_seed, {PASS_THROUGH})
    L_result.append(L_nxt)
return L_result
"""

T_SERIES = """
for L_s in samples:
    assert isinstance(L_s, pd.Series)
    assert L_s.name == samples[0].name
    assert all(L_s.index == samples[0].index), H_msg
try:
    L_np = H_npcall
except ValueError as L_ve:
    raise ValueError(BOOTSTRAP_QUANTILE_ERROR) from L_ve
L_result = []
assert L_np.shape[0] == len(quantiles)
for L_i in range(L_np.shape[0]):
    L_nxt = pd.Series(name=samples[0].name, index=samples[0].index, data=L_np[L_i, :])
    L_result.append(L_nxt)
return L_result
"""

T_FRAME = """
samples = _align_sample_indices(samples)
for L_s in samples:
    assert isinstance(L_s, pd.DataFrame)
    assert all(L_s.columns == samples[0].columns)
    assert all(L_s.index == samples[0].index), H_msg
try:
    L_np = H_npcall
except ValueError as L_ve:
    raise ValueError(BOOTSTRAP_QUANTILE_ERROR) from L_ve
L_result = []
assert L_np.shape[0] == len(quantiles)
for L_i in range(L_np.shape[0]):
    L_nxt = pd.DataFrame(columns=samples[0].columns, index=samples[0].index, data=L_np[L_i, :, :])
    L_result.append(L_nxt)
return L_result
"""

T_ALIGN = """
L_all = [L_s.index for L_s in samples]
L_common = reduce(H_fold, L_all)
samples = [L_s.reindex(L_common) for L_s in samples]
return samples
"""

T_DISPATCH = """
if isinstance(bootstrap_samples[H_i1], H_k1):
    L_result = H_call1
elif isinstance(bootstrap_samples[H_i2], H_k2):
    L_result = H_call2
else:
    assert False, H_msg
return L_result
"""

T_INIT_TAIL = """
L_result = DisaggregatedResult.create(data=H_data, annotated_functions=H_af, sensitive_feature_names=H_sf, control_feature_names=H_cf)
self._populate_results(L_result)
self._ci_quantiles = ci_quantiles
self._n_boot = n_boot
if n_boot is not None and ci_quantiles is not None and len(ci_quantiles) > 0:
    if not isinstance(n_boot, int) or n_boot < 1:
        raise ValueError(H_m1)
    for L_ci in ci_quantiles:
        if not isinstance(L_ci, float) or L_ci <= 0 or L_ci >= 1:
            raise ValueError(H_m2)
    L_bs = generate_bootstrap_samples(n_samples=H_n, random_state=H_rs, data=H_data2, annotated_functions=H_af2, sensitive_feature_names=H_sf2, control_feature_names=H_cf2)
    self._populate_results_ci(H_samples, H_q)
elif (n_boot is not None) ^ (ci_quantiles is not None and len(ci_quantiles) > 0):
    raise ValueError(H_m3)
"""

T_POPULATE = """
L_ro = calculate_pandas_quantiles(H_q1, [H_elt1 for L_x in bootstrap_samples])
self._result_cache[H_key1] = [self._extract_result(L_x, no_control_levels=False) for L_x in L_ro]
L_rg = calculate_pandas_quantiles(H_q2, [H_elt2 for L_x in bootstrap_samples])
self._result_cache[H_key2] = [self._extract_result(L_x, no_control_levels=True) for L_x in L_rg]
L_gf = H_gfdict
for L_k, L_v in L_gf.items():
    self._result_cache[L_k] = self._group_ci(bootstrap_samples=bootstrap_samples, ci_quantiles=H_q3, grouping_function=L_v)
for L_ct in H_ctlist:
    self._result_cache[L_ct] = dict()
    for L_cm in _COMPARE_METHODS:
        if L_ct == H_ctkey:
            L_raw = [H_callA for L_r in bootstrap_samples]
        else:
            L_raw = [H_callB for L_r in bootstrap_samples]
        L_samples = [self._none_to_nan(L_x) for L_x in L_raw]
        L_rr = calculate_pandas_quantiles(quantiles=H_q4, bootstrap_samples=L_samples)
        L_res = [self._extract_result(L_x, no_control_levels=False) for L_x in L_rr]
        self._result_cache[L_ct][L_cm] = L_res
"""

T_GROUP_CI = """
L_samples = [H_call for L_r in bootstrap_samples]
L_raw = calculate_pandas_quantiles(quantiles=H_q, bootstrap_samples=L_samples)
L_result = [self._extract_result(L_x, no_control_levels=False) for L_x in L_raw]
return L_result
"""

T_NONE_TO_NAN = """
return target.where(target.notna(), np.nan)
"""

T_ACC1 = """
self._check_bootstrap_initialized()
return self._result_cache[H_key]
"""

T_ACC2 = """
if method not in _COMPARE_METHODS:
    raise ValueError(H_msg)
self._check_bootstrap_initialized()
return self._result_cache[H_key][method]
"""

SLOT1 = {"overall_ci": "SOverall", "by_group_ci": "SByGroup", "group_min_ci": "SGroupMin", "group_max_ci": "SGroupMax"}
SLOT2 = {"difference_ci": "SDifference", "ratio_ci": "SRatio"}
CM = {"between_groups": "Between", "to_overall": "ToOverall"}
ERR = {"raise": "ERaise", "coerce": "ECoerce"}
GRP = {"min": "GMin", "max": "GMax"}


def _slot1(node, where):
    s = _const(node, (str,), where, "cache key")
    if s not in SLOT1:
        raise Mismatch(f"{where}: unknown cache key {s!r}")
    return SLOT1[s]


def _slot2(key, cm, where):
    if key not in SLOT2 or cm not in CM:
        raise Mismatch(f"{where}: unknown cache key {key!r} / {cm!r}")
    return f"({SLOT2[key]} {CM[cm]})"


def _attr_of_local(holeval, local, attrs, where):
    node, loc = holeval
    if not (isinstance(node, ast.Attribute) and isinstance(node.value, ast.Name) and node.value.id == loc.get(local)):
        raise Mismatch(f"{where}: {_show(node)} is not an attribute of the bootstrap sample")
    if node.attr not in attrs:
        raise Mismatch(f"{where}: attribute {node.attr} of a bootstrap sample is not modelled")
    return attrs[node.attr]


def _method_call(holeval, local, where):
    """<r>.<difference|ratio|apply_grouping>(..) on the comprehension variable; returns (attr, args, kwargs, loc)"""
    node, loc = holeval
    if not (isinstance(node, ast.Call) and isinstance(node.func, ast.Attribute)
            and isinstance(node.func.value, ast.Name) and node.func.value.id == loc.get(local)):
        raise Mismatch(f"{where}: {_show(node)} is not a method call on the bootstrap sample")
    kws = {}
    for k in node.keywords:
        if k.arg is None or k.arg in kws:
            raise Mismatch(f"{where}: unsupported keyword arguments in {_show(node)}")
        kws[k.arg] = k.value
    return node.func.attr, list(node.args), kws, loc


# ------------------------------------------------------------------------------------------------
def translate(repo: Path):
    repo = Path(repo)
    tb = ast.parse((repo / SRC_B).read_text())
    tm = ast.parse((repo / SRC_M).read_text())
    gb, gm = _module_names(tb), _module_names(tm)

    def top(tree, name, src):
        fs = [n for n in tree.body if isinstance(n, ast.FunctionDef) and n.name == name]
        if len(fs) != 1:
            raise Mismatch(f"{src}: {len(fs)} definitions of {name}")
        return fs[0]

    # names the templates rely on must be what they are imported as
    imports = {}
    for n in tb.body:
        if isinstance(n, ast.Import):
            for a in n.names:
                imports[a.asname or a.name] = a.name
        elif isinstance(n, ast.ImportFrom):
            for a in n.names:
                imports[a.asname or a.name] = f"{'.' * n.level}{n.module or ''}.{a.name}"
    want = {"np": "numpy", "pd": "pandas", "reduce": "functools.reduce",
            "DisaggregatedResult": "._disaggregated_result.DisaggregatedResult"}
    for k, v in want.items():
        if imports.get(k) != v:
            raise Mismatch(f"{SRC_B}: {k} is {imports.get(k)!r}, expected {v!r}")
    defined = [n.name for n in tb.body if isinstance(n, (ast.FunctionDef, ast.ClassDef))]
    expected_defs = ["generate_single_bootstrap_sample", "generate_bootstrap_samples", "_calc_series_quantiles",
                     "_calc_dataframe_quantiles", "_align_sample_indices", "calculate_pandas_quantiles"]
    if sorted(defined) != sorted(expected_defs):
        raise Mismatch(f"{SRC_B}: top-level definitions {defined}")
    for n in tb.body:      # nothing at module level may rebind the functions or the modules used
        if isinstance(n, (ast.Assign, ast.AugAssign, ast.AnnAssign)):
            tg = [ast.unparse(t) for t in (n.targets if isinstance(n, ast.Assign) else [n.target])]
            if any(t in expected_defs or t in want for t in tg):
                raise Mismatch(f"{SRC_B}: module-level rebinding of {tg}")

    # ---- generate_single_bootstrap_sample ----------------------------------------------------------
    w = "generate_single_bootstrap_sample"
    fn = top(tb, w, SRC_B)
    _sig(fn, w, [], ["random_state"] + KW5)
    e = match_body(w, _body(fn), T_SINGLE, gb | _params(fn))
    frac = _const(e.holes["H_frac"][0], (int, float), w, "frac=")
    replace = _const(e.holes["H_replace"][0], (bool,), w, "replace=")
    axis = _const(e.holes["H_axis"][0], (int,), w, "axis=")
    ii = _const(e.holes["H_ii"][0], (bool,), w, "ignore_index=")
    seed_is_arg = _is_name(e.holes["H_rs"][0], "random_state")
    if not seed_is_arg and not isinstance(e.holes["H_rs"][0], (ast.Constant, ast.Name)):
        raise Mismatch(f"{w}: random_state= is {_show(e.holes['H_rs'][0])}")
    g_sample = f"mk_sample_call {_g_q(frac)} {_g_bool(replace)} {_g_z(axis)} {_g_bool(ii)} {_g_bool(seed_is_arg)}"

    # ---- generate_bootstrap_samples ------------------------------------------------------------------
    w = "generate_bootstrap_samples"
    fn = top(tb, w, SRC_B)
    _sig(fn, w, [], ["n_samples", "random_state"] + KW5)
    e = match_body(w, _body(fn), T_SAMPLES, gb | _params(fn))
    tst = ast.unparse(e.holes["H_test"][0])
    test = {"random_state is None": "TestIsNone", "not random_state": "TestFalsy"}.get(tst)
    if test is None:
        raise Mismatch(f"{w}: first test of the if-chain is `{tst}`")
    cnt = e.holes["H_count"][0]
    if _is_name(cnt, "n_samples"):
        count = "CountNSamples"
    elif isinstance(cnt, ast.BinOp) and isinstance(cnt.op, ast.Sub) and _is_name(cnt.left, "n_samples") \
            and isinstance(cnt.right, ast.Constant) and type(cnt.right.value) is int and cnt.right.value >= 0:
        count = f"(CountNSamplesMinus {cnt.right.value})" if cnt.right.value else "CountNSamples"
    else:
        raise Mismatch(f"{w}: the loop runs over range({_show(cnt)})")
    sd, loc = e.holes["H_seed"]
    if not (isinstance(sd, ast.Subscript) and isinstance(sd.value, ast.Name) and sd.value.id == loc["L_rs"]):
        raise Mismatch(f"{w}: the seed of one sample is {_show(sd)}")
    if isinstance(sd.slice, ast.Name) and sd.slice.id == loc["L_i"]:
        index = "IdxLoopVar"
    elif isinstance(sd.slice, ast.Constant) and type(sd.slice.value) is int and sd.slice.value >= 0:
        index = f"(IdxConst {sd.slice.value})"
    else:
        raise Mismatch(f"{w}: the seed of one sample is {_show(sd)}")
    g_stream = (f"mk_stream {test} {_rng(e.holes['H_rng1'][0], w)} {_draw(e, 1, w)} {_draw(e, 2, w)} "
                f"{_rng(e.holes['H_rng3'][0], w)} {_draw(e, 3, w)} {count} {index}")

    # ---- _calc_series_quantiles / _calc_dataframe_quantiles --------------------------------------------
    g_calls = {}
    for w, tmpl, aligned in (("_calc_series_quantiles", T_SERIES, False), ("_calc_dataframe_quantiles", T_FRAME, True)):
        fn = top(tb, w, SRC_B)
        _sig(fn, w, [], ["quantiles", "samples"])
        _no_rebinding(fn, w, {"quantiles"})
        e = match_body(w, _body(fn), tmpl, gb | _params(fn))
        fun, q, axis, method = _np_call(e.holes["H_npcall"][0], w)
        g_calls[w] = f"mk_qcall {fun} {_g_qexpr(q)} {_g_z(axis)} {method} {_g_bool(aligned)}"

    # ---- _align_sample_indices ------------------------------------------------------------------------
    w = "_align_sample_indices"
    fn = top(tb, w, SRC_B)
    _sig(fn, w, ["samples"], [])
    e = match_body(w, _body(fn), T_ALIGN, gb | _params(fn))
    lam = e.holes["H_fold"][0]
    ok = isinstance(lam, ast.Lambda) and len(lam.args.args) == 2 and not lam.args.kwonlyargs \
        and not lam.args.vararg and not lam.args.kwarg and not lam.args.defaults and not lam.args.posonlyargs
    if ok:
        a, b = (x.arg for x in lam.args.args)
        c = lam.body
        ok = a != b and isinstance(c, ast.Call) and isinstance(c.func, ast.Attribute) and _is_name(c.func.value, a) \
            and len(c.args) == 1 and _is_name(c.args[0], b) and not c.keywords \
            and c.func.attr in ("union", "intersection")
    if not ok:
        raise Mismatch(f"{w}: the fold is {_show(lam)}; lambda x, y: x.union(y) / x.intersection(y) are understood")
    g_fold = {"union": "FoldUnion", "intersection": "FoldIntersection"}[lam.body.func.attr]

    # ---- calculate_pandas_quantiles ---------------------------------------------------------------------
    w = "calculate_pandas_quantiles"
    fn = top(tb, w, SRC_B)
    _sig(fn, w, ["quantiles", "bootstrap_samples"], [])
    if fn.args.defaults:
        raise Mismatch(f"{w}: default values")
    _no_rebinding(fn, w, {"quantiles", "bootstrap_samples"})
    e = match_body(w, _body(fn), T_DISPATCH, gb | _params(fn))
    i1 = _const(e.holes["H_i1"][0], (int,), w, "index of the tested sample")
    i2 = _const(e.holes["H_i2"][0], (int,), w, "index of the tested sample")
    if i1 != i2 or i1 < 0:
        raise Mismatch(f"{w}: the two tests look at samples {i1} and {i2}")
    cases = []
    for k in ("1", "2"):
        kd = {"pd.Series": "KSeries", "pd.DataFrame": "KFrame"}.get(ast.unparse(e.holes["H_k" + k][0]))
        if kd is None:
            raise Mismatch(f"{w}: isinstance test against {_show(e.holes['H_k' + k][0])}")
        c = e.holes["H_call" + k][0]
        if not (isinstance(c, ast.Call) and isinstance(c.func, ast.Name) and not c.args
                and c.func.id in ("_calc_series_quantiles", "_calc_dataframe_quantiles")):
            raise Mismatch(f"{w}: branch calls {_show(c)}")
        kws = _kwdict(c, e)
        if set(kws) != {"quantiles", "samples"} or not _is_name(kws["samples"], "bootstrap_samples"):
            raise Mismatch(f"{w}: arguments of {_show(c)}")
        callee = "CalcSeries" if c.func.id == "_calc_series_quantiles" else "CalcFrame"
        cases.append(f"({kd}, {callee}, {_g_qexpr(_qexpr(kws['quantiles'], 'quantiles', w))})")
    g_dispatch = f"mk_dispatch {i1} [{'; '.join(cases)}]"

    # ---- MetricFrame ------------------------------------------------------------------------------------
    cls = [n for n in tm.body if isinstance(n, ast.ClassDef) and n.name == "MetricFrame"]
    if len(cls) != 1:
        raise Mismatch(f"{SRC_M}: class MetricFrame not found")
    cls = cls[0]

    def meth(name):
        fs = [n for n in cls.body if isinstance(n, ast.FunctionDef) and n.name == name]
        if len(fs) != 1:
            raise Mismatch(f"MetricFrame: {len(fs)} definitions of {name}")
        return fs[0]

    imp_ok = False
    for n in tm.body:
        if isinstance(n, ast.ImportFrom) and n.module == "_bootstrap" and n.level == 1:
            got = {(a.name, a.asname) for a in n.names}
            imp_ok = got == {("calculate_pandas_quantiles", None), ("generate_bootstrap_samples", None)}
    if not imp_ok:
        raise Mismatch(f"{SRC_M}: unexpected import from ._bootstrap")
    cmethods = None
    for n in tm.body:
        if isinstance(n, ast.Assign) and [ast.unparse(t) for t in n.targets] == ["_COMPARE_METHODS"]:
            if cmethods is not None or not isinstance(n.value, (ast.List, ast.Tuple)):
                raise Mismatch(f"{SRC_M}: _COMPARE_METHODS")
            cmethods = [_const(x, (str,), SRC_M, "_COMPARE_METHODS element") for x in n.value.elts]
    if cmethods is None or any(c not in CM for c in cmethods):
        raise Mismatch(f"{SRC_M}: _COMPARE_METHODS is {cmethods}")
    for n in tm.body:
        if isinstance(n, (ast.FunctionDef, ast.ClassDef)) and n.name in ("calculate_pandas_quantiles",
                                                                          "generate_bootstrap_samples"):
            raise Mismatch(f"{SRC_M}: {n.name} is redefined")

    # __init__
    w = "MetricFrame.__init__"
    fn = meth("__init__")
    kwonly = [a.arg for a in fn.args.kwonlyargs]
    if [a.arg for a in fn.args.args] != ["self"] or not {"n_boot", "ci_quantiles", "random_state"} <= set(kwonly):
        raise Mismatch(f"{w}: unexpected signature")
    body = _body(fn)
    ntail = len(ast.parse(T_INIT_TAIL).body)
    if len(body) < ntail:
        raise Mismatch(f"{w}: body too short")
    head, tail = body[:-ntail], body[-ntail:]
    for st in head:
        for n in ast.walk(st):
            if isinstance(n, ast.Name) and n.id in ("n_boot", "ci_quantiles", "random_state") \
                    and not isinstance(n.ctx, ast.Load):
                raise Mismatch(f"{w} line {n.lineno}: {n.id} is rebound before the bootstrap")
    e = match_body(w, tail, T_INIT_TAIL, gm | _params(fn))
    n_is_nboot = _is_name(e.holes["H_n"][0], "n_boot")
    if not n_is_nboot and not isinstance(e.holes["H_n"][0], (ast.Constant, ast.BinOp)):
        raise Mismatch(f"{w}: n_samples= is {_show(e.holes['H_n'][0])}")
    rs_is_arg = _is_name(e.holes["H_rs"][0], "random_state")
    if not rs_is_arg and not isinstance(e.holes["H_rs"][0], (ast.Constant, ast.Name)):
        raise Mismatch(f"{w}: random_state= is {_show(e.holes['H_rs'][0])}")
    same = all(ast.dump(e.holes[a][0]) == ast.dump(e.holes[a + "2"][0]) for a in ("H_data", "H_af", "H_sf", "H_cf"))
    smp, loc = e.holes["H_samples"]
    if not (isinstance(smp, ast.Name) and smp.id == loc["L_bs"]):
        raise Mismatch(f"{w}: _populate_results_ci receives {_show(smp)}, not the generated samples")
    q_init = _qexpr(e.holes["H_q"][0], "ci_quantiles", w)
    g_init = f"mk_init {_g_bool(n_is_nboot)} {_g_bool(rs_is_arg)} {_g_bool(same)} {_g_qexpr(q_init)}"

    # _group_ci
    w = "MetricFrame._group_ci"
    fn = meth("_group_ci")
    _sig(fn, w, ["self", "bootstrap_samples", "ci_quantiles", "grouping_function"], [])
    _no_rebinding(fn, w, {"self", "bootstrap_samples", "ci_quantiles", "grouping_function"})
    e = match_body(w, _body(fn), T_GROUP_CI, gm | _params(fn))
    attr, args, kws, loc = _method_call(e.holes["H_call"], "L_r", w)
    if attr != "apply_grouping" or len(args) != 2 or not _is_name(args[0], "grouping_function") \
            or ast.unparse(args[1]) != "self.control_levels" or set(kws) != {"errors"}:
        raise Mismatch(f"{w}: per-sample value is {_show(e.holes['H_call'][0])}")
    grp_err = ERR.get(_const(kws["errors"], (str,), w, "errors="))
    if grp_err is None:
        raise Mismatch(f"{w}: errors= value")
    q_group = _qexpr(e.holes["H_q"][0], "ci_quantiles", w)

    # _none_to_nan
    w = "MetricFrame._none_to_nan"
    fn = meth("_none_to_nan")
    _sig(fn, w, ["self", "target"], [])
    match_body(w, _body(fn), T_NONE_TO_NAN, gm | _params(fn))

    # _populate_results_ci
    w = "MetricFrame._populate_results_ci"
    fn = meth("_populate_results_ci")
    _sig(fn, w, ["self", "bootstrap_samples", "ci_quantiles"], [])
    _no_rebinding(fn, w, {"self", "bootstrap_samples", "ci_quantiles"})
    e = match_body(w, _body(fn), T_POPULATE, gm | _params(fn))
    caches = []
    for k, agg_of in (("1", {"overall": "AOverall", "by_group": "AByGroup"}),
                      ("2", {"overall": "AOverall", "by_group": "AByGroup"})):
        agg = _attr_of_local(e.holes["H_elt" + k], "L_x", agg_of, w)
        caches.append((_slot1(e.holes["H_key" + k][0], w), agg, _qexpr(e.holes["H_q" + k][0], "ci_quantiles", w)))
    gf = e.holes["H_gfdict"][0]
    if not isinstance(gf, ast.Dict) or any(k is None for k in gf.keys):
        raise Mismatch(f"{w}: group functions are {_show(gf)}")
    q3 = _qexpr(e.holes["H_q3"][0], "ci_quantiles", w)
    for k, v in zip(gf.keys, gf.values):
        g = GRP.get(_const(v, (str,), w, "grouping function"))
        if g is None:
            raise Mismatch(f"{w}: grouping function {_show(v)}")
        caches.append((_slot1(k, w), f"(AGrouping {g} {grp_err})", q3 + q_group))
    ctl = e.holes["H_ctlist"][0]
    if not isinstance(ctl, (ast.List, ast.Tuple)):
        raise Mismatch(f"{w}: comparison kinds are {_show(ctl)}")
    cts = [_const(x, (str,), w, "comparison kind") for x in ctl.elts]
    ctkey = _const(e.holes["H_ctkey"][0], (str,), w, "comparison kind test")
    q4 = _qexpr(e.holes["H_q4"][0], "ci_quantiles", w)
    for ct in cts:
        attr, args, kws, loc = _method_call(e.holes["H_callA" if ct == ctkey else "H_callB"], "L_r", w)
        if attr not in ("difference", "ratio") or len(args) != 1 or ast.unparse(args[0]) != "self.control_levels" \
                or set(kws) != {"method", "errors"}:
            raise Mismatch(f"{w}: per-sample value is {attr}({', '.join(_show(a) for a in args)}, {sorted(kws)})")
        err = ERR.get(_const(kws["errors"], (str,), w, "errors="))
        if err is None:
            raise Mismatch(f"{w}: errors= value")
        for cm in cmethods:
            m = kws["method"]
            if isinstance(m, ast.Name) and m.id == loc.get("L_cm"):
                used = cm
            else:
                used = _const(m, (str,), w, "method=")
                if used not in CM:
                    raise Mismatch(f"{w}: method={used!r}")
            ctor = {"difference": "ADifference", "ratio": "ARatio"}[attr]
            caches.append((_slot2(ct, cm, w), f"({ctor} {CM[used]} {err})", q4))
    g_caches = "[ " + ";\n    ".join(f"mk_cache {s} {a} {_g_qexpr(q)}" for s, a, q in caches) + " ]"

    # accessors
    accessors = []
    for name, pub in (("overall_ci", "SOverall"), ("by_group_ci", "SByGroup"),
                      ("group_min_ci", "SGroupMin"), ("group_max_ci", "SGroupMax")):
        w = f"MetricFrame.{name}"
        fn = meth(name)
        _sig(fn, w, ["self"], [])
        e = match_body(w, _body(fn), T_ACC1, gm | _params(fn))
        accessors.append((pub, _slot1(e.holes["H_key"][0], w)))
    for name, pub in (("difference_ci", "SDifference"), ("ratio_ci", "SRatio")):
        w = f"MetricFrame.{name}"
        fn = meth(name)
        _sig(fn, w, ["self", "method"], [])
        _no_rebinding(fn, w, {"self", "method"})
        e = match_body(w, _body(fn), T_ACC2, gm | _params(fn))
        key = _const(e.holes["H_key"][0], (str,), w, "cache key")
        for cm in CM:
            accessors.append((f"({pub} {CM[cm]})", _slot2(key, cm, w)))
    g_acc = "[ " + ";\n    ".join(f"({a}, {b})" for a, b in accessors) + " ]"

    text = (f"(* GENERATED by translators/t_bootstrap.py from {SRC_B} and {SRC_M} -- do not edit *)\n"
            "From Coq Require Import QArith ZArith List Bool.\n"
            "From FL Require Import BootstrapSrc.\n"
            "Import ListNotations.\n\n"
            "(* generate_single_bootstrap_sample: data.sample(frac, replace, axis, ignore_index, seed of the caller) *)\n"
            f"Definition sample : sample_call :=\n  {g_sample}.\n\n"
            "(* generate_bootstrap_samples: first test; generator and draw per branch; loop count; seed of sample i *)\n"
            f"Definition stream : stream_src :=\n  {g_stream}.\n\n"
            "(* _calc_series_quantiles / _calc_dataframe_quantiles: numpy function, q, axis, method, alignment first *)\n"
            f"Definition series : quantile_call :=\n  {g_calls['_calc_series_quantiles']}.\n"
            f"Definition frame : quantile_call :=\n  {g_calls['_calc_dataframe_quantiles']}.\n\n"
            "(* _align_sample_indices *)\n"
            f"Definition fold : index_fold := {g_fold}.\n\n"
            "(* calculate_pandas_quantiles *)\n"
            f"Definition dispatcher : dispatch :=\n  {g_dispatch}.\n\n"
            "(* MetricFrame.__init__: n_samples=n_boot, random_state=random_state, data of the point estimate, quantiles *)\n"
            f"Definition init : init_call :=\n  {g_init}.\n\n"
            "(* _populate_results_ci / _group_ci: cache entry, per-resample aggregate, quantiles *)\n"
            f"Definition caches : list cache_entry :=\n  {g_caches}.\n\n"
            "(* overall_ci, by_group_ci, group_min_ci, group_max_ci, difference_ci(method), ratio_ci(method) *)\n"
            f"Definition accessors : list (slot * slot) :=\n  {g_acc}.\n\n"
            "Definition src : bootstrap_src :=\n"
            "  mk_src sample stream series frame fold dispatcher init caches accessors.\n")
    return {"Gen_bootstrap.v": text}
