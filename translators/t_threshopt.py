"""t_threshopt: regenerate the optimisation step of ThresholdOptimizer and the tradeoff-point construction
(C04 / C05) from the CURRENT source.

Every function below is matched statement by statement against the text the model was written from
(docstrings, logger.debug calls and annotations removed); the places that carry a decision are HOLES that are
cut out, decoded into a Gallina expression or a tag of FL.ThreshOptSrc, and written to Gen_threshopt.v:

  ThresholdOptimizer._threshold_optimization_for_simple_constraints
      simple_init x              <- overall_tradeoff_curve = 0 * self._x_grid
      simple_weight len_group n  <- p_sensitive_feature_value = len(group) / n            (n = len(labels))
      simple_acc acc p y         <- overall_tradeoff_curve += p_sensitive_feature_value * curve["y"]
      simple_select              <- i_best = overall_tradeoff_curve.idxmax()
      simple_index               <- best_interpolation = curve.iloc[i_best]               (common | own arg-extremum)
      simple_bunch               <- Bunch(p0=best_interpolation.p0, operation0=..., p1=..., operation1=...)
  ThresholdOptimizer._threshold_optimization_for_equalized_odds
      eo_x_metric, eo_y_metric   <- the metrics _tradeoff_curve is called with (its signature defaults)
      eo_n_negative n n_positive <- n_negative = n - n_positive
      eo_reduce                  <- self._y_min = np.amin(y_values, axis=1)
      eo_counts                  <- the four arguments of _extend_confusion_matrix
      eo_select                  <- i_best_EO = objective_values.idxmax()
      eo_index                   <- roc_result = curve.transpose()[i_best_EO]
      eo_p_ignore x y xbest ybest <- the if/else that computes p_ignore (locals inlined)
      eo_const, eo_bunch         <- Bunch(p_ignore=p_ignore, prediction_constant=self._x_best, p0=roc_result.p0, ...)
  _calculate_tradeoff_points
      tp_degenerate              <- if n_positive == 0 or n_negative == 0: raise
      tp_midpoint t s            <- threshold = (threshold + scores[i]) / 2
      tp_actual, tp_flipped      <- the two _extend_confusion_matrix calls
      tp_ops_flip, tp_ops_noflip <- operations = [(">", actual_counts), ("<", flipped_counts)] / [(">", actual_counts)]
      tp_sort_keys, tp_sort_ascending <- .sort_values(by=["x", "y"])
  _get_interpolation_indices     interp_side <- np.searchsorted(..., side="right")
  ThresholdOperation.__call__    op_gt, op_lt <- y_hat > self._threshold / y_hat < self._threshold
  SIMPLE_CONSTRAINTS, OBJECTIVES_FOR_SIMPLE_CONSTRAINTS, OBJECTIVES_FOR_EQUALIZED_ODDS
      simple_constraint_metrics, simple_objectives, eo_objectives
_tradeoff_curve, _get_scores_labels_and_counts, _get_counts and the dispatch in fit are compared literally.
Any other shape raises (fail closed)."""
import ast
import difflib
from fractions import Fraction
from pathlib import Path

OUTPUTS = ["Gen_threshopt.v"]
SRC_TO = "fairlearn/postprocessing/_threshold_optimizer.py"
SRC_TC = "fairlearn/postprocessing/_tradeoff_curve_utilities.py"
SRC_OP = "fairlearn/postprocessing/_threshold_operation.py"

METRICS = {"selection_rate": "SelRate", "false_positive_rate": "FPR", "false_negative_rate": "FNR",
           "true_positive_rate": "TPR", "true_negative_rate": "TNR", "accuracy_score": "Acc",
           "balanced_accuracy_score": "BalAcc"}
COLS = {"x": "ColX", "y": "ColY", "p0": "ColP0", "operation0": "ColOp0", "p1": "ColP1", "operation1": "ColOp1"}


class Shape(ValueError):
    pass


def _u(e):
    return ast.unparse(e)


def _where(e):
    return f"line {getattr(e, 'lineno', '?')}: {_u(e)[:90]}"


# ---------------------------------------------------------------------------------------------
# expressions
# ---------------------------------------------------------------------------------------------
QOPS = {ast.Add: "+", ast.Sub: "-", ast.Mult: "*", ast.Div: "/"}
ZOPS = {ast.Add: "+", ast.Sub: "-", ast.Mult: "*"}


def _q(e, atoms):
    """numeric (element-wise) expression -> Gallina term of type Q; atoms: unparsed source -> Coq term"""
    s = _u(e)
    if s in atoms:
        return atoms[s]
    if isinstance(e, ast.Constant) and type(e.value) in (int, float):
        q = Fraction(str(e.value))
        if q < 0 or q.numerator > 10 ** 6 or q.denominator > 10 ** 6:
            raise Shape(f"unsupported constant at {_where(e)}")
        return str(q.numerator) if q.denominator == 1 else f"({q.numerator}#{q.denominator})"
    if isinstance(e, ast.UnaryOp) and isinstance(e.op, ast.USub):
        return f"(- {_q(e.operand, atoms)})"
    if isinstance(e, ast.BinOp) and type(e.op) in QOPS:
        return f"({_q(e.left, atoms)} {QOPS[type(e.op)]} {_q(e.right, atoms)})"
    raise Shape(f"unsupported arithmetic expression at {_where(e)}")


def _z(e, atoms):
    """integer count expression -> Gallina term of type Z (written inside %Z)"""
    s = _u(e)
    if s in atoms:
        return atoms[s]
    if isinstance(e, ast.Constant) and type(e.value) is int and 0 <= e.value < 10 ** 6:
        return str(e.value)
    if isinstance(e, ast.BinOp) and type(e.op) in ZOPS:
        return f"({_z(e.left, atoms)} {ZOPS[type(e.op)]} {_z(e.right, atoms)})"
    raise Shape(f"unsupported count expression at {_where(e)}")


def _zbool(e, atoms):
    """`a == 0 or b == 0`-like tests over integer counts -> Gallina bool (inside %Z for the comparisons)"""
    if isinstance(e, ast.BoolOp) and isinstance(e.op, (ast.Or, ast.And)):
        j = " || " if isinstance(e.op, ast.Or) else " && "
        return "(" + j.join(_zbool(v, atoms) for v in e.values) + ")"
    if isinstance(e, ast.UnaryOp) and isinstance(e.op, ast.Not):
        return f"(negb {_zbool(e.operand, atoms)})"
    if isinstance(e, ast.Compare) and len(e.ops) == 1:
        a, b = _z(e.left, atoms), _z(e.comparators[0], atoms)
        t = type(e.ops[0])
        if t is ast.Eq:
            return f"({a} =? {b})%Z"
        if t is ast.NotEq:
            return f"(negb ({a} =? {b})%Z)"
        if t is ast.Lt:
            return f"({a} <? {b})%Z"
        if t is ast.LtE:
            return f"({a} <=? {b})%Z"
        if t is ast.Gt:
            return f"({b} <? {a})%Z"
        if t is ast.GtE:
            return f"({b} <=? {a})%Z"
    raise Shape(f"unsupported test at {_where(e)}")


def _metric(e, what):
    if isinstance(e, ast.Constant) and isinstance(e.value, str) and e.value in METRICS:
        return METRICS[e.value]
    raise Shape(f"{what}: not a known metric name: {_u(e)}")


# ---------------------------------------------------------------------------------------------
# statements
# ---------------------------------------------------------------------------------------------
def _is_noise(s):
    if isinstance(s, ast.Expr) and isinstance(s.value, ast.Constant):
        return True
    return isinstance(s, ast.Expr) and isinstance(s.value, ast.Call) and _u(s.value.func).startswith("logger.")


def _strip(node):
    for fld in ("body", "orelse", "finalbody"):
        stmts = getattr(node, fld, None)
        if isinstance(stmts, list):
            kept = [s for s in stmts if not _is_noise(s)]
            if not kept and stmts and fld == "body":
                kept = [ast.Pass()]
            setattr(node, fld, kept)
            for s in kept:
                _strip(s)
    return node


def _hole(name):
    return ast.Name(id=name, ctx=ast.Load())


def _norm(text):
    return ast.unparse(ast.parse(text))


def _body_text(fn):
    return "\n".join(_u(s) for s in fn.body)


def _match(fn, template, what):
    got = _body_text(fn)
    want = _norm(template)
    if got != want:
        d = [ln for ln in difflib.unified_diff(want.splitlines(), got.splitlines(), lineterm="", n=0)
             if not ln.startswith(("---", "+++", "@@"))]
        raise Shape(f"{what} differs from the modelled text: " + " | ".join(d)[:500])


def _args(fn, names, what):
    a = fn.args
    got = [x.arg for x in a.posonlyargs + a.args]
    if got != names or a.vararg or a.kwarg or a.kwonlyargs or fn.decorator_list:
        raise Shape(f"{what}: unexpected signature {got}")


def _functions(body, what):
    out = {}
    for n in body:
        if isinstance(n, (ast.FunctionDef, ast.AsyncFunctionDef)):
            if n.name in out:
                raise Shape(f"{what}: {n.name} defined twice")
            out[n.name] = n
    return out


def _assigns_to(stmts, target):
    """all statements (recursively) that assign / aug-assign to `target` (unparsed)"""
    found = []
    for s in stmts:
        for n in ast.walk(s):
            if isinstance(n, ast.Assign) and any(_u(t) == target for t in n.targets):
                found.append(n)
            elif isinstance(n, (ast.AugAssign, ast.AnnAssign)) and _u(n.target) == target:
                found.append(n)
    return found


def _one(lst, what):
    if len(lst) != 1:
        raise Shape(f"{what}: expected exactly one, found {len(lst)}")
    return lst[0]


def _plain_assign(s, target, what):
    if not (isinstance(s, ast.Assign) and len(s.targets) == 1 and _u(s.targets[0]) == target):
        raise Shape(f"{what}: expected `{target} = ...`, found {_where(s)}")
    return s


# ---------------------------------------------------------------------------------------------
# decoders for the tag holes
# ---------------------------------------------------------------------------------------------
def _select(e, series, what):
    """<series>.idxmax() | .idxmin() | .argmax() | .argmin() | np.argmax(<series>) | np.argmin(<series>)
    (all: FIRST position of the extremum) -> sel_tag"""
    name = None
    arg = None
    if isinstance(e, ast.Call) and not e.keywords:
        if isinstance(e.func, ast.Attribute) and not e.args and e.func.attr in ("idxmax", "idxmin", "argmax", "argmin"):
            name, arg = e.func.attr, e.func.value
        elif _u(e.func) in ("np.argmax", "np.argmin") and len(e.args) == 1:
            name, arg = _u(e.func)[3:], e.args[0]
    if name is None or _u(arg) not in series:
        raise Shape(f"{what}: unsupported selection {_where(e)}")
    return "SelFirstMax" if name.endswith("max") else "SelFirstMin"


def _index(e, common, own_series, what):
    """the position a group's row is read at: the common index | the arg-extremum of the group's own curve"""
    if _u(e) == common:
        return "IdxCommon"
    try:
        _select(e, own_series, what)
    except Shape:
        raise Shape(f"{what}: unsupported row index {_where(e)}")
    return "IdxOwn"


def _bunch(call, row, extra, what):
    """Bunch(p0=<row>.p0, operation0=<row>.operation0, p1=..., operation1=..., **extra) -> (bunch_src text, extras)"""
    if not (isinstance(call, ast.Call) and _u(call.func) == "Bunch" and not call.args):
        raise Shape(f"{what}: not a Bunch(...) call: {_where(call)}")
    kws = {}
    for k in call.keywords:
        if k.arg is None or k.arg in kws:
            raise Shape(f"{what}: unsupported Bunch keyword at {_where(call)}")
        kws[k.arg] = k.value
    need = ["p0", "operation0", "p1", "operation1"]
    if set(kws) != set(need) | set(extra):
        raise Shape(f"{what}: Bunch fields {sorted(kws)}")
    cols = []
    for f in need:
        v = kws[f]
        if not (isinstance(v, ast.Attribute) and _u(v.value) == row and v.attr in COLS):
            raise Shape(f"{what}: Bunch field {f} = {_u(v)}")
        cols.append(COLS[v.attr])
    return "mkbunch " + " ".join(cols), {k: kws[k] for k in extra}


def _tradeoff_call(e, hull_name, what):
    """<hull> = _tradeoff_curve(group, sensitive_feature_value, flip=self.flip[, x_metric=..., y_metric=...])"""
    if not (isinstance(e, ast.Call) and _u(e.func) == "_tradeoff_curve" and [_u(a) for a in e.args] ==
            ["group", "sensitive_feature_value"]):
        raise Shape(f"{what}: unexpected _tradeoff_curve call {_where(e)}")
    kws = {}
    for k in e.keywords:
        if k.arg is None or k.arg in kws or k.arg not in ("flip", "x_metric", "y_metric"):
            raise Shape(f"{what}: unexpected keyword in {_where(e)}")
        kws[k.arg] = k.value
    if "flip" not in kws or _u(kws["flip"]) != "self.flip":
        raise Shape(f"{what}: flip is not passed as flip=self.flip in {_where(e)}")
    return kws


def _cm(call, zexpr, what):
    """_extend_confusion_matrix(false_positives=..., ...) -> the four fields in mkcm order (tp fp tn fn)"""
    if not (isinstance(call, ast.Call) and _u(call.func) == "_extend_confusion_matrix" and not call.args):
        raise Shape(f"{what}: not an _extend_confusion_matrix(...) call: {_where(call)}")
    kws = {}
    for k in call.keywords:
        if k.arg is None or k.arg in kws:
            raise Shape(f"{what}: unsupported keyword at {_where(call)}")
        kws[k.arg] = k.value
    order = ["true_positives", "false_positives", "true_negatives", "false_negatives"]
    if set(kws) != set(order):
        raise Shape(f"{what}: fields {sorted(kws)}")
    return [zexpr(kws[f]) for f in order]


# ---------------------------------------------------------------------------------------------
# templates
# ---------------------------------------------------------------------------------------------
SIMPLE_TEMPLATE = """
n = len(labels)
self._tradeoff_curve = {}
self._x_grid = np.linspace(0, 1, self.grid_size + 1)
overall_tradeoff_curve = HOLE_INIT
data_grouped_by_sensitive_feature = _reformat_and_group_data(sensitive_features, labels, scores)
for (sensitive_feature_value, group) in data_grouped_by_sensitive_feature:
    p_sensitive_feature_value = HOLE_WEIGHT
    metrics_curve_convex_hull = HOLE_TRADEOFF
    self._tradeoff_curve[sensitive_feature_value] = _interpolate_curve(metrics_curve_convex_hull, 'x', 'y', 'operation', self._x_grid)
    overall_tradeoff_curve = HOLE_ACC
self._overall_tradeoff_curve = pd.DataFrame({'x': self._x_grid, 'y': overall_tradeoff_curve})
i_best = HOLE_SELECT
self._x_best = self._x_grid[i_best]
interpolation_dict = {}
for sensitive_feature_value in self._tradeoff_curve.keys():
    best_interpolation = self._tradeoff_curve[sensitive_feature_value].iloc[HOLE_INDEX]
    interpolation_dict[sensitive_feature_value] = HOLE_BUNCH
return InterpolatedThresholder(self.estimator_, interpolation_dict, prefit=True, predict_method=self._predict_method).fit(None, None)
"""

EO_TEMPLATE = """
data_grouped_by_sensitive_feature = _reformat_and_group_data(sensitive_features, labels, scores)
n = len(labels)
if isinstance(labels, pd.DataFrame):
    n_positive = labels.sum().iloc[0]
else:
    n_positive = sum(labels)
n_negative = HOLE_NNEG
self._tradeoff_curve = {}
self._x_grid = np.linspace(0, 1, self.grid_size + 1)
y_values = pd.DataFrame()
for (sensitive_feature_value, group) in data_grouped_by_sensitive_feature:
    roc_convex_hull = HOLE_TRADEOFF
    self._tradeoff_curve[sensitive_feature_value] = _interpolate_curve(roc_convex_hull, 'x', 'y', 'operation', self._x_grid)
    y_values[sensitive_feature_value] = self._tradeoff_curve[sensitive_feature_value]['y']
self._y_min = HOLE_REDUCE
counts = HOLE_COUNTS
objective_values = np.around(METRIC_DICT[self.objective](counts), 15)
i_best_EO = HOLE_SELECT
self._x_best = self._x_grid[i_best_EO]
self._y_best = self._y_min[i_best_EO]
interpolation_dict = {}
for sensitive_feature_value in self._tradeoff_curve.keys():
    roc_result = HOLE_ROW
    p_ignore = HOLE_PIGNORE
    interpolation_dict[sensitive_feature_value] = HOLE_BUNCH
return InterpolatedThresholder(self.estimator_, interpolation_dict, prefit=True, predict_method=self._predict_method).fit(None, None)
"""

POINTS_TEMPLATE = """
(scores, labels, n, n_positive, n_negative) = _get_scores_labels_and_counts(data)
if HOLE_GUARD:
    raise ValueError(DEGENERATE_LABELS_ERROR_MESSAGE.format(sensitive_feature_value))
scores.append(-np.inf)
labels.append(np.nan)
i = 0
count = [0, 0]
(x_list, y_list, operation_list) = ([], [], [])
while i < n:
    if x_list == []:
        threshold = np.inf
    else:
        threshold = scores[i]
        while scores[i] == threshold:
            count[labels[i]] += 1
            i += 1
        threshold = HOLE_MID
    actual_counts = HOLE_ACTUAL
    flipped_counts = HOLE_FLIPPED
    if flip:
        operations = HOLE_OPS_FLIP
    else:
        operations = HOLE_OPS_NOFLIP
    for (operation_string, counts) in operations:
        x = METRIC_DICT[x_metric](counts)
        y = METRIC_DICT[y_metric](counts)
        operation = ThresholdOperation(operation_string, threshold)
        x_list.append(x)
        y_list.append(y)
        operation_list.append(operation)
return pd.DataFrame({'x': x_list, 'y': y_list, 'operation': operation_list}).sort_values(HOLE_SORT).reset_index(drop=True)
"""

TRADEOFF_CURVE_TEMPLATE = """
points_sorted = _calculate_tradeoff_points(data, sensitive_feature_value, flip=flip, x_metric=x_metric, y_metric=y_metric)
points_selected = _filter_points_to_get_convex_hull(points_sorted)
return points_selected
"""

SCORES_TEMPLATE = """
data_sorted = data.sort_values(by=SCORE_KEY, ascending=False)
scores = list(data_sorted[SCORE_KEY])
labels = list(data_sorted[LABEL_KEY])
(n, n_positive, n_negative) = _get_counts(labels)
return (scores, labels, n, n_positive, n_negative)
"""

COUNTS_TEMPLATE = """
n = len(labels)
n_positive = sum(labels)
n_negative = n - n_positive
return (n, n_positive, n_negative)
"""

INDICES_TEMPLATE = """
indices = np.searchsorted(x_values, x_grid, side=HOLE_SIDE) - 1
indices[1:] = np.where(x_grid[1:] == x_values[indices[1:]], indices[1:] - 1, indices[1:])
return indices
"""

FIT_DISPATCH = """
if self.constraints == 'equalized_odds':
    self.x_metric_ = 'false_positive_rate'
    self.y_metric_ = 'true_positive_rate'
    threshold_optimization_method = self._threshold_optimization_for_equalized_odds
else:
    self.x_metric_ = SIMPLE_CONSTRAINTS[self.constraints]
    self.y_metric_ = self.objective
    threshold_optimization_method = self._threshold_optimization_for_simple_constraints
self.interpolated_thresholder_ = threshold_optimization_method(sensitive_feature_vector, y, scores)
return self
"""


# ---------------------------------------------------------------------------------------------
# the functions
# ---------------------------------------------------------------------------------------------
def _simple(fn):
    what = "_threshold_optimization_for_simple_constraints"
    _args(fn, ["self", "sensitive_features", "labels", "scores"], what)
    _strip(fn)
    out = {}
    loops = [s for s in fn.body if isinstance(s, ast.For)]
    if len(loops) != 2 or any(l.orelse for l in loops):
        raise Shape(f"{what}: expected exactly two for loops")
    first, second = loops
    curve_y = "self._tradeoff_curve[sensitive_feature_value]['y']"
    # accumulator: initialised exactly once before the first loop, updated exactly once inside it
    acc_name = "overall_tradeoff_curve"
    all_acc = _assigns_to(fn.body, acc_name)
    if len(all_acc) != 2:
        raise Shape(f"{what}: expected one initialisation and one update of {acc_name}, found {len(all_acc)}")
    init = _one([s for s in fn.body[:fn.body.index(first)] if s in all_acc], f"{what}: initialisation of {acc_name}")
    _plain_assign(init, acc_name, what)
    out["simple_init"] = _q(init.value, {"self._x_grid": "x"})
    init.value = _hole("HOLE_INIT")
    upd = _one([s for s in first.body if s in all_acc], f"{what}: update of {acc_name} in the group loop")
    atoms = {"p_sensitive_feature_value": "p", curve_y: "y"}
    k = first.body.index(upd)
    if isinstance(upd, ast.AugAssign) and type(upd.op) in QOPS:
        out["simple_acc"] = f"(acc {QOPS[type(upd.op)]} {_q(upd.value, atoms)})"
    elif isinstance(upd, ast.Assign) and len(upd.targets) == 1:
        out["simple_acc"] = _q(upd.value, dict(atoms, **{acc_name: "acc"}))
    else:
        raise Shape(f"{what}: unsupported update {_where(upd)}")
    first.body[k] = ast.Assign(targets=[ast.Name(id=acc_name, ctx=ast.Store())], value=_hole("HOLE_ACC"), lineno=0)
    w = _one([s for s in first.body if isinstance(s, ast.Assign) and _u(s.targets[0]) == "p_sensitive_feature_value"],
             f"{what}: p_sensitive_feature_value")
    out["simple_weight"] = _q(w.value, {"len(group)": "len_group", "n": "n"})
    w.value = _hole("HOLE_WEIGHT")
    t = _one([s for s in first.body if isinstance(s, ast.Assign) and _u(s.targets[0]) == "metrics_curve_convex_hull"],
             f"{what}: metrics_curve_convex_hull")
    kws = _tradeoff_call(t.value, "metrics_curve_convex_hull", what)
    if {k: _u(v) for k, v in kws.items()} != {"flip": "self.flip", "x_metric": "self.x_metric_",
                                              "y_metric": "self.y_metric_"}:
        raise Shape(f"{what}: _tradeoff_curve is not called with x_metric=self.x_metric_, y_metric=self.y_metric_")
    t.value = _hole("HOLE_TRADEOFF")
    sel = _one([s for s in fn.body if isinstance(s, ast.Assign) and _u(s.targets[0]) == "i_best"], f"{what}: i_best")
    out["simple_select"] = _select(sel.value, {acc_name, "self._overall_tradeoff_curve['y']",
                                               "self._overall_tradeoff_curve.y"}, what)
    sel.value = _hole("HOLE_SELECT")
    row = _one([s for s in second.body if isinstance(s, ast.Assign) and _u(s.targets[0]) == "best_interpolation"],
               f"{what}: best_interpolation")
    v = row.value
    if not (isinstance(v, ast.Subscript) and isinstance(v.value, ast.Attribute) and v.value.attr == "iloc"
            and _u(v.value.value) == "self._tradeoff_curve[sensitive_feature_value]"):
        raise Shape(f"{what}: unexpected row selection {_where(v)}")
    out["simple_index"] = _index(v.slice, "i_best", {curve_y, "self._tradeoff_curve[sensitive_feature_value].y"}, what)
    v.slice = _hole("HOLE_INDEX")
    b = _one([s for s in second.body if isinstance(s, ast.Assign)
              and _u(s.targets[0]) == "interpolation_dict[sensitive_feature_value]"], f"{what}: interpolation_dict entry")
    out["simple_bunch"], _ = _bunch(b.value, "best_interpolation", [], what)
    b.value = _hole("HOLE_BUNCH")
    _match(fn, SIMPLE_TEMPLATE, what)
    return out


def _eo(fn, defaults):
    what = "_threshold_optimization_for_equalized_odds"
    _args(fn, ["self", "sensitive_features", "labels", "scores"], what)
    _strip(fn)
    out = {}
    loops = [s for s in fn.body if isinstance(s, ast.For)]
    if len(loops) != 2 or any(l.orelse for l in loops):
        raise Shape(f"{what}: expected exactly two for loops")
    first, second = loops
    curve = "self._tradeoff_curve[sensitive_feature_value]"

    def top(target):
        return _one([s for s in fn.body if isinstance(s, ast.Assign) and _u(s.targets[0]) == target], f"{what}: {target}")

    nn = top("n_negative")
    out["eo_n_negative"] = _z(nn.value, {"n": "n", "n_positive": "n_positive"})
    nn.value = _hole("HOLE_NNEG")
    t = _one([s for s in first.body if isinstance(s, ast.Assign) and _u(s.targets[0]) == "roc_convex_hull"],
             f"{what}: roc_convex_hull")
    kws = _tradeoff_call(t.value, "roc_convex_hull", what)
    out["eo_x_metric"] = _metric(kws["x_metric"], what) if "x_metric" in kws else defaults["x_metric"]
    out["eo_y_metric"] = _metric(kws["y_metric"], what) if "y_metric" in kws else defaults["y_metric"]
    t.value = _hole("HOLE_TRADEOFF")
    red = top("self._y_min")
    v = red.value
    tag = None
    if isinstance(v, ast.Call):
        kw = {k.arg: _u(k.value) for k in v.keywords}
        fname = _u(v.func)
        table = {"np.amin": "RedMin", "np.min": "RedMin", "np.amax": "RedMax", "np.max": "RedMax", "np.mean": "RedMean",
                 "y_values.min": "RedMin", "y_values.max": "RedMax", "y_values.mean": "RedMean"}
        if fname in table and kw == {"axis": "1"} and \
                [_u(a) for a in v.args] == ([] if fname.startswith("y_values.") else ["y_values"]):
            tag = table[fname]
    if tag is None:
        raise Shape(f"{what}: unsupported reduction over the groups' curves: {_where(v)}")
    out["eo_reduce"] = tag
    red.value = _hole("HOLE_REDUCE")
    cnt = top("counts")
    atoms = {"n_negative": "(inject_Z n_negative)", "n_positive": "(inject_Z n_positive)", "self._x_grid": "x",
             "self._y_min": "ymin"}
    out["eo_counts"] = _cm(cnt.value, lambda e: _q(e, atoms), what)
    cnt.value = _hole("HOLE_COUNTS")
    sel = top("i_best_EO")
    out["eo_select"] = _select(sel.value, {"objective_values"}, what)
    sel.value = _hole("HOLE_SELECT")
    row = _one([s for s in second.body if isinstance(s, ast.Assign) and _u(s.targets[0]) == "roc_result"],
               f"{what}: roc_result")
    v = row.value
    idx = None
    if isinstance(v, ast.Subscript):
        base = _u(v.value)
        if base in (curve + ".transpose()", curve + ".T", curve + ".iloc"):
            idx = v.slice
    if idx is None:
        raise Shape(f"{what}: unexpected row selection {_where(v)}")
    out["eo_index"] = _index(idx, "i_best_EO", {curve + "['y']", curve + ".y"}, what)
    row.value = _hole("HOLE_ROW")
    # p_ignore: `if <y == x>: p_ignore = e0 else: locals...; p_ignore = e1`
    iff = _one([s for s in second.body if isinstance(s, ast.If)], f"{what}: the p_ignore branch")
    atoms = {"roc_result.y": "y", "roc_result.x": "x", "self._y_best": "ybest", "self._x_best": "xbest"}
    tst = iff.test
    if not (isinstance(tst, ast.Compare) and len(tst.ops) == 1 and isinstance(tst.ops[0], ast.Eq)):
        raise Shape(f"{what}: unsupported p_ignore test {_where(tst)}")
    cond = f"Qeqb {_q(tst.left, atoms)} {_q(tst.comparators[0], atoms)}"

    def branch(stmts):
        env = dict(atoms)
        for s in stmts:
            if not (isinstance(s, ast.Assign) and len(s.targets) == 1 and isinstance(s.targets[0], ast.Name)):
                raise Shape(f"{what}: unsupported statement in the p_ignore branch: {_where(s)}")
            env[s.targets[0].id] = _q(s.value, env)
        if "p_ignore" not in env or not stmts or _u(stmts[-1].targets[0]) != "p_ignore":
            raise Shape(f"{what}: branch does not end in an assignment to p_ignore")
        return env["p_ignore"]
    out["eo_p_ignore"] = f"if {cond} then {branch(iff.body)} else {branch(iff.orelse)}"
    second.body[second.body.index(iff)] = ast.Assign(targets=[ast.Name(id="p_ignore", ctx=ast.Store())],
                                                     value=_hole("HOLE_PIGNORE"), lineno=0)
    b = _one([s for s in second.body if isinstance(s, ast.Assign)
              and _u(s.targets[0]) == "interpolation_dict[sensitive_feature_value]"], f"{what}: interpolation_dict entry")
    out["eo_bunch"], extra = _bunch(b.value, "roc_result", ["p_ignore", "prediction_constant"], what)
    if _u(extra["p_ignore"]) != "p_ignore":
        raise Shape(f"{what}: Bunch p_ignore = {_u(extra['p_ignore'])}")
    pc = _u(extra["prediction_constant"])
    if pc not in ("self._x_best", "self._y_best"):
        raise Shape(f"{what}: prediction_constant = {pc}")
    out["eo_const"] = "ConstXBest" if pc == "self._x_best" else "ConstYBest"
    b.value = _hole("HOLE_BUNCH")
    _match(fn, EO_TEMPLATE, what)
    return out


def _points(fn):
    what = "_calculate_tradeoff_points"
    _args(fn, ["data", "sensitive_feature_value", "flip", "x_metric", "y_metric"], what)
    _strip(fn)
    out = {}
    guard = _one([s for s in fn.body if isinstance(s, ast.If)], f"{what}: the degenerate-label guard")
    out["tp_degenerate"] = _zbool(guard.test, {"n_positive": "n_positive", "n_negative": "n_negative"})
    guard.test = _hole("HOLE_GUARD")
    loop = _one([s for s in fn.body if isinstance(s, ast.While)], f"{what}: the main loop")
    first = _one([s for s in loop.body if isinstance(s, ast.If) and _u(s.test) == "x_list == []"],
                 f"{what}: `if x_list == []`")
    if not first.orelse:
        raise Shape(f"{what}: no else branch for the threshold")
    mid = _plain_assign(first.orelse[-1], "threshold", what)
    out["tp_midpoint"] = _q(mid.value, {"threshold": "t", "scores[i]": "s"})
    mid.value = _hole("HOLE_MID")
    zat = {"count[0]": "c0", "count[1]": "c1", "n_negative": "n_negative", "n_positive": "n_positive"}
    for name, key, hole in (("actual_counts", "tp_actual", "HOLE_ACTUAL"), ("flipped_counts", "tp_flipped", "HOLE_FLIPPED")):
        a = _one([s for s in loop.body if isinstance(s, ast.Assign) and _u(s.targets[0]) == name], f"{what}: {name}")
        out[key] = _cm(a.value, lambda e: _z(e, zat), what)
        a.value = _hole(hole)
    br = _one([s for s in loop.body if isinstance(s, ast.If) and _u(s.test) == "flip"], f"{what}: `if flip`")

    def ops(stmts, hole):
        a = _plain_assign(_one(stmts, f"{what}: operations"), "operations", what)
        if not isinstance(a.value, (ast.List, ast.Tuple)):
            raise Shape(f"{what}: operations is not a list literal: {_where(a)}")
        res = []
        for el in a.value.elts:
            if not (isinstance(el, ast.Tuple) and len(el.elts) == 2 and isinstance(el.elts[0], ast.Constant)
                    and el.elts[0].value in (">", "<") and _u(el.elts[1]) in ("actual_counts", "flipped_counts")):
                raise Shape(f"{what}: unsupported operation entry {_where(el)}")
            res.append("(%s, %s)" % ("OpGt" if el.elts[0].value == ">" else "OpLt",
                                     "CmActual" if _u(el.elts[1]) == "actual_counts" else "CmFlipped"))
        a.value = _hole(hole)
        return "[" + "; ".join(res) + "]"
    out["tp_ops_flip"] = ops(br.body, "HOLE_OPS_FLIP")
    out["tp_ops_noflip"] = ops(br.orelse, "HOLE_OPS_NOFLIP")
    ret = fn.body[-1]
    if not isinstance(ret, ast.Return):
        raise Shape(f"{what}: last statement is not a return")
    sv = [n for n in ast.walk(ret) if isinstance(n, ast.Call) and isinstance(n.func, ast.Attribute)
          and n.func.attr == "sort_values"]
    sv = _one(sv, f"{what}: sort_values call")
    kw = {}
    for k in sv.keywords:
        if k.arg is None or k.arg in kw:
            raise Shape(f"{what}: unsupported sort_values keyword")
        kw[k.arg] = k.value
    if len(sv.args) == 1 and "by" not in kw:
        kw["by"] = sv.args[0]
    elif sv.args:
        raise Shape(f"{what}: unsupported sort_values arguments")
    if "by" not in kw or set(kw) - {"by", "ascending", "kind"}:
        raise Shape(f"{what}: unsupported sort_values keywords {sorted(kw)}")
    by = kw["by"]
    elts = by.elts if isinstance(by, (ast.List, ast.Tuple)) else [by]
    keys = []
    for el in elts:
        if not (isinstance(el, ast.Constant) and el.value in ("x", "y")):
            raise Shape(f"{what}: unsupported sort key {_u(el)}")
        keys.append("KeyX" if el.value == "x" else "KeyY")
    asc = kw.get("ascending")
    if asc is not None and not (isinstance(asc, ast.Constant) and isinstance(asc.value, bool)):
        raise Shape(f"{what}: unsupported ascending={_u(asc)}")
    if "kind" in kw:
        kind = kw["kind"]
        stable = ("mergesort", "stable") if len(keys) < 2 else ("mergesort", "stable", "quicksort", "heapsort")
        # pandas ignores `kind` when sorting by more than one column (always a stable lexsort)
        if not (isinstance(kind, ast.Constant) and kind.value in stable):
            raise Shape(f"{what}: unsupported kind={_u(kind)}")
    out["tp_sort_keys"] = "[" + "; ".join(keys) + "]"
    out["tp_sort_ascending"] = "true" if asc is None or asc.value else "false"
    sv.args = [_hole("HOLE_SORT")]
    sv.keywords = []
    _match(fn, POINTS_TEMPLATE, what)
    return out


def _tradeoff_curve_defaults(fn):
    what = "_tradeoff_curve"
    _args(fn, ["data", "sensitive_feature_value", "flip", "x_metric", "y_metric"], what)
    d = fn.args.defaults
    if len(d) != 3 or not (isinstance(d[0], ast.Constant) and d[0].value is False):
        raise Shape(f"{what}: unexpected defaults")
    _strip(fn)
    _match(fn, TRADEOFF_CURVE_TEMPLATE, what)
    return {"x_metric": _metric(d[1], what), "y_metric": _metric(d[2], what)}


def _indices(fn):
    what = "_get_interpolation_indices"
    _args(fn, ["x_grid", "x_values"], what)
    _strip(fn)
    calls = [n for n in ast.walk(fn) if isinstance(n, ast.Call) and _u(n.func) == "np.searchsorted"]
    c = _one(calls, f"{what}: np.searchsorted call")
    kw = {k.arg: k.value for k in c.keywords}
    if set(kw) - {"side"}:
        raise Shape(f"{what}: unsupported searchsorted keywords")
    side = kw.get("side")
    if side is None:
        tag = "SideLeft"
        c.keywords = [ast.keyword(arg="side", value=_hole("HOLE_SIDE"))]
    elif isinstance(side, ast.Constant) and side.value in ("left", "right"):
        tag = "SideRight" if side.value == "right" else "SideLeft"
        c.keywords[0].value = _hole("HOLE_SIDE")
    else:
        raise Shape(f"{what}: unsupported side={_u(side)}")
    _match(fn, INDICES_TEMPLATE, what)
    return {"interp_side": tag}


CMP = {ast.Gt: "Qltb thr y", ast.Lt: "Qltb y thr", ast.GtE: "Qleb thr y", ast.LtE: "Qleb y thr"}


def _threshold_operation(tree):
    what = "ThresholdOperation"
    cls = _one([n for n in tree.body if isinstance(n, ast.ClassDef) and n.name == what], what)
    fns = _functions(cls.body, what)
    for need in ("__init__", "__call__"):
        if need not in fns:
            raise Shape(f"{what}.{need} not found")
    init = _strip(fns["__init__"])
    got = [_u(s) for s in init.body if isinstance(s, (ast.Assign, ast.AugAssign))]
    if got != ["self._operator = operator", "self._threshold = threshold"]:
        raise Shape(f"{what}.__init__: unexpected assignments {got}")
    for name, f in fns.items():
        if name != "__init__":
            for n in ast.walk(f):
                if isinstance(n, (ast.Assign, ast.AugAssign)) and "self._" in _u(n):
                    raise Shape(f"{what}.{name} assigns state")
    call = _strip(fns["__call__"])
    _args(call, ["self", "y_hat"], what + ".__call__")
    node = _one(call.body, what + ".__call__ body")
    br = {}
    while True:
        if not isinstance(node, ast.If):
            raise Shape(f"{what}.__call__: not an if chain")
        t = node.test
        if not (isinstance(t, ast.Compare) and _u(t.left) == "self._operator" and len(t.ops) == 1
                and isinstance(t.ops[0], ast.Eq) and isinstance(t.comparators[0], ast.Constant)):
            raise Shape(f"{what}.__call__: unexpected test {_u(t)}")
        key = t.comparators[0].value
        r = _one(node.body, what + ".__call__ branch")
        if not (isinstance(r, ast.Return) and isinstance(r.value, ast.Compare) and len(r.value.ops) == 1
                and _u(r.value.left) == "y_hat" and _u(r.value.comparators[0]) == "self._threshold"
                and type(r.value.ops[0]) in CMP) or key in br:
            raise Shape(f"{what}.__call__: unexpected branch {_where(r)}")
        br[key] = CMP[type(r.value.ops[0])]
        if len(node.orelse) == 1 and isinstance(node.orelse[0], ast.If):
            node = node.orelse[0]
            continue
        if not (len(node.orelse) == 1 and isinstance(node.orelse[0], ast.Raise)):
            raise Shape(f"{what}.__call__: final else is not a raise")
        break
    if set(br) != {">", "<"}:
        raise Shape(f"{what}.__call__: operators {sorted(br)}")
    return {"op_gt": br[">"], "op_lt": br["<"]}


def _module_tables(tree):
    vals = {}
    for n in tree.body:
        if isinstance(n, ast.Assign) and len(n.targets) == 1 and isinstance(n.targets[0], ast.Name):
            nm = n.targets[0].id
            if nm in ("SIMPLE_CONSTRAINTS", "OBJECTIVES_FOR_SIMPLE_CONSTRAINTS", "OBJECTIVES_FOR_EQUALIZED_ODDS"):
                if nm in vals:
                    raise Shape(f"{nm} assigned twice")
                vals[nm] = n.value
    for nm in ("SIMPLE_CONSTRAINTS", "OBJECTIVES_FOR_SIMPLE_CONSTRAINTS", "OBJECTIVES_FOR_EQUALIZED_ODDS"):
        if nm not in vals:
            raise Shape(f"{nm} not found")
    sc = vals["SIMPLE_CONSTRAINTS"]
    if not isinstance(sc, ast.Dict) or not all(isinstance(k, ast.Constant) and isinstance(k.value, str) for k in sc.keys):
        raise Shape("SIMPLE_CONSTRAINTS is not a dict literal with string keys")
    out = {"simple_constraint_metrics": "[" + "; ".join(_metric(v, "SIMPLE_CONSTRAINTS") for v in sc.values) + "]"}
    for nm, key in (("OBJECTIVES_FOR_SIMPLE_CONSTRAINTS", "simple_objectives"), ("OBJECTIVES_FOR_EQUALIZED_ODDS", "eo_objectives")):
        v = vals[nm]
        if not isinstance(v, (ast.Set, ast.List, ast.Tuple)):
            raise Shape(f"{nm} is not a set literal")
        names = sorted(_metric(e, nm) for e in v.elts)
        out[key] = "[" + "; ".join(names) + "]"
    return out


def _fit_dispatch(fn):
    what = "ThresholdOptimizer.fit"
    _strip(fn)
    k = next((i for i, s in enumerate(fn.body) if isinstance(s, ast.If) and "equalized_odds" in _u(s.test)
              and any("threshold_optimization_method" in _u(x) for x in s.body)), None)
    if k is None:
        raise Shape(f"{what}: dispatch on self.constraints not found")
    if k == 0 or _u(fn.body[k - 1]) != "scores = _get_soft_predictions(self.estimator_, X, self._predict_method)":
        raise Shape(f"{what}: scores are not the estimator's soft predictions: {_where(fn.body[max(k - 1, 0)])}")
    got = "\n".join(_u(s) for s in fn.body[k:])
    if got != _norm(FIT_DISPATCH):
        raise Shape(f"{what}: dispatch differs from the modelled text: {got[:300]!r}")


def translate(repo: Path):
    repo = Path(repo)
    t_to = ast.parse((repo / SRC_TO).read_text())
    t_tc = ast.parse((repo / SRC_TC).read_text())
    t_op = ast.parse((repo / SRC_OP).read_text())
    cls = _one([n for n in t_to.body if isinstance(n, ast.ClassDef) and n.name == "ThresholdOptimizer"],
               "class ThresholdOptimizer")
    meth = _functions(cls.body, "ThresholdOptimizer")
    mod = _functions(t_tc.body, SRC_TC)
    for need in ("fit", "_threshold_optimization_for_simple_constraints", "_threshold_optimization_for_equalized_odds"):
        if need not in meth:
            raise Shape(f"ThresholdOptimizer.{need} not found")
    for need in ("_tradeoff_curve", "_calculate_tradeoff_points", "_get_scores_labels_and_counts", "_get_counts",
                 "_get_interpolation_indices"):
        if need not in mod:
            raise Shape(f"{need} not found")
    g = {}
    g.update(_module_tables(t_to))
    _fit_dispatch(meth["fit"])
    defaults = _tradeoff_curve_defaults(mod["_tradeoff_curve"])
    g.update(_simple(meth["_threshold_optimization_for_simple_constraints"]))
    g.update(_eo(meth["_threshold_optimization_for_equalized_odds"], defaults))
    g.update(_points(mod["_calculate_tradeoff_points"]))
    f = mod["_get_scores_labels_and_counts"]
    _args(f, ["data"], f.name)
    _match(_strip(f), SCORES_TEMPLATE, f.name)
    f = mod["_get_counts"]
    _args(f, ["labels"], f.name)
    _match(_strip(f), COUNTS_TEMPLATE, f.name)
    g.update(_indices(mod["_get_interpolation_indices"]))
    g.update(_threshold_operation(t_op))

    def cmq(fields):
        return "mkcm " + " ".join(x if x.startswith("(") else f"({x})" for x in fields)

    def cmz(fields):
        return "mkcm " + " ".join(f"(inject_Z {x})" for x in fields)
    text = f"""(* GENERATED by translators/t_threshopt.py from {SRC_TO}, {SRC_TC}, {SRC_OP} -- do not edit *)
From Coq Require Import QArith ZArith List Bool.
From FL Require Import Num Tradeoff Hull Interp ThreshOpt ThreshOptSrc.
Import ListNotations.
Open Scope Q_scope.

(* ---- SIMPLE_CONSTRAINTS (values), OBJECTIVES_FOR_SIMPLE_CONSTRAINTS, OBJECTIVES_FOR_EQUALIZED_ODDS ---- *)
Definition simple_constraint_metrics : list metric := {g['simple_constraint_metrics']}.
Definition simple_objectives : list metric := {g['simple_objectives']}.
Definition eo_objectives : list metric := {g['eo_objectives']}.

(* ---- _threshold_optimization_for_simple_constraints ---- *)
(* overall_tradeoff_curve = ...          (x = self._x_grid) *)
Definition simple_init (x : Q) : Q := {g['simple_init']}.
(* p_sensitive_feature_value = ...       (len_group = len(group), n = len(labels)) *)
Definition simple_weight (len_group n : Q) : Q := {g['simple_weight']}.
(* overall_tradeoff_curve <- ...         (acc = overall_tradeoff_curve, p = p_sensitive_feature_value, y = curve["y"]) *)
Definition simple_acc (acc p y : Q) : Q := {g['simple_acc']}.
(* i_best = ... *)
Definition simple_select : sel_tag := {g['simple_select']}.
(* best_interpolation = curve.iloc[...] *)
Definition simple_index : idx_tag := {g['simple_index']}.
(* Bunch(p0=, operation0=, p1=, operation1=) *)
Definition simple_bunch : bunch_src := {g['simple_bunch']}.

(* ---- _threshold_optimization_for_equalized_odds ---- *)
Definition eo_x_metric : metric := {g['eo_x_metric']}.
Definition eo_y_metric : metric := {g['eo_y_metric']}.
Definition eo_n_negative (n n_positive : Z) : Z := ({g['eo_n_negative']})%Z.
(* self._y_min = ... *)
Definition eo_reduce : red_tag := {g['eo_reduce']}.
(* counts = _extend_confusion_matrix(...)   (x = self._x_grid, ymin = self._y_min) *)
Definition eo_counts (n_positive n_negative : Z) (x ymin : Q) : cm :=
  {cmq(g['eo_counts'])}.
(* i_best_EO = ... *)
Definition eo_select : sel_tag := {g['eo_select']}.
(* roc_result = curve.transpose()[...] *)
Definition eo_index : idx_tag := {g['eo_index']}.
(* p_ignore   (x = roc_result.x, y = roc_result.y, xbest = self._x_best, ybest = self._y_best) *)
Definition eo_p_ignore (x y xbest ybest : Q) : Q :=
  {g['eo_p_ignore']}.
(* prediction_constant = ... *)
Definition eo_const : const_tag := {g['eo_const']}.
Definition eo_bunch : bunch_src := {g['eo_bunch']}.

(* ---- _calculate_tradeoff_points ---- *)
(* if ...: raise ValueError(DEGENERATE_LABELS_ERROR_MESSAGE...) *)
Definition tp_degenerate (n_positive n_negative : Z) : bool := {g['tp_degenerate']}.
(* threshold = ...      (t = threshold, s = scores[i]) *)
Definition tp_midpoint (t s : Q) : Q := {g['tp_midpoint']}.
(* actual_counts / flipped_counts   (c0 = count[0], c1 = count[1]) *)
Definition tp_actual (n_negative n_positive c0 c1 : Z) : cm :=
  {cmz(g['tp_actual'])}.
Definition tp_flipped (n_negative n_positive c0 c1 : Z) : cm :=
  {cmz(g['tp_flipped'])}.
(* operations when flip / when not flip *)
Definition tp_ops_flip : ops_src := {g['tp_ops_flip']}.
Definition tp_ops_noflip : ops_src := {g['tp_ops_noflip']}.
(* .sort_values(by=..., ascending=...) *)
Definition tp_sort_keys : list key_tag := {g['tp_sort_keys']}.
Definition tp_sort_ascending : bool := {g['tp_sort_ascending']}.

(* ---- _get_interpolation_indices ---- *)
Definition interp_side : side_tag := {g['interp_side']}.

(* ---- ThresholdOperation.__call__   (thr = self._threshold, y = y_hat) ---- *)
Definition op_gt (thr y : Q) : bool := {g['op_gt']}.
Definition op_lt (thr y : Q) : bool := {g['op_lt']}.
"""
    return {"Gen_threshopt.v": text}
