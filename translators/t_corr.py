"""t_corr: regenerate the pure expressions of CorrelationRemover.fit / .transform (C15) as FL.CorrExpr.ex trees.

The frame of the three methods (_split_X, fit, transform: validation calls, the feature-count guards, the
`X_use, X_sensitive = self._split_X(X)` statement) is matched statement by statement -- it is what justifies
reading the two names bound by the split as the model's (cols X use_idx, cols X s).  Everything after the split
is interpreted symbolically: local names and `self.<attr>` assignments are substituted, and the expressions
stored in self.sensitive_mean_ / self.beta_ and returned by transform are emitted as trees.  Local variables may
be renamed and `a.dot(b)`, `np.dot(a, b)`, `a @ b` are the same node; any other shape raises (fail closed)."""
import ast
from fractions import Fraction
from pathlib import Path

OUTPUTS = ["Gen_corr.v"]
SRC = "fairlearn/preprocessing/_correlation_remover.py"

SPLIT_BODY = [
    "sensitive = [self.lookup_[i] for i in self.sensitive_feature_ids]",
    "non_sensitive = [i for i in range(X.shape[1]) if i not in sensitive]",
    "return (X[:, non_sensitive], X[:, sensitive])",
]
FIT_PRE = [
    "first_call = not hasattr(self, '_n_features_in_')",
    "self._check_sensitive_features_in_X(X)",
    "self._create_lookup(X)",
    "X = validate_data(self, X)",
]
FIT_POST = ["self._n_features_in_ = X.shape[1]", "return self"]
TRANSFORM_PRE = [
    "check_is_fitted(self, ['beta_', '_n_features_in_', 'lookup_', 'sensitive_mean_'])",
    "X = validate_data(self, X)",
]
WIDTH_TEST = "self._n_features_in_ != X.shape[1]"


class Unsupported(ValueError):
    pass


def _body(fn):
    return [s for s in fn.body if not (isinstance(s, ast.Expr) and isinstance(s.value, ast.Constant)
                                       and isinstance(s.value.value, str))]


def _is_width_guard(st):
    """if self._n_features_in_ != X.shape[1]: raise ValueError(...)"""
    return (isinstance(st, ast.If) and ast.unparse(st.test) == WIDTH_TEST and not st.orelse
            and len(st.body) == 1 and isinstance(st.body[0], ast.Raise)
            and isinstance(st.body[0].exc, ast.Call) and ast.unparse(st.body[0].exc.func) == "ValueError")


def _expect(stmts, texts, where):
    if len(stmts) != len(texts):
        raise Unsupported(f"{where}: {len(stmts)} statements, expected {len(texts)}")
    for s, t in zip(stmts, texts):
        if ast.unparse(s) != t:
            raise Unsupported(f"{where} line {s.lineno}: {ast.unparse(s)[:90]!r}, expected {t!r}")


def _q(v):
    if isinstance(v, bool) or not isinstance(v, (int, float)):
        raise Unsupported(f"unsupported constant {v!r}")
    f = Fraction(v)
    return f"({f.numerator})" if f.denominator == 1 else f"({f.numerator} # {f.denominator})"


def _self_attr(node):
    if isinstance(node, ast.Attribute) and isinstance(node.value, ast.Name) and node.value.id == "self":
        return node.attr
    return None


class Interp:
    """symbolic values are Coq terms (strings) of type FL.CorrExpr.ex"""

    def __init__(self, where):
        self.where = where
        self.env = {}        # local name -> term
        self.attrs = {}      # self.<attr> assigned in this method -> term

    def bad(self, node, why):
        raise Unsupported(f"{self.where} line {getattr(node, 'lineno', '?')}: {why}: {ast.unparse(node)[:90]!r}")

    def expr(self, n):
        if isinstance(n, ast.Name):
            if n.id not in self.env:
                self.bad(n, "name is not a value derived from the split")
            return self.env[n.id]
        a = _self_attr(n)
        if a is not None:
            if a in self.attrs:
                return self.attrs[a]
            if a == "sensitive_mean_":
                return "SelfMean"
            if a == "beta_":
                return "SelfBeta"
            if a == "alpha":
                return "Alpha"
            self.bad(n, "unsupported attribute of self")
        if isinstance(n, ast.Constant):
            return f"(Const {_q(n.value)})"
        if isinstance(n, ast.BinOp):
            op = {ast.Sub: "Sub", ast.Add: "Add", ast.Mult: "Mul", ast.MatMult: "Dot"}.get(type(n.op))
            if op is None:
                self.bad(n, "unsupported operator")
            return f"({op} {self.expr(n.left)} {self.expr(n.right)})"
        if isinstance(n, ast.IfExp):
            t = n.test
            if not (isinstance(t, ast.Compare) and len(t.ops) == 1 and isinstance(t.ops[0], ast.Eq)
                    and isinstance(t.comparators[0], ast.Constant) and t.comparators[0].value == 0
                    and not isinstance(t.comparators[0].value, bool)
                    and isinstance(t.left, ast.Subscript) and isinstance(t.left.value, ast.Attribute)
                    and t.left.value.attr == "shape" and isinstance(t.left.slice, ast.Constant)
                    and t.left.slice.value == 1):
                self.bad(n, "conditional is not `<matrix>.shape[1] == 0`")
            return f"(IfNoCols {self.expr(t.left.value.value)} {self.expr(n.body)} {self.expr(n.orelse)})"
        if isinstance(n, ast.Call):
            f = ast.unparse(n.func)
            if isinstance(n.func, ast.Attribute) and n.func.attr == "mean" and f not in ("np.mean", "numpy.mean"):
                recv = self.expr(n.func.value)
                if not n.args and not n.keywords:
                    return f"(MeanAll {recv})"
                axis = None
                if len(n.args) == 1 and not n.keywords:
                    axis = n.args[0]
                elif not n.args and len(n.keywords) == 1 and n.keywords[0].arg == "axis":
                    axis = n.keywords[0].value
                if isinstance(axis, ast.Constant) and axis.value == 0 and not isinstance(axis.value, bool):
                    return f"(MeanAxis0 {recv})"
                self.bad(n, "mean() with arguments other than axis=0")
            if isinstance(n.func, ast.Attribute) and n.func.attr == "dot" and f not in ("np.dot", "numpy.dot"):
                if len(n.args) != 1 or n.keywords:
                    self.bad(n, "dot() call shape")
                return f"(Dot {self.expr(n.func.value)} {self.expr(n.args[0])})"
            if f in ("np.dot", "numpy.dot"):
                if len(n.args) != 2 or n.keywords:
                    self.bad(n, "np.dot call shape")
                return f"(Dot {self.expr(n.args[0])} {self.expr(n.args[1])})"
            if f in ("np.atleast_2d", "numpy.atleast_2d"):
                if len(n.args) != 1 or n.keywords:
                    self.bad(n, "atleast_2d call shape")
                return f"(Atleast2d {self.expr(n.args[0])})"
            if f in ("np.array", "numpy.array"):
                if len(n.args) == 1 and not n.keywords and isinstance(n.args[0], ast.List) and not n.args[0].elts:
                    return "EmptyRow"
                self.bad(n, "np.array of something other than []")
            self.bad(n, "unsupported call")
        self.bad(n, "unsupported expression")

    def lstsq(self, n):
        """np.linalg.lstsq(A, B, rcond=None): the call whose FIRST result is the coefficient array"""
        if not (isinstance(n, ast.Call) and ast.unparse(n.func) in ("np.linalg.lstsq", "numpy.linalg.lstsq")):
            self.bad(n, "not a np.linalg.lstsq call")
        args = list(n.args)
        rcond = None
        if len(args) == 3 and not n.keywords:
            rcond = args.pop()
        elif len(args) == 2 and len(n.keywords) == 1 and n.keywords[0].arg == "rcond":
            rcond = n.keywords[0].value
        if len(args) != 2 or not (isinstance(rcond, ast.Constant) and rcond.value is None):
            self.bad(n, "lstsq must be called as lstsq(A, B, rcond=None)")
        return f"(Lstsq {self.expr(args[0])} {self.expr(args[1])})"

    def split(self, st):
        if not (isinstance(st, ast.Assign) and len(st.targets) == 1 and isinstance(st.targets[0], ast.Tuple)
                and len(st.targets[0].elts) == 2 and all(isinstance(e, ast.Name) for e in st.targets[0].elts)
                and ast.unparse(st.value) == "self._split_X(X)"):
            self.bad(st, "expected `<use>, <sensitive> = self._split_X(X)`")
        use, sens = (e.id for e in st.targets[0].elts)
        if use == sens or "X" in (use, sens):
            self.bad(st, "split targets must be two fresh names")
        self.env[use] = "XUse"
        self.env[sens] = "XSens"

    def assign(self, st):
        if not (isinstance(st, ast.Assign) and len(st.targets) == 1):
            self.bad(st, "unsupported statement")
        tgt = st.targets[0]
        if isinstance(tgt, ast.Name):
            if tgt.id in ("X", "self"):
                self.bad(st, "rebinding of X / self after the split")
            self.env[tgt.id] = self.expr(st.value)
            return
        a = _self_attr(tgt)
        if a == "sensitive_mean_":
            self.attrs[a] = self.expr(st.value)
            return
        if a == "beta_":
            v = st.value          # self.beta_ = np.linalg.lstsq(...)[0]
            if not (isinstance(v, ast.Subscript) and isinstance(v.slice, ast.Constant) and v.slice.value == 0
                    and not isinstance(v.slice.value, bool)):
                self.bad(st, "beta_ must be the first result of lstsq")
            self.attrs[a] = self.lstsq(v.value)
            return
        if isinstance(tgt, ast.Tuple) and tgt.elts and _self_attr(tgt.elts[0]) == "beta_" \
                and len(tgt.elts) == 4 and all(isinstance(e, ast.Name) and e.id == "_" for e in tgt.elts[1:]):
            self.attrs["beta_"] = self.lstsq(st.value)      # self.beta_, _, _, _ = np.linalg.lstsq(...)
            return
        self.bad(st, "unsupported assignment target")


def translate(repo: Path):
    tree = ast.parse((Path(repo) / SRC).read_text())
    cls = next((n for n in tree.body if isinstance(n, ast.ClassDef) and n.name == "CorrelationRemover"), None)
    if cls is None:
        raise Unsupported("class CorrelationRemover not found")
    if "TransformerMixin" not in [ast.unparse(b) for b in cls.bases]:
        raise Unsupported("CorrelationRemover does not inherit fit_transform from TransformerMixin")
    meths = {n.name: n for n in cls.body if isinstance(n, ast.FunctionDef)}
    for forbidden in ("fit_transform", "__getattr__", "__getattribute__", "__setattr__"):
        if forbidden in meths:
            raise Unsupported(f"CorrelationRemover defines {forbidden} itself")
    for name, params in (("_split_X", ["self", "X"]), ("fit", ["self", "X", "y"]), ("transform", ["self", "X"])):
        if name not in meths:
            raise Unsupported(f"method {name} not found")
        fn = meths[name]
        if [a.arg for a in fn.args.args] != params or fn.args.vararg or fn.args.kwarg or fn.args.kwonlyargs \
                or fn.decorator_list:
            raise Unsupported(f"{name}: unexpected signature")
    _expect(_body(meths["_split_X"]), SPLIT_BODY, "_split_X")

    # ---- fit
    fb = _body(meths["fit"])
    npre = len(FIT_PRE)
    _expect(fb[:npre], FIT_PRE, "fit (validation frame)")
    if len(fb) < npre + 2 + len(FIT_POST):
        raise Unsupported("fit: too few statements")
    guard = fb[npre]
    if not (isinstance(guard, ast.If) and ast.unparse(guard.test) == "not first_call" and not guard.orelse
            and len(guard.body) == 1 and _is_width_guard(guard.body[0])):
        raise Unsupported("fit: expected the `if not first_call:` feature-count guard")
    I = Interp("fit")
    I.split(fb[npre + 1])
    for st in fb[npre + 2:len(fb) - len(FIT_POST)]:
        I.assign(st)
    _expect(fb[len(fb) - len(FIT_POST):], FIT_POST, "fit (tail)")
    if set(I.attrs) != {"sensitive_mean_", "beta_"}:
        raise Unsupported(f"fit assigns {sorted(I.attrs)}, expected sensitive_mean_ and beta_")

    # ---- transform
    tb = _body(meths["transform"])
    npre = len(TRANSFORM_PRE)
    _expect(tb[:npre], TRANSFORM_PRE, "transform (validation frame)")
    if len(tb) < npre + 3 or not _is_width_guard(tb[npre]):
        raise Unsupported("transform: expected the feature-count guard")
    T = Interp("transform")
    T.split(tb[npre + 1])
    for st in tb[npre + 2:-1]:
        T.assign(st)
    if T.attrs:
        raise Unsupported("transform assigns to self")
    if not isinstance(tb[-1], ast.Return) or tb[-1].value is None:
        raise Unsupported("transform does not end in `return <expression>`")
    ret = T.expr(tb[-1].value)

    text = ("(* GENERATED by translators/t_corr.py from " + SRC + " -- do not edit *)\n"
            "From Coq Require Import QArith.\nFrom FL Require Import CorrExpr.\nOpen Scope Q_scope.\n"
            "(* fit: self.sensitive_mean_ *)\n"
            f"Definition fit_mean_ex : ex :=\n  {I.attrs['sensitive_mean_']}.\n"
            "(* fit: self.beta_ (first result of np.linalg.lstsq(..., rcond=None)) *)\n"
            f"Definition fit_beta_ex : ex :=\n  {I.attrs['beta_']}.\n"
            "(* transform: the returned expression *)\n"
            f"Definition transform_return_ex : ex :=\n  {ret}.\n")
    return {"Gen_corr.v": text}
