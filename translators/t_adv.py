"""t_adv: regenerate the per-tensor update term of train_step of BOTH adversarial engines (C16).

The frame of train_step (forward passes, backward passes / tape gradients, zero_grad calls, optimiser
steps) is matched statement by statement against the shape this translator understands -- it is what
justifies reading dW_LP[i] as dLP/dW, dW_LA[i] as dLA/dW and the adversary's gradient as dLA/dU.  The
statements of the per-tensor loop (normalise / project / combine) are parsed into a term of
FL.AdvUpdate.tx.  Anything else raises (fail closed)."""
import ast
from pathlib import Path

OUTPUTS = ["Gen_adv.v"]
TORCH_SRC = "fairlearn/adversarial/_pytorch_engine.py"
TF_SRC = "fairlearn/adversarial/_tensorflow_engine.py"

# ---- expected frames (ast.unparse of every statement outside the per-tensor loop) -------------------
TORCH_PRE = [
    "self.predictor_model.train()",
    "self.adversary_model.train()",
    "self.predictor_optimizer.zero_grad()",
    "self.adversary_optimizer.zero_grad()",
    "Y_hat = self.predictor_model(X)",
    "LP = self.predictor_loss(Y_hat, Y)",
    "LP.backward(retain_graph=True)",
    "dW_LP = [torch.clone(p.grad.detach()) for p in self.predictor_model.parameters()]",
    "self.predictor_optimizer.zero_grad()",
    "self.adversary_optimizer.zero_grad()",
    "if self.base.pass_y_:\n    Y_hat = torch.cat((Y_hat, Y), dim=1)",
    "A_hat = self.adversary_model(Y_hat)",
    "LA = self.adversary_loss(A_hat, A)",
    "LA.backward()",
    "dW_LA = [torch.clone(p.grad.detach()) for p in self.predictor_model.parameters()]",
]
TORCH_LOOP_HEAD = ("(i, p)", "enumerate(self.predictor_model.parameters())")
TORCH_POST = [
    "self.predictor_optimizer.step()",
    "self.adversary_optimizer.step()",
    "return (LP.item(), LA.item())",
]
TF_WITH = [
    "Y_hat = self.predictor_model(X, training=True)",
    "LP = self.predictor_loss(Y, Y_hat)",
    "if self.base.pass_y_:\n    Y_hat = tensorflow.concat((Y_hat, Y), axis=1)",
    "A_hat = self.adversary_model(Y_hat)",
    "LA = self.adversary_loss(A, A_hat)",
]
TF_MID = [
    "dW_LP = tape.gradient(LP, self.predictor_model.trainable_variables)",
    "dU_LA = tape.gradient(LA, self.adversary_model.trainable_variables)",
    "dW_LA = tape.gradient(LA, self.predictor_model.trainable_variables)",
    "del tape",
]
TF_LOOP_HEAD = ("i", "range(len(dW_LP))")
TF_POST = [
    "self.predictor_optimizer.apply_gradients(zip(dW_LP, self.predictor_model.trainable_variables))",
    "self.adversary_optimizer.apply_gradients(zip(dU_LA, self.adversary_model.trainable_variables))",
    "return (LP.numpy().item(), LA.numpy().item())",
]


class Unsupported(ValueError):
    pass


def _nodoc(body):
    return [s for s in body if not (isinstance(s, ast.Expr) and isinstance(s.value, ast.Constant)
                                    and isinstance(s.value.value, str))]


def _expect(stmts, want, where):
    got = [ast.unparse(s) for s in stmts]
    if got != want:
        for k, (g, w) in enumerate(zip(got, want)):
            if g != w:
                raise Unsupported(f"{where}: statement {k} is {g!r}, expected {w!r}")
        raise Unsupported(f"{where}: {len(got)} statements, expected {len(want)}")


def _train_step(path, cls):
    tree = ast.parse(Path(path).read_text())
    c = next((n for n in tree.body if isinstance(n, ast.ClassDef) and n.name == cls), None)
    if c is None:
        raise Unsupported(f"class {cls} not found")
    fns = [n for n in c.body if isinstance(n, ast.FunctionDef) and n.name == "train_step"]
    if len(fns) != 1:
        raise Unsupported(f"{cls}.train_step not found exactly once")
    fn = fns[0]
    if [a.arg for a in fn.args.args] != ["self", "X", "Y", "A"] or fn.args.vararg or fn.args.kwarg \
            or fn.args.kwonlyargs or fn.decorator_list:
        raise Unsupported(f"{cls}.train_step: unexpected signature")
    return tree, _nodoc(fn.body)


# ---- expression parser ---------------------------------------------------------------------------
class Parser:
    """Sorted terms: ('T', coq) tensor, ('S', coq) scalar."""

    def __init__(self, fw, loopvar, finfo_names):
        self.fw = fw                # 'torch' | 'tensorflow'
        self.i = loopvar
        self.env = {}
        self.finfo_names = finfo_names   # bare names bound to numpy's finfo / float32 / float64

    def _dotted(self, node):
        parts = []
        while isinstance(node, ast.Attribute):
            parts.append(node.attr)
            node = node.value
        if isinstance(node, ast.Name):
            parts.append(node.id)
            return ".".join(reversed(parts))
        return None

    def _grad_var(self, node):
        """dW_LP[i] / dW_LA[i] with i the loop variable"""
        if isinstance(node, ast.Subscript) and isinstance(node.value, ast.Name) \
                and isinstance(node.slice, ast.Name) and node.slice.id == self.i:
            if node.value.id == "dW_LP":
                return "GP"
            if node.value.id == "dW_LA":
                return "GA"
        return None

    def _tiny(self, node):
        """<finfo>(<dtype>).tiny -> wide?  (fail closed on unknown dtypes)"""
        if not (isinstance(node, ast.Attribute) and node.attr == "tiny" and isinstance(node.value, ast.Call)):
            return None
        call = node.value
        if call.keywords or len(call.args) != 1:
            raise Unsupported(f"finfo call with unexpected arguments: {ast.unparse(call)}")
        fname = self._dotted(call.func)
        ok_f = {"torch.finfo"} if self.fw == "torch" else ({"finfo"} & self.finfo_names)
        if fname not in ok_f:
            raise Unsupported(f"unrecognised finfo function {fname!r}")
        arg = call.args[0]
        # dtype of the adversary-gradient tensor itself
        if isinstance(arg, ast.Attribute) and arg.attr == "dtype" and self._grad_var(arg.value) in ("GA", "GP"):
            return False
        d = self._dotted(arg)
        narrow = {"torch.float32", "torch.float", "tensorflow.float32", "numpy.float32", "np.float32"}
        wide = {"float", "torch.float64", "torch.double", "tensorflow.float64", "numpy.float64", "np.float64"}
        if d == "float32" and "float32" in self.finfo_names:
            return False
        if d == "float64" and "float64" in self.finfo_names:
            return True
        if d in narrow:
            return False
        if d in wide:      # python float is float64: its tiny vanishes next to any float32 number
            return True
        raise Unsupported(f"unrecognised dtype in {ast.unparse(node)}")

    def expr(self, node):
        gv = self._grad_var(node)
        if gv:
            return ("T", f"(Var {gv})")
        if isinstance(node, ast.Name):
            if node.id in self.env:
                return self.env[node.id]
            raise Unsupported(f"unknown name {node.id!r} at line {node.lineno}")
        if isinstance(node, ast.Attribute):
            if ast.unparse(node) == "self.base.alpha":
                return ("S", "SAlpha")
            w = self._tiny(node)
            if w is not None:
                return ("S", f"(STiny {'true' if w else 'false'})")
            raise Unsupported(f"unrecognised attribute {ast.unparse(node)!r} at line {node.lineno}")
        if isinstance(node, ast.BinOp):
            a, b = self.expr(node.left), self.expr(node.right)
            if isinstance(node.op, ast.Sub) and a[0] == b[0] == "T":
                return ("T", f"(Sub {a[1]} {b[1]})")
            if isinstance(node.op, ast.Add) and a[0] == b[0] == "S":
                return ("S", f"(SAdd {a[1]} {b[1]})")
            if isinstance(node.op, ast.Div) and a[0] == "T" and b[0] == "S":
                return ("T", f"(Div {a[1]} {b[1]})")
            if isinstance(node.op, ast.Mult):
                if a[0] == b[0] == "T":
                    return ("T", f"(Mul {a[1]} {b[1]})")
                if a[0] == "S" and b[0] == "T":
                    return ("T", f"(Scale {a[1]} {b[1]})")
                if a[0] == "T" and b[0] == "S":
                    return ("T", f"(Scale {b[1]} {a[1]})")
            raise Unsupported(f"unsupported operation {ast.unparse(node)!r} at line {node.lineno}")
        if isinstance(node, ast.Call):
            f = self._dotted(node.func)
            if node.keywords:
                raise Unsupported(f"keyword arguments in {ast.unparse(node)!r}")
            args = [self.expr(a) for a in node.args]
            sorts = [a[0] for a in args]
            un = {"torch": {"torch.norm": "SNorm", "torch.linalg.norm": "SNorm", "torch.sum": "SSum"},
                  "tensorflow": {"tensorflow.norm": "SNorm", "tensorflow.reduce_sum": "SSum",
                                 "tensorflow.math.reduce_sum": "SSum"}}[self.fw]
            bi = {"torch": {"torch.mul": "Mul", "torch.multiply": "Mul", "torch.inner": "Inner",
                            "torch.sub": "Sub", "torch.subtract": "Sub"},
                  "tensorflow": {"tensorflow.multiply": "Mul", "tensorflow.math.multiply": "Mul",
                                 "tensorflow.subtract": "Sub", "tensorflow.math.subtract": "Sub"}}[self.fw]
            if f in un and sorts == ["T"]:
                return ("S", f"({un[f]} {args[0][1]})")
            if f in bi and sorts == ["T", "T"]:
                return ("T", f"({bi[f]} {args[0][1]} {args[1][1]})")
            raise Unsupported(f"unsupported call {ast.unparse(node)!r} at line {node.lineno}")
        raise Unsupported(f"unsupported expression {ast.unparse(node)!r} at line {getattr(node, 'lineno', '?')}")


def _loop_term(loop, fw, head, target_src, finfo_names):
    if not isinstance(loop, ast.For) or loop.orelse:
        raise Unsupported(f"{fw}: per-tensor loop not found where expected")
    if (ast.unparse(loop.target), ast.unparse(loop.iter)) != head:
        raise Unsupported(f"{fw}: loop header is 'for {ast.unparse(loop.target)} in {ast.unparse(loop.iter)}', "
                          f"expected 'for {head[0]} in {head[1]}'")
    P = Parser(fw, "i", finfo_names)
    body = _nodoc(loop.body)
    if not body:
        raise Unsupported(f"{fw}: empty loop")
    for st in body[:-1]:
        if not (isinstance(st, ast.Assign) and len(st.targets) == 1 and isinstance(st.targets[0], ast.Name)):
            raise Unsupported(f"{fw}: unsupported loop statement {ast.unparse(st)!r}")
        name = st.targets[0].id
        if name in ("dW_LP", "dW_LA", "dU_LA", "i", "p", "self", "torch", "tensorflow") or name in P.env:
            raise Unsupported(f"{fw}: assignment to {name!r} inside the loop")
        P.env[name] = P.expr(st.value)
    last = body[-1]
    if not (isinstance(last, ast.Assign) and len(last.targets) == 1 and ast.unparse(last.targets[0]) == target_src):
        raise Unsupported(f"{fw}: last loop statement is {ast.unparse(last)!r}, expected an assignment to {target_src}")
    sort, term = P.expr(last.value)
    if sort != "T":
        raise Unsupported(f"{fw}: the assigned gradient is not a tensor expression")
    return term


def _torch(repo):
    tree, body = _train_step(Path(repo) / TORCH_SRC, "PytorchEngine")
    npre, npost = len(TORCH_PRE), len(TORCH_POST)
    if len(body) != npre + 1 + npost:
        raise Unsupported(f"torch train_step: {len(body)} statements, expected {npre + 1 + npost}")
    _expect(body[:npre], TORCH_PRE, "torch train_step (before the loop)")
    _expect(body[npre + 1:], TORCH_POST, "torch train_step (after the loop)")
    # module-level `torch = None` + `global torch; import torch` in __init__: the name torch is the torch module
    src = (Path(repo) / TORCH_SRC).read_text()
    if "import torch\n" not in src:
        raise Unsupported("torch engine does not import torch")
    for n in ast.walk(tree):
        if isinstance(n, (ast.Import, ast.ImportFrom)):
            for a in n.names:
                if (a.asname or a.name) in ("finfo", "float32", "float64", "float"):
                    raise Unsupported("torch engine rebinds finfo / float names")
    return _loop_term(body[npre], "torch", TORCH_LOOP_HEAD, "p.grad", set())


def _tf(repo):
    tree, body = _train_step(Path(repo) / TF_SRC, "TensorflowEngine")
    if len(body) != 1 + len(TF_MID) + 1 + len(TF_POST):
        raise Unsupported(f"tensorflow train_step: {len(body)} statements")
    w = body[0]
    if not (isinstance(w, ast.With) and len(w.items) == 1
            and ast.unparse(w.items[0]) == "tensorflow.GradientTape(persistent=True) as tape"):
        raise Unsupported("tensorflow train_step: first statement is not the persistent GradientTape block")
    _expect(_nodoc(w.body), TF_WITH, "tensorflow train_step (tape block)")
    _expect(body[1:1 + len(TF_MID)], TF_MID, "tensorflow train_step (gradients)")
    _expect(body[2 + len(TF_MID):], TF_POST, "tensorflow train_step (after the loop)")
    names = set()
    for n in tree.body:
        if isinstance(n, ast.ImportFrom) and n.module == "numpy" and n.level == 0:
            for a in n.names:
                if a.asname is None and a.name in ("finfo", "float32", "float64"):
                    names.add(a.name)
        elif isinstance(n, (ast.Import, ast.ImportFrom)):
            for a in n.names:
                if (a.asname or a.name) in ("finfo", "float32", "float64", "float"):
                    raise Unsupported("tensorflow engine binds finfo / float names from an unexpected module")
    return _loop_term(body[1 + len(TF_MID)], "tensorflow", TF_LOOP_HEAD, "dW_LP[i]", names)


def terms(repo):
    """(torch_term, tf_term) as Gallina text; raises Unsupported."""
    return _torch(repo), _tf(repo)


def translate(repo: Path):
    torch_term, tf_term = terms(repo)
    text = ("(* GENERATED by translators/t_adv.py from " + TORCH_SRC + " and " + TF_SRC + " -- do not edit *)\n"
            "From FL Require Import AdvUpdate.\n"
            "(* p.grad of predictor tensor i, in terms of GP = dLP/dW_i and GA = dLA/dW_i *)\n"
            f"Definition torch_term : tx :=\n  {torch_term}.\n"
            "(* the adversary's p.grad is left as LA.backward() wrote it (GA = dLA/dU_i) *)\n"
            "Definition torch_adv_term : tx := (Var GA).\n"
            "(* dW_LP[i] handed to predictor_optimizer.apply_gradients *)\n"
            f"Definition tf_term : tx :=\n  {tf_term}.\n"
            "(* dU_LA[i] = tape.gradient(LA, adversary variables) handed to adversary_optimizer.apply_gradients *)\n"
            "Definition tf_adv_term : tx := (Var GA).\n")
    return {"Gen_adv.v": text}
