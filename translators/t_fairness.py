"""t_fairness: regenerate the composition of the named fairness metrics (_fairness_metrics.py), the keyword
dispatcher and transform chain of _DerivedMetric.__call__ (_make_derived_metric.py) and METRICS_SPEC
(_generated_metrics.py) as Gallina terms over the primitives of FL.Fairness (C03).  Fail closed."""
import ast
import re
from pathlib import Path

OUTPUTS = ["Gen_fairness.v"]
SRC_F = "fairlearn/metrics/_fairness_metrics.py"
SRC_D = "fairlearn/metrics/_make_derived_metric.py"
SRC_G = "fairlearn/metrics/_generated_metrics.py"

BASE = {"selection_rate": "BSel", "true_positive_rate": "BTpr", "true_negative_rate": "BTnr",
        "false_positive_rate": "BFpr", "false_negative_rate": "BFnr"}
TRANSFORM = {"difference": "TDiff", "ratio": "TRatio", "group_min": "TMin", "group_max": "TMax"}
ID = r"[A-Za-z_][A-Za-z_0-9]*"
FRAME_ARGS = "y_true=y_true, y_pred=y_pred, sensitive_features=sensitive_features"


def _gname(s):
    return "[" + "; ".join(str(ord(c)) for c in s) + "]%Z"


def _body(fn):
    b = list(fn.body)
    if b and isinstance(b[0], ast.Expr) and isinstance(b[0].value, ast.Constant) and isinstance(b[0].value.value, str):
        b = b[1:]
    return [ast.unparse(s) for s in b]


def _func(tree, name):
    fs = [n for n in tree.body if isinstance(n, ast.FunctionDef) and n.name == name]
    if len(fs) != 1:
        raise ValueError(f"{name}: expected exactly one definition")
    return fs[0]


def _check_sig(fn, kwonly, defaults):
    a = fn.args
    if [x.arg for x in a.args] != ["y_true", "y_pred"] or a.vararg or a.kwarg or a.posonlyargs or a.defaults:
        raise ValueError(f"{fn.name}: unexpected positional signature")
    if [x.arg for x in a.kwonlyargs] != kwonly:
        raise ValueError(f"{fn.name}: keyword-only arguments are {[x.arg for x in a.kwonlyargs]}, expected {kwonly}")
    got = [None if d is None else ast.unparse(d) for d in a.kw_defaults]
    if got != defaults:
        raise ValueError(f"{fn.name}: keyword defaults are {got}, expected {defaults}")


def _simple(tree, name):
    fn = _func(tree, name)
    _check_sig(fn, ["sensitive_features", "method", "sample_weight"], [None, "'between_groups'", "None"])
    b = _body(fn)
    if len(b) != 3:
        raise ValueError(f"{name}: expected 3 statements, found {len(b)}")
    m = re.fullmatch(rf"({ID}) = MetricFrame\(metrics=({ID}), {FRAME_ARGS}, "
                     r"sample_params=\{'sample_weight': sample_weight\}\)", b[0])
    if not m:
        raise ValueError(f"{name}: unrecognised frame construction: {b[0]}")
    var, base = m.group(1), m.group(2)
    m2 = re.fullmatch(rf"({ID}) = {var}\.({ID})\(method=method\)", b[1])
    if not m2:
        raise ValueError(f"{name}: unrecognised transform call: {b[1]}")
    if b[2] != f"return {m2.group(1)}":
        raise ValueError(f"{name}: unrecognised return: {b[2]}")
    if base not in BASE:
        raise ValueError(f"{name}: base metric {base} has no model")
    if m2.group(2) not in ("difference", "ratio"):
        raise ValueError(f"{name}: transform {m2.group(2)} not recognised")
    return (f"Definition {name} (m : method) (y_true y_pred sensitive_features : list Z) "
            f"(sample_weight : option (list Q)) : option ext :=\n"
            f"  option_map (apply_transform {TRANSFORM[m2.group(2)]} m) "
            f"(metric_frame {BASE[base]} y_true y_pred sensitive_features sample_weight).\n")


def _eo_frame(tree):
    fn = _func(tree, "_get_eo_frame")
    a = fn.args
    if [x.arg for x in a.args] != ["y_true", "y_pred", "sensitive_features", "sample_weight"] or a.kwonlyargs \
            or a.vararg or a.kwarg or a.defaults:
        raise ValueError("_get_eo_frame: unexpected signature")
    b = _body(fn)
    if len(b) != 5:
        raise ValueError(f"_get_eo_frame: expected 5 statements, found {len(b)}")
    m = re.fullmatch(rf"fns = \{{'({ID})': ({ID}), '({ID})': ({ID})\}}", b[0])
    if not m:
        raise ValueError(f"_get_eo_frame: unrecognised metric dictionary: {b[0]}")
    k1, b1, k2, b2 = m.groups()
    if k1 == k2:
        raise ValueError("_get_eo_frame: duplicate column name")
    if b[1] != "sw_dict = {'sample_weight': sample_weight}":
        raise ValueError(f"_get_eo_frame: unrecognised weights dictionary: {b[1]}")
    if b[2] != f"sp = {{'{k1}': sw_dict, '{k2}': sw_dict}}":
        raise ValueError(f"_get_eo_frame: unrecognised sample_params: {b[2]}")
    if b[3] != f"eo = MetricFrame(metrics=fns, {FRAME_ARGS}, sample_params=sp)" or b[4] != "return eo":
        raise ValueError(f"_get_eo_frame: unrecognised frame construction: {b[3]}; {b[4]}")
    for x in (b1, b2):
        if x not in BASE:
            raise ValueError(f"_get_eo_frame: base metric {x} has no model")
    return BASE[b1], BASE[b2]


def _eo(tree, name, cols):
    fn = _func(tree, name)
    _check_sig(fn, ["sensitive_features", "method", "sample_weight", "agg"],
               [None, "'between_groups'", "None", "'worst_case'"])
    b = _body(fn)
    if len(b) != 3:
        raise ValueError(f"{name}: expected 3 statements, found {len(b)}")
    if not re.fullmatch(r"if agg not in \['worst_case', 'mean'\]:\n    raise ValueError\(.*\)", b[0], re.S):
        raise ValueError(f"{name}: unrecognised agg validation: {b[0]}")
    if b[1] != "eo = _get_eo_frame(y_true, y_pred, sensitive_features, sample_weight)":
        raise ValueError(f"{name}: unrecognised frame call: {b[1]}")
    m = re.fullmatch(rf"if agg == 'worst_case':\n    return (max|min)\(eo\.({ID})\(method=method\)\)\n"
                     rf"else:\n    return eo\.({ID})\(method=method\)\.mean\(\)", b[2])
    if not m or m.group(2) != m.group(3) or m.group(2) not in ("difference", "ratio"):
        raise ValueError(f"{name}: unrecognised aggregation: {b[2]}")
    red = {"max": "py_max", "min": "py_min"}[m.group(1)]
    t = TRANSFORM[m.group(2)]
    return (f"Definition {name} (m : method) (a : agg) (y_true y_pred sensitive_features : list Z) "
            f"(sample_weight : option (list Q)) : option ext :=\n"
            f"  match metric_frame {cols[0]} y_true y_pred sensitive_features sample_weight,\n"
            f"        metric_frame {cols[1]} y_true y_pred sensitive_features sample_weight with\n"
            f"  | Some f1, Some f2 =>\n"
            f"      let s := [apply_transform {t} m f1; apply_transform {t} m f2] in\n"
            f"      match a with WorstCase => {red} s | Mean => Some (series_mean s) end\n"
            f"  | _, _ => None\n  end.\n")


def _derived(tree):
    # module constant parameters_for_transforms
    pft = None
    for n in tree.body:
        if isinstance(n, ast.Assign) and len(n.targets) == 1 and isinstance(n.targets[0], ast.Name) \
                and n.targets[0].id == "parameters_for_transforms":
            pft = ast.literal_eval(n.value)
    if not isinstance(pft, list) or not all(isinstance(x, str) for x in pft):
        raise ValueError("parameters_for_transforms: not a list of strings")
    cls = next((n for n in tree.body if isinstance(n, ast.ClassDef) and n.name == "_DerivedMetric"), None)
    if cls is None:
        raise ValueError("class _DerivedMetric not found")
    call = next((n for n in cls.body if isinstance(n, ast.FunctionDef) and n.name == "__call__"), None)
    if call is None:
        raise ValueError("_DerivedMetric.__call__ not found")
    a = call.args
    if [x.arg for x in a.args] != ["self", "y_true", "y_pred"] or [x.arg for x in a.kwonlyargs] != ["sensitive_features"] \
            or a.kwarg is None or a.kwarg.arg != "other_params" or a.vararg:
        raise ValueError("_DerivedMetric.__call__: unexpected signature")
    body = [s for s in call.body if not (isinstance(s, ast.Expr) and isinstance(s.value, ast.Constant))]
    src = [ast.unparse(s) for s in body]
    dicts = {"sample_params": "KSample", "transform_parameters": "KTransform", "params": "KBound"}
    inits = sorted(src[:3])
    if inits != sorted(f"{d} = dict()" for d in dicts):
        raise ValueError(f"__call__: unrecognised dictionary initialisation: {src[:3]}")
    loop = body[3]
    if not (isinstance(loop, ast.For) and ast.unparse(loop.target) == "(k, v)"
            and ast.unparse(loop.iter) == "other_params.items()" and not loop.orelse and len(loop.body) == 1
            and isinstance(loop.body[0], ast.If)):
        raise ValueError("__call__: unrecognised keyword loop")

    def chain(node):
        if isinstance(node, ast.If):
            test = ast.unparse(node.test)
            if test == "k in self._sample_param_names":
                cond = "existsb (name_eqb k) sample_names"
            elif test == "k in parameters_for_transforms":
                cond = "existsb (name_eqb k) parameters_for_transforms"
            else:
                raise ValueError(f"__call__: unrecognised keyword test: {test}")
            if len(node.body) != 1:
                raise ValueError("__call__: unrecognised keyword branch")
            then = chain(node.body[0])
            if len(node.orelse) != 1:
                raise ValueError("__call__: keyword chain without a final else")
            return f"(if {cond} then {then} else {chain(node.orelse[0])})"
        s = ast.unparse(node)
        m = re.fullmatch(rf"({ID})\[k\] = v", s)
        if not m or m.group(1) not in dicts:
            raise ValueError(f"__call__: unrecognised keyword assignment: {s}")
        return dicts[m.group(1)]
    classify = chain(loop.body[0])
    rest = src[4:]
    need = ["dispatch_fn = functools.partial(self._metric_fn, **params)",
            f"all_metrics = MetricFrame(metrics=dispatch_fn, {FRAME_ARGS}, sample_params=sample_params)",
            "return result"]
    for s in need:
        if s not in rest:
            raise ValueError(f"__call__: expected statement not found: {s}")
    if rest[-1] != "return result":
        raise ValueError("__call__: does not end with `return result`")
    tchain = body[4 + rest.index(need[1]) + 1]
    if not isinstance(tchain, ast.If) or 4 + rest.index(need[1]) + 2 != len(body) - 1:
        raise ValueError("__call__: unrecognised statements after the frame construction")

    def tch(node):
        if len(node) != 1:
            raise ValueError("__call__: unrecognised transform chain")
        node = node[0]
        if isinstance(node, ast.Raise):
            return "None"
        if not isinstance(node, ast.If):
            raise ValueError("__call__: unrecognised transform chain")
        m = re.fullmatch(r"self\._transform == '([a-z_]+)'", ast.unparse(node.test))
        if not m or len(node.body) != 1:
            raise ValueError(f"__call__: unrecognised transform test: {ast.unparse(node.test)}")
        m2 = re.fullmatch(rf"result = all_metrics\.({ID})\((\*\*transform_parameters)?\)", ast.unparse(node.body[0]))
        if not m2 or m2.group(1) not in TRANSFORM:
            raise ValueError(f"__call__: unrecognised transform call: {ast.unparse(node.body[0])}")
        takes = "true" if m2.group(2) else "false"
        return (f"(if name_eqb s {_gname(m.group(1))} then Some ({TRANSFORM[m2.group(1)]}, {takes}) "
                f"else {tch(node.orelse)})")
    transform_of = tch([tchain])
    return pft, classify, transform_of


def _spec(tree):
    spec = None
    for n in tree.body:
        if isinstance(n, ast.Assign) and len(n.targets) == 1 and isinstance(n.targets[0], ast.Name) \
                and n.targets[0].id == "METRICS_SPEC":
            spec = n.value
    if not isinstance(spec, ast.List):
        raise ValueError("METRICS_SPEC not found")
    out = []
    for e in spec.elts:
        if not (isinstance(e, ast.Tuple) and len(e.elts) == 2):
            raise ValueError("METRICS_SPEC: entry is not a pair")
        base = ast.unparse(e.elts[0])
        base = base[4:] if base.startswith("skm.") else base
        variants = ast.literal_eval(e.elts[1])
        if not re.fullmatch(ID, base) or not all(v in TRANSFORM for v in variants):
            raise ValueError(f"METRICS_SPEC: unrecognised entry {ast.unparse(e)}")
        out.append((base, variants))
    loop = [n for n in tree.body if isinstance(n, ast.For)]
    if len(loop) != 1:
        raise ValueError("_generated_metrics: expected one loop over METRICS_SPEC")
    s = ast.unparse(loop[0])
    for needle in ("for base_metric, variants in METRICS_SPEC:", "for variant in variants:",
                   "name = '{0}_{1}'.format(base_metric.__name__, variant)",
                   "fn = make_derived_metric(metric=base_metric, transform=variant, "
                   "sample_param_names=['sample_weight'])",
                   "_generated_metric_dict[name] = fn"):
        if needle not in s:
            raise ValueError(f"_generated_metrics: expected statement not found: {needle}")
    return out


def translate(repo: Path):
    repo = Path(repo)
    tf = ast.parse((repo / SRC_F).read_text())
    td = ast.parse((repo / SRC_D).read_text())
    tg = ast.parse((repo / SRC_G).read_text())
    parts = ["(* GENERATED by translators/t_fairness.py from " + ", ".join([SRC_F, SRC_D, SRC_G]) + " -- do not edit *)\n"
             "From Coq Require Import QArith ZArith List Bool.\n"
             "From FL Require Import Num BaseRates Aggregates Fairness.\nImport ListNotations.\n"]
    for name in ("demographic_parity_difference", "demographic_parity_ratio",
                 "equal_opportunity_difference", "equal_opportunity_ratio"):
        parts.append(_simple(tf, name))
    cols = _eo_frame(tf)
    for name in ("equalized_odds_difference", "equalized_odds_ratio"):
        parts.append(_eo(tf, name, cols))
    pft, classify, transform_of = _derived(td)
    parts.append("Definition parameters_for_transforms : list name := [" + "; ".join(_gname(x) for x in pft) + "].\n")
    parts.append("Definition classify (sample_names : list name) (k : name) : kwclass :=\n  " + classify + ".\n")
    parts.append("Definition transform_of (s : name) : option (transform * bool) :=\n  " + transform_of + ".\n")
    spec = _spec(tg)
    parts.append("Definition metrics_spec : list (name * list transform) :=\n  [" + ";\n   ".join(
        f"({_gname(b)}, [{'; '.join(TRANSFORM[v] for v in vs)}])" for b, vs in spec) + "].\n")
    parts.append("Definition generated_sample_param_names : list name := [" + _gname("sample_weight") + "].\n")
    return {"Gen_fairness.v": "".join(parts)}
