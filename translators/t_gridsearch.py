"""t_gridsearch: regenerate the arithmetic kernels of GridSearch.fit (C09) and check the rest of the
fit loop / predict literally.

Generated (Gen_gridsearch.v):
  weights_entry c o          <- `weights = weights + objective.signed_weights()`   (c = constraint weight, o = objective weight)
  relabel_entry weights      <- `y_reduction = 1 * (weights > 0)`
  reweight_entry weights     <- `weights = weights.abs()`
  objective_weight cw        <- `self.objective_weight = 1.0 - constraint_weight`   (__init__)
  loss cw objective gammas   <- the return expression of loss_fct
  best_idx losses            <- `self.best_idx_ = losses.index(min(losses))`
Everything else in fit (order of the statements, which estimator is trained on what, that objectives_ /
gammas_ / predictors_ are recorded from the estimator just trained, the DummyClassifier branch, the loop
over grid.columns, the list of losses) and predict / predict_proba is compared LITERALLY (after removing
logger.debug calls and docstrings) with the text the model GridSearch.v was written from.  Any other
shape raises (fail closed)."""
import ast
from pathlib import Path

OUTPUTS = ["Gen_gridsearch.v"]
SRC = "fairlearn/reductions/_grid_search/grid_search.py"


class Shape(ValueError):
    pass


# ---------------------------------------------------------------------------------------------
# expressions
# ---------------------------------------------------------------------------------------------
BIN = {ast.Add: "+", ast.Sub: "-", ast.Mult: "*"}
# python `a OP b` on numbers -> Coq boolean over Q
CMP = {ast.Gt: lambda a, b: f"(Qltb {b} {a})", ast.GtE: lambda a, b: f"(Qleb {b} {a})",
       ast.Lt: lambda a, b: f"(Qltb {a} {b})", ast.LtE: lambda a, b: f"(Qleb {a} {b})"}


def _const(e):
    if isinstance(e, ast.Constant) and type(e.value) in (int, float) and float(e.value) == int(e.value) \
            and 0 <= int(e.value) < 1000:
        return str(int(e.value))
    return None


def _is_one(e):
    return isinstance(e, ast.Constant) and type(e.value) is int and e.value == 1


def _isbool(e):
    return isinstance(e, ast.Compare)


def _bool(e, atoms):
    if isinstance(e, ast.Compare) and len(e.ops) == 1 and type(e.ops[0]) in CMP:
        return CMP[type(e.ops[0])](_num(e.left, atoms), _num(e.comparators[0], atoms))
    raise Shape(f"unsupported condition at line {getattr(e, 'lineno', '?')}: {ast.unparse(e)[:80]}")


def _num(e, atoms):
    """numeric (element-wise) expression -> Coq term of type Q; atoms: unparsed source -> Coq term"""
    src = ast.unparse(e)
    if src in atoms:
        return atoms[src]
    c = _const(e)
    if c is not None:
        return c
    if isinstance(e, ast.UnaryOp) and isinstance(e.op, ast.USub):
        return f"(- {_num(e.operand, atoms)})"
    if isinstance(e, ast.BinOp) and isinstance(e.op, ast.Mult):
        # the integer cast idiom `1 * (boolean series)`
        if _is_one(e.left) and _isbool(e.right):
            return f"(ind {_bool(e.right, atoms)})"
        if _is_one(e.right) and _isbool(e.left):
            return f"(ind {_bool(e.left, atoms)})"
    if isinstance(e, ast.BinOp) and type(e.op) in BIN:
        return f"({_num(e.left, atoms)} {BIN[type(e.op)]} {_num(e.right, atoms)})"
    if isinstance(e, ast.Call) and isinstance(e.func, ast.Attribute) and e.func.attr == "abs" and not e.args \
            and not e.keywords:
        return f"(qabs {_num(e.func.value, atoms)})"
    raise Shape(f"unsupported expression at line {getattr(e, 'lineno', '?')}: {src[:80]}")


def _select(e):
    """`losses.index(min(losses))` -> py_index (py_min losses) losses"""
    if isinstance(e, ast.Call) and isinstance(e.func, ast.Attribute) and e.func.attr == "index" \
            and isinstance(e.func.value, ast.Name) and e.func.value.id == "losses" and len(e.args) == 1 \
            and not e.keywords:
        a = e.args[0]
        if isinstance(a, ast.Call) and isinstance(a.func, ast.Name) and a.func.id in ("min", "max") \
                and len(a.args) == 1 and not a.keywords and isinstance(a.args[0], ast.Name) \
                and a.args[0].id == "losses":
            return f"(py_index (py_{a.func.id} losses) losses)"
    raise Shape(f"unsupported selection at line {getattr(e, 'lineno', '?')}: {ast.unparse(e)[:80]}")


# ---------------------------------------------------------------------------------------------
# statements: strip logging / docstrings, cut the holes out, compare the rest literally
# ---------------------------------------------------------------------------------------------
def _is_noise(s):
    if isinstance(s, ast.Expr) and isinstance(s.value, ast.Constant):
        return True
    return isinstance(s, ast.Expr) and isinstance(s.value, ast.Call) and ast.unparse(s.value.func) == "logger.debug"


def _strip(node):
    for fld in ("body", "orelse", "finalbody"):
        stmts = getattr(node, fld, None)
        if isinstance(stmts, list):
            kept = [s for s in stmts if not _is_noise(s)]
            if not kept and stmts and fld == "body":
                kept = [ast.Pass()]
            setattr(node, fld, kept)
            for s in kept:
                _strip(s)
    return node


def _hole(name):
    return ast.Name(id=name, ctx=ast.Load())


def _single_assign(stmts, target, what):
    found = [s for s in stmts if isinstance(s, ast.Assign) and len(s.targets) == 1
             and ast.unparse(s.targets[0]) == target]
    if len(found) != 1:
        raise Shape(f"{what}: expected exactly one assignment to {target}, found {len(found)}")
    return found[0]


FIT_TEMPLATE = """def fit(self, X, y, **kwargs):
    self.predictors_ = []
    self.lambda_vecs_ = pd.DataFrame(dtype=np.float64)
    self.objectives_ = []
    self.gammas_ = pd.DataFrame(dtype=np.float64)
    self.oracle_execution_times_ = []
    if isinstance(self.constraints, ClassificationMoment):
        is_classification_reduction = True
    else:
        is_classification_reduction = False
    self.constraints.load_data(X, y, **kwargs)
    objective = self.constraints.default_objective()
    objective.load_data(X, y, **kwargs)
    pos_basis = self.constraints.pos_basis
    neg_basis = self.constraints.neg_basis
    neg_allowed = self.constraints.neg_basis_present
    objective_in_the_span = self.constraints.default_objective_lambda_vec is not None
    if self.grid is None:
        grid = _GridGenerator(self.grid_size, self.grid_limit, pos_basis, neg_basis, neg_allowed, objective_in_the_span, self.grid_offset).grid
    else:
        grid = self.grid
    for i in grid.columns:
        lambda_vec = grid[i]
        weights = self.constraints.signed_weights(lambda_vec)
        if not objective_in_the_span:
            weights = HOLE_WEIGHTS
        if is_classification_reduction:
            y_reduction = HOLE_RELABEL
            weights = HOLE_REWEIGHT
        else:
            y_reduction = self.constraints._y_as_series
        y_reduction_unique = np.unique(y_reduction)
        if len(y_reduction_unique) == 1:
            current_estimator = DummyClassifier(strategy='constant', constant=y_reduction_unique[0])
        else:
            current_estimator = copy.deepcopy(self.estimator)
        oracle_call_start_time = time()
        if len(y_reduction_unique) == 1:
            current_estimator.fit(X, y_reduction)
        else:
            current_estimator.fit(X, y_reduction, **{self.sample_weight_name: weights})
        oracle_call_execution_time = time() - oracle_call_start_time

        def predict_fct(X):
            return current_estimator.predict(X)
        self.predictors_.append(current_estimator)
        self.lambda_vecs_[i] = lambda_vec
        self.objectives_.append(objective.gamma(predict_fct).iloc[0])
        self.gammas_[i] = self.constraints.gamma(predict_fct)
        self.oracle_execution_times_.append(oracle_call_execution_time)
    if self.selection_rule == TRADEOFF_OPTIMIZATION:

        def loss_fct(i):
            return HOLE_LOSS
        losses = [loss_fct(i) for i in range(len(self.objectives_))]
        self.best_idx_ = HOLE_SELECT
    else:
        raise RuntimeError('Unsupported selection rule')
    return self"""

PREDICT_TEMPLATE = """def predict(self, X):
    check_is_fitted(self)
    return self.predictors_[self.best_idx_].predict(X)"""

PREDICT_PROBA_TEMPLATE = """def predict_proba(self, X):
    check_is_fitted(self)
    return self.predictors_[self.best_idx_].predict_proba(X)"""


def _norm(text):
    return ast.unparse(ast.parse(text))


def translate(repo: Path):
    tree = ast.parse((Path(repo) / SRC).read_text())
    cls = next((n for n in tree.body if isinstance(n, ast.ClassDef) and n.name == "GridSearch"), None)
    if cls is None:
        raise Shape("GridSearch not found")
    fns = {}
    for n in cls.body:
        if isinstance(n, ast.FunctionDef):
            if n.name in fns:
                raise Shape(f"{n.name} defined twice")
            if n.decorator_list:
                raise Shape(f"{n.name}: decorated")
            fns[n.name] = n
    for need in ("__init__", "fit", "predict", "predict_proba"):
        if need not in fns:
            raise Shape(f"GridSearch.{need} not found")

    # ---- __init__: the two weights ----
    init = _strip(fns["__init__"])
    a_cw = _single_assign(init.body, "self.constraint_weight", "__init__")
    if ast.unparse(a_cw.value) != "float(constraint_weight)":
        raise Shape(f"__init__: self.constraint_weight = {ast.unparse(a_cw.value)}")
    a_ow = _single_assign(init.body, "self.objective_weight", "__init__")
    objective_weight = _num(a_ow.value, {"constraint_weight": "constraint_weight",
                                         "self.constraint_weight": "constraint_weight"})
    for s in ast.walk(cls):
        if isinstance(s, (ast.Assign, ast.AugAssign, ast.AnnAssign)):
            tg = s.targets if isinstance(s, ast.Assign) else [s.target]
            for t in tg:
                if ast.unparse(t) in ("self.constraint_weight", "self.objective_weight") and s not in (a_cw, a_ow):
                    raise Shape(f"second assignment to {ast.unparse(t)} at line {s.lineno}")

    # ---- fit: cut the holes out ----
    fit = _strip(fns["fit"])
    loops = [s for s in fit.body if isinstance(s, ast.For)]
    if len(loops) != 1:
        raise Shape("fit: expected exactly one for loop")
    loop = loops[0]
    span_if = [s for s in loop.body if isinstance(s, ast.If) and ast.unparse(s.test) == "not objective_in_the_span"]
    if len(span_if) != 1 or span_if[0].orelse or len(span_if[0].body) != 1:
        raise Shape("fit: `if not objective_in_the_span:` with a single statement expected")
    a_w = _single_assign(span_if[0].body, "weights", "fit / objective not in the span")
    weights_entry = _num(a_w.value, {"weights": "c", "objective.signed_weights()": "o"})
    a_w.value = _hole("HOLE_WEIGHTS")
    cls_if = [s for s in loop.body if isinstance(s, ast.If) and ast.unparse(s.test) == "is_classification_reduction"]
    if len(cls_if) != 1 or len(cls_if[0].body) != 2:
        raise Shape("fit: `if is_classification_reduction:` with two statements expected")
    a_y = _single_assign(cls_if[0].body[:1], "y_reduction", "fit / relabelling")
    a_a = _single_assign(cls_if[0].body[1:], "weights", "fit / reweighting")
    relabel_entry = _num(a_y.value, {"weights": "weights"})
    reweight_entry = _num(a_a.value, {"weights": "weights"})
    a_y.value = _hole("HOLE_RELABEL")
    a_a.value = _hole("HOLE_REWEIGHT")
    sel_if = [s for s in fit.body if isinstance(s, ast.If)
              and ast.unparse(s.test) == "self.selection_rule == TRADEOFF_OPTIMIZATION"]
    if len(sel_if) != 1:
        raise Shape("fit: selection block not found")
    lf = [s for s in sel_if[0].body if isinstance(s, ast.FunctionDef) and s.name == "loss_fct"]
    if len(lf) != 1 or len(lf[0].body) != 1 or not isinstance(lf[0].body[0], ast.Return) or lf[0].body[0].value is None:
        raise Shape("fit: loss_fct with a single return expected")
    loss = _num(lf[0].body[0].value, {"self.objective_weight": "(objective_weight constraint_weight)",
                                      "self.constraint_weight": "constraint_weight",
                                      "self.objectives_[i]": "objective",
                                      "self.gammas_[grid.columns[i]].max()": "(vmax gammas)"})
    lf[0].body[0].value = _hole("HOLE_LOSS")
    a_b = _single_assign(sel_if[0].body, "self.best_idx_", "fit / selection")
    best_idx = _select(a_b.value)
    a_b.value = _hole("HOLE_SELECT")
    got = ast.unparse(fit)
    if got != _norm(FIT_TEMPLATE):
        import difflib
        d = [ln for ln in difflib.unified_diff(_norm(FIT_TEMPLATE).splitlines(), got.splitlines(), lineterm="", n=0)
             if not ln.startswith(("---", "+++", "@@"))]
        raise Shape("fit differs from the modelled text: " + " | ".join(d)[:400])
    for name, tmpl in (("predict", PREDICT_TEMPLATE), ("predict_proba", PREDICT_PROBA_TEMPLATE)):
        g = ast.unparse(_strip(fns[name]))
        if g != _norm(tmpl):
            raise Shape(f"{name} differs from the modelled text: {g[:300]!r}")
    # no other method may touch the recorded state
    for name, f in fns.items():
        if name == "fit":
            continue
        for s in ast.walk(f):
            if isinstance(s, (ast.Assign, ast.AugAssign, ast.AnnAssign, ast.Delete)):
                tg = s.targets if isinstance(s, (ast.Assign, ast.Delete)) else [s.target]
                for t in tg:
                    if ast.unparse(t).split("[")[0] in ("self.predictors_", "self.best_idx_", "self.objectives_",
                                                       "self.gammas_", "self.lambda_vecs_"):
                        raise Shape(f"{name} assigns {ast.unparse(t)}")
    text = ("(* GENERATED by translators/t_gridsearch.py from " + SRC + " -- do not edit *)\n"
            "From Coq Require Import QArith List Bool.\n"
            "From FL Require Import Num Grid Moments GridSearch.\n"
            "Open Scope Q_scope.\n"
            "(* weights = weights + objective.signed_weights(): c = constraint weight, o = objective weight *)\n"
            "Definition weights_entry (c o : Q) : Q :=\n  " + weights_entry + ".\n"
            "(* y_reduction = ... *)\n"
            "Definition relabel_entry (weights : Q) : Q :=\n  " + relabel_entry + ".\n"
            "(* weights = ... (classification) *)\n"
            "Definition reweight_entry (weights : Q) : Q :=\n  " + reweight_entry + ".\n"
            "(* __init__: self.objective_weight = ... *)\n"
            "Definition objective_weight (constraint_weight : Q) : Q :=\n  " + objective_weight + ".\n"
            "(* loss_fct(i): objective = self.objectives_[i], gammas = self.gammas_[grid.columns[i]] *)\n"
            "Definition loss (constraint_weight objective : Q) (gammas : list Q) : Q :=\n  " + loss + ".\n"
            "(* self.best_idx_ = ... *)\n"
            "Definition best_idx (losses : list Q) : option nat :=\n  " + best_idx + ".\n")
    return {"Gen_gridsearch.v": text}
