"""Fail-closed source translators: each module t_*.py exposes
   OUTPUTS = [generated file names]   and   translate(repo: Path) -> {file name: Coq text}.
A translator raises on any source shape it does not understand."""
ALL = ["t_merge"]
