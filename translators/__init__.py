"""Fail-closed source translators: each module t_*.py exposes
   OUTPUTS = [generated file names]   and   translate(repo: Path) -> {file name: Coq text}.
A translator raises on any source shape it does not understand."""
from pathlib import Path


def all_names():
    return sorted(p.stem for p in Path(__file__).parent.glob("t_*.py"))
