"""t_disagg: regenerate the decisions of the MetricFrame disaggregation glue (C01) from the source:

  DisaggregatedResult._apply_functions   when the whole frame is used (no grouping), when the result is re-indexed to
                                         the Cartesian product of the levels, the levels, the fill value of reindex
  DisaggregatedResult.create             the grouping columns of `overall` and `by_group` (control first)
  AnnotatedMetricFunction.__call__       positional / keyword argument assembly
  MetricFrame._extract_result            callable-vs-dict unwrapping
  MetricFrame.__init__ / GroupFeature    the bases and the format of generated feature names

Fail closed: every statement of these functions must have exactly the recognised shape."""
import ast
from pathlib import Path

OUTPUTS = ["Gen_disagg.v"]
SRC_DR = "fairlearn/metrics/_disaggregated_result.py"
SRC_AF = "fairlearn/metrics/_annotated_metric_function.py"
SRC_MF = "fairlearn/metrics/_metric_frame.py"
SRC_GF = "fairlearn/metrics/_group_feature.py"


class Unsupported(ValueError):
    pass


def _fail(where, node, why="unrecognised shape"):
    txt = ast.unparse(node) if isinstance(node, ast.AST) else str(node)
    raise Unsupported(f"{where}: {why}: `{txt[:160]}` (line {getattr(node, 'lineno', '?')})")


def _body(fn):
    """statements without the docstring"""
    b = list(fn.body)
    if b and isinstance(b[0], ast.Expr) and isinstance(b[0].value, ast.Constant) and isinstance(b[0].value.value, str):
        b = b[1:]
    return b


def _find(tree, cls, fn):
    c = next((n for n in tree.body if isinstance(n, ast.ClassDef) and n.name == cls), None)
    if c is None:
        raise Unsupported(f"class {cls} not found")
    f = next((n for n in c.body if isinstance(n, ast.FunctionDef) and n.name == fn), None)
    if f is None:
        raise Unsupported(f"{cls}.{fn} not found")
    return f


def _is_name(e, ident):
    return isinstance(e, ast.Name) and e.id == ident


def _is_attr(e, base, attr):
    return isinstance(e, ast.Attribute) and e.attr == attr and _is_name(e.value, base)


def _same(node, text):
    return ast.unparse(node) == ast.unparse(ast.parse(text, mode="eval").body)


# ------------------------------------------------------------------------------------------------
# tests on the number of grouping names  ->  Gallina bool over (n : nat)
# ------------------------------------------------------------------------------------------------
def _len_cmp(t, var, where):
    """`len(var) OP c`  ->  Gallina"""
    if not (isinstance(t, ast.Compare) and len(t.ops) == 1 and len(t.comparators) == 1):
        _fail(where, t)
    left, right, op = t.left, t.comparators[0], t.ops[0]
    if not (isinstance(left, ast.Call) and _is_name(left.func, "len") and len(left.args) == 1 and not left.keywords
            and _is_name(left.args[0], var)):
        _fail(where, t, f"expected len({var}) on the left")
    if not (isinstance(right, ast.Constant) and type(right.value) is int and right.value >= 0):
        _fail(where, t, "expected a non-negative integer literal on the right")
    c = right.value
    if isinstance(op, ast.Gt):
        return f"({c} <? n)%nat"
    if isinstance(op, ast.GtE):
        return f"({c} <=? n)%nat"
    if isinstance(op, ast.Lt):
        return f"(n <? {c})%nat"
    if isinstance(op, ast.LtE):
        return f"(n <=? {c})%nat"
    if isinstance(op, ast.Eq):
        return f"(n =? {c})%nat"
    if isinstance(op, ast.NotEq):
        return f"(negb (n =? {c}))%nat"
    _fail(where, t, "unsupported comparison operator")


def _early_test(t, var, where):
    """no grouping: `var is None or len(var) == 0`, or `not var` (None counts as the empty list)"""
    if isinstance(t, ast.UnaryOp) and isinstance(t.op, ast.Not) and _is_name(t.operand, var):
        return "(n =? 0)%nat"
    if isinstance(t, ast.BoolOp) and isinstance(t.op, ast.Or) and len(t.values) == 2:
        a, b = t.values
        if (isinstance(a, ast.Compare) and len(a.ops) == 1 and isinstance(a.ops[0], ast.Is) and _is_name(a.left, var)
                and isinstance(a.comparators[0], ast.Constant) and a.comparators[0].value is None):
            return _len_cmp(b, var, where)
    _fail(where, t)


def _apply_functions(fn):
    w = "_apply_functions"
    a = fn.args
    if [x.arg for x in a.kwonlyargs] != ["data", "annotated_functions", "grouping_names"] or a.args or a.vararg \
            or a.kwarg or a.posonlyargs:
        _fail(w, fn, "unexpected signature")
    b = _body(fn)
    if len(b) != 4:
        _fail(w, fn, f"expected 4 statements, found {len(b)}")
    s_early, s_temp, s_reidx, s_ret = b
    # 1. no grouping names: the metric functions on the whole frame
    if not (isinstance(s_early, ast.If) and not s_early.orelse and len(s_early.body) == 1
            and isinstance(s_early.body[0], ast.Return)
            and _same(s_early.body[0].value, "apply_to_dataframe(data, metric_functions=annotated_functions)")):
        _fail(w, s_early)
    early = _early_test(s_early.test, "grouping_names", w)
    # 2. group-by over the grouping names (default options: sorted keys, observed combinations only)
    if not (isinstance(s_temp, ast.Assign) and len(s_temp.targets) == 1 and _is_name(s_temp.targets[0], "temp")
            and _same(s_temp.value, "data.groupby(grouping_names).apply(apply_to_dataframe, "
                                    "metric_functions=annotated_functions, include_groups=False)")):
        _fail(w, s_temp)
    # 3. several grouping names: re-index to the product of the per-column unique values
    if not (isinstance(s_reidx, ast.If) and not s_reidx.orelse and len(s_reidx.body) == 2):
        _fail(w, s_reidx)
    cond = _len_cmp(s_reidx.test, "grouping_names", w)
    s_idx, s_rr = s_reidx.body
    if not (isinstance(s_idx, ast.Assign) and len(s_idx.targets) == 1 and _is_name(s_idx.targets[0], "all_indices")
            and _same(s_idx.value, "pd.MultiIndex.from_product([np.unique(data[col]) for col in grouping_names], "
                                   "names=grouping_names)")):
        _fail(w, s_idx)
    levels = "map zuniq kcols"
    if not (isinstance(s_rr, ast.Return) and isinstance(s_rr.value, ast.Call)
            and _is_attr(s_rr.value.func, "temp", "reindex") and not s_rr.value.args):
        _fail(w, s_rr)
    kws = {k.arg: k.value for k in s_rr.value.keywords}
    if set(kws) != {"index"} or not _is_name(kws["index"], "all_indices"):
        _fail(w, s_rr, "reindex must be called with index=all_indices only (a fill_value / method changes the "
                       "cells of the keys that have no rows)")
    fill = "None"
    # 4. one grouping name: the group-by result as it is
    if not (isinstance(s_ret, ast.Return) and _is_name(s_ret.value, "temp")):
        _fail(w, s_ret)
    return early, cond, levels, fill


# ------------------------------------------------------------------------------------------------
def _grouping_expr(e, where):
    if _is_name(e, "control_feature_names"):
        return "cf"
    if _is_name(e, "sensitive_feature_names"):
        return "sf"
    if isinstance(e, ast.BoolOp) and isinstance(e.op, ast.Or) and len(e.values) == 2 \
            and isinstance(e.values[1], ast.List) and not e.values[1].elts:
        return _grouping_expr(e.values[0], where)          # `x or []`: None counts as the empty list
    if isinstance(e, ast.BinOp) and isinstance(e.op, ast.Add):
        return f"({_grouping_expr(e.left, where)} ++ {_grouping_expr(e.right, where)})"
    _fail(where, e)


def _create(fn):
    w = "create"
    b = _body(fn)
    if len(b) != 3:
        _fail(w, fn, f"expected 3 statements, found {len(b)}")
    out = {}
    for s, target in zip(b[:2], ("overall", "by_group")):
        if not (isinstance(s, ast.Assign) and len(s.targets) == 1 and _is_name(s.targets[0], target)
                and isinstance(s.value, ast.Call) and _same(s.value.func, "DisaggregatedResult._apply_functions")
                and not s.value.args):
            _fail(w, s)
        kws = {k.arg: k.value for k in s.value.keywords}
        if set(kws) != {"data", "annotated_functions", "grouping_names"} or not _is_name(kws["data"], "data") \
                or not _is_name(kws["annotated_functions"], "annotated_functions"):
            _fail(w, s)
        out[target] = _grouping_expr(kws["grouping_names"], w)
    if not (isinstance(b[2], ast.Return) and _same(b[2].value, "DisaggregatedResult(overall, by_group)")):
        _fail(w, b[2])
    return out["overall"], out["by_group"]


# ------------------------------------------------------------------------------------------------
def _column_value(e, where):
    """`np.asarray(list(df[NAME]))` -> NAME (the column as it is; anything else could reorder or alter it)"""
    if (isinstance(e, ast.Call) and _same(e.func, "np.asarray") and len(e.args) == 1 and not e.keywords
            and isinstance(e.args[0], ast.Call) and _is_name(e.args[0].func, "list") and len(e.args[0].args) == 1
            and not e.args[0].keywords):
        sub = e.args[0].args[0]
        if isinstance(sub, ast.Subscript) and _is_name(sub.value, "df") and isinstance(sub.slice, ast.Name):
            return sub.slice.id
    _fail(where, e, "expected np.asarray(list(df[<name>]))")


def _call(fn):
    w = "AnnotatedMetricFunction.__call__"
    if [x.arg for x in fn.args.args] != ["self", "df"]:
        _fail(w, fn, "unexpected signature")
    b = _body(fn)
    if len(b) != 6:
        _fail(w, fn, f"expected 6 statements, found {len(b)}")
    s_args, f_pos, s_kwargs, f_kw, s_res, s_ret = b
    if not (isinstance(s_args, ast.Assign) and _is_name(s_args.targets[0], "args") and _same(s_args.value, "[]")):
        _fail(w, s_args)
    if not (isinstance(f_pos, ast.For) and not f_pos.orelse and isinstance(f_pos.target, ast.Name)
            and _same(f_pos.iter, "self.postional_argument_names") and len(f_pos.body) == 1
            and isinstance(f_pos.body[0], ast.Expr) and isinstance(f_pos.body[0].value, ast.Call)
            and _is_attr(f_pos.body[0].value.func, "args", "append") and len(f_pos.body[0].value.args) == 1):
        _fail(w, f_pos)
    if _column_value(f_pos.body[0].value.args[0], w) != f_pos.target.id:
        _fail(w, f_pos, "positional argument is not the column of its own name")
    if not (isinstance(s_kwargs, ast.Assign) and _is_name(s_kwargs.targets[0], "kwargs")
            and (_same(s_kwargs.value, "dict()") or _same(s_kwargs.value, "{}"))):
        _fail(w, s_kwargs)
    if not (isinstance(f_kw, ast.For) and not f_kw.orelse and isinstance(f_kw.target, ast.Tuple)
            and len(f_kw.target.elts) == 2 and all(isinstance(x, ast.Name) for x in f_kw.target.elts)
            and _same(f_kw.iter, "self.kw_argument_mapping.items()") and len(f_kw.body) == 1
            and isinstance(f_kw.body[0], ast.Assign) and len(f_kw.body[0].targets) == 1):
        _fail(w, f_kw)
    first, second = (x.id for x in f_kw.target.elts)
    tgt = f_kw.body[0].targets[0]
    if not (isinstance(tgt, ast.Subscript) and _is_name(tgt.value, "kwargs") and isinstance(tgt.slice, ast.Name)):
        _fail(w, f_kw)
    key_var, col_var = tgt.slice.id, _column_value(f_kw.body[0].value, w)
    sel = {first: "fst", second: "snd"}
    if first == second or key_var not in sel or col_var not in sel or key_var == col_var:
        _fail(w, f_kw, "keyword / column roles not recognised")
    if not (isinstance(s_res, ast.Assign) and _is_name(s_res.targets[0], "result")
            and _same(s_res.value, "self.func(*args, **kwargs)")):
        _fail(w, s_res)
    if not (isinstance(s_ret, ast.Return) and _is_name(s_ret.value, "result")):
        _fail(w, s_ret)
    return sel[key_var], sel[col_var]


# ------------------------------------------------------------------------------------------------
def _extract(fn):
    w = "_extract_result"
    if [x.arg for x in fn.args.args] != ["self", "underlying_result", "no_control_levels"]:
        _fail(w, fn, "unexpected signature")
    b = _body(fn)
    if len(b) != 1 or not isinstance(b[0], ast.If):
        _fail(w, fn)
    top = b[0]
    if not (_same(top.test, "self._user_supplied_callable") and len(top.body) == 1 and isinstance(top.body[0], ast.If)
            and len(top.orelse) == 1 and isinstance(top.orelse[0], ast.Return)
            and _is_name(top.orelse[0].value, "underlying_result")):
        _fail(w, top)
    inner = top.body[0]

    def btest(t):
        if _same(t, "self.control_levels"):
            return "has_control"
        if _is_name(t, "no_control_levels"):
            return "no_control_levels"
        if isinstance(t, ast.BoolOp) and len(t.values) == 2:
            op = "||" if isinstance(t.op, ast.Or) else "&&"
            return f"({btest(t.values[0])} {op} {btest(t.values[1])})"
        if isinstance(t, ast.UnaryOp) and isinstance(t.op, ast.Not):
            return f"(negb {btest(t.operand)})"
        _fail(w, t)

    def ret(stmts):
        if len(stmts) != 1 or not isinstance(stmts[0], ast.Return):
            _fail(w, inner)
        v = stmts[0].value
        if _same(v, "underlying_result.iloc[:, 0]"):
            return "iloc_col0 names t"
        if _same(v, "underlying_result.iloc[0]"):
            return "iloc_row0 t"
        if _is_name(v, "underlying_result"):
            return "XSame t"
        _fail(w, v)

    return f"if callable then (if {btest(inner.test)} then {ret(inner.body)} else {ret(inner.orelse)}) else XSame t"


def _bases(init, gf_tree):
    w = "MetricFrame.__init__"
    calls = [n for n in ast.walk(init) if isinstance(n, ast.Call) and _same(n.func, "self._process_features")]
    if len(calls) != 2:
        _fail(w, init, f"expected two calls of _process_features, found {len(calls)}")
    out = {}
    for c in calls:
        if len(c.args) != 3 or c.keywords or not (isinstance(c.args[0], ast.Constant) and isinstance(c.args[0].value, str)) \
                or not isinstance(c.args[1], ast.Name) or not _is_name(c.args[2], "y_t"):
            _fail(w, c)
        out[c.args[1].id] = c.args[0].value
    if set(out) != {"sensitive_features", "control_features"}:
        _fail(w, init, "feature arguments not recognised")
    gfi = _find(gf_tree, "GroupFeature", "__init__")
    fmt = [s for s in ast.walk(gfi) if isinstance(s, ast.Assign) and len(s.targets) == 1
           and _same(s.targets[0], "self.name_") and isinstance(s.value, ast.Call)]
    if len(fmt) != 1 or not _same(fmt[0].value, "'{0}{1}'.format(base_name, index)"):
        _fail("GroupFeature.__init__", gfi, "generated name is not '{0}{1}'.format(base_name, index)")
    return out["sensitive_features"], out["control_features"]


def _codes(s):
    if not all(ord(ch) < 128 for ch in s):
        raise Unsupported(f"non-ASCII feature name base {s!r}")
    return "[" + "; ".join(str(ord(ch)) for ch in s) + "]"


def translate(repo: Path):
    repo = Path(repo)
    dr = ast.parse((repo / SRC_DR).read_text())
    af = ast.parse((repo / SRC_AF).read_text())
    mf = ast.parse((repo / SRC_MF).read_text())
    gf = ast.parse((repo / SRC_GF).read_text())
    early, cond, levels, fill = _apply_functions(_find(dr, "DisaggregatedResult", "_apply_functions"))
    g_overall, g_by_group = _create(_find(dr, "DisaggregatedResult", "create"))
    kw_key, kw_col = _call(_find(af, "AnnotatedMetricFunction", "__call__"))
    extract = _extract(_find(mf, "MetricFrame", "_extract_result"))
    sfb, cfb = _bases(_find(mf, "MetricFrame", "__init__"), gf)
    text = f"""(* GENERATED by translators/t_disagg.py from {SRC_DR}, {SRC_AF}, {SRC_MF}, {SRC_GF} -- do not edit *)
From Coq Require Import ZArith List Bool.
From FL Require Import ListX Disagg Disagg_ext.
Import ListNotations.
Open Scope Z_scope.

(* DisaggregatedResult._apply_functions, n = number of grouping names (None counts as none) *)
Definition early_return (n : nat) : bool := {early}.
Definition reindex_cond (n : nat) : bool := {cond}.
Definition reindex_levels (kcols : list (list Z)) : list (list Z) := {levels}.
Definition reindex_fill {{A : Type}} : option A := {fill}.

(* DisaggregatedResult.create: grouping names of `overall` and of `by_group` *)
Definition overall_grouping {{A : Type}} (cf sf : list A) : list A := {g_overall}.
Definition by_group_grouping {{A : Type}} (cf sf : list A) : list A := {g_by_group}.

(* AnnotatedMetricFunction.__call__: positional columns in the order of the names, keyword arguments from
   the items of kw_argument_mapping (af_kw), then self.func( *args, **kwargs) *)
Definition call_src (V cell : Type) (fn : name -> list (list V) -> list (name * list V) -> cell)
           (af : annot) (df : frame V) : option cell :=
  match get_all V (af_pos af) df, get_all V (map {kw_col} (af_kw af)) df with
  | Some args, Some kwvals => Some (fn (af_name af) args (combine (map {kw_key} (af_kw af)) kwvals))
  | _, _ => None
  end.

(* MetricFrame._extract_result *)
Definition extract_src {{cell : Type}} (callable has_control no_control_levels : bool) (names : list name)
           (t : table cell) : extracted cell :=
  {extract}.

(* MetricFrame.__init__: bases of generated feature names; GroupFeature: "{{0}}{{1}}".format(base_name, index) *)
Definition sf_base_src : name := {_codes(sfb)}.
Definition cf_base_src : name := {_codes(cfb)}.
"""
    return {"Gen_disagg.v": text}
