"""t_hull: regenerate the drop test of _filter_points_to_get_convex_hull and the p0/p1/y formulas of
_interpolate_curve (C04/C05)."""
import ast
from pathlib import Path

OUTPUTS = ["Gen_hull.v"]
SRC = "fairlearn/postprocessing/_tradeoff_curve_utilities.py"
OPS = {ast.Add: "+", ast.Sub: "-", ast.Mult: "*", ast.Div: "/"}


def _fn(tree, name):
    fn = next((n for n in tree.body if isinstance(n, ast.FunctionDef) and n.name == name), None)
    if fn is None:
        raise ValueError(f"{name} not found")
    return [s for s in fn.body if not (isinstance(s, ast.Expr) and isinstance(s.value, ast.Constant))]


def _arith(e, leaf):
    if isinstance(e, ast.BinOp) and type(e.op) in OPS:
        return f"({_arith(e.left, leaf)} {OPS[type(e.op)]} {_arith(e.right, leaf)})"
    if isinstance(e, ast.Constant) and isinstance(e.value, int) and not isinstance(e.value, bool):
        return f"({e.value}#1)"
    return leaf(e)


def _drop_test(tree):
    body = _fn(tree, "_filter_points_to_get_convex_hull")
    # selected = []; for r2 in points_sorted.itertuples(): while len(selected) >= 2: ...; selected.append(r2); return
    if len(body) != 3 or ast.unparse(body[0]) != "selected = []" or not isinstance(body[1], ast.For) \
            or not isinstance(body[2], ast.Return):
        raise ValueError("hull: unexpected statement structure")
    if ast.unparse(body[2].value) != "pd.DataFrame(selected)[['x', 'y', 'operation']]":
        raise ValueError("hull: unexpected return expression")
    loop = body[1]
    if ast.unparse(loop.target) != "r2" or ast.unparse(loop.iter) != "points_sorted.itertuples()" or loop.orelse:
        raise ValueError("hull: unexpected for loop")
    lb = loop.body
    if len(lb) != 2 or not isinstance(lb[0], ast.While) or ast.unparse(lb[1]) != "selected.append(r2)":
        raise ValueError("hull: for body is not `while ...; selected.append(r2)`")
    w = lb[0]
    if ast.unparse(w.test) != "len(selected) >= 2" or w.orelse:
        raise ValueError("hull: unexpected while condition")
    wb = w.body
    if len(wb) != 3 or ast.unparse(wb[0]) != "r1 = selected[-1]" or ast.unparse(wb[1]) != "r0 = selected[-2]" \
            or not isinstance(wb[2], ast.If):
        raise ValueError("hull: unexpected while body")
    iff = wb[2]
    if [ast.unparse(s) for s in iff.body] != ["selected.pop()"] or [ast.unparse(s) for s in iff.orelse] != ["break"]:
        raise ValueError("hull: the test does not guard `selected.pop()` / `break`")
    t = iff.test
    if not (isinstance(t, ast.Compare) and len(t.ops) == 1):
        raise ValueError("hull: drop test is not a single comparison")

    def leaf(e):
        if isinstance(e, ast.Attribute) and isinstance(e.value, ast.Name) and e.value.id in ("r0", "r1", "r2") \
                and e.attr in ("x", "y"):
            return f"{e.attr}{e.value.id[1]}"
        raise ValueError(f"hull: unsupported expression {ast.unparse(e)}")
    a, b = _arith(t.left, leaf), _arith(t.comparators[0], leaf)
    op = type(t.ops[0])
    if op is ast.LtE:
        return f"Qleb {a} {b}"
    if op is ast.Lt:
        return f"Qltb {a} {b}"
    if op is ast.GtE:
        return f"Qleb {b} {a}"
    if op is ast.Gt:
        return f"Qltb {b} {a}"
    raise ValueError("hull: unsupported comparison operator")


def _interp(tree):
    body = _fn(tree, "_interpolate_curve")
    env = {}
    ret = None
    for s in body:
        if isinstance(s, ast.Assign) and len(s.targets) == 1 and isinstance(s.targets[0], ast.Name):
            env[s.targets[0].id] = s.value
        elif isinstance(s, ast.Return):
            ret = s.value
        else:
            raise ValueError(f"_interpolate_curve: unsupported statement {ast.unparse(s)[:60]}")
    want = {"x_values": "data[x_col].values", "y_values": "data[y_col].values",
            "content_values": "data[content_col].values",
            "interpolation_indices": "_get_interpolation_indices(x_grid, x_values)"}
    for k, v in want.items():
        if k not in env or ast.unparse(env[k]) != v:
            raise ValueError(f"_interpolate_curve: {k} is not {v}")
    LEAVES = {"x_values[interpolation_indices]": "xa", "x_values[interpolation_indices + 1]": "xb",
              "y_values[interpolation_indices]": "ya", "y_values[interpolation_indices + 1]": "yb", "x_grid": "x"}

    def leaf_with(extra):
        def leaf(e, depth=0):
            u = ast.unparse(e)
            if u in LEAVES:
                return LEAVES[u]
            if u in extra:
                return extra[u]
            if isinstance(e, ast.Name) and e.id in env and e.id not in want and depth < 6:
                return _arith(env[e.id], lambda z: leaf(z, depth + 1))
            raise ValueError(f"_interpolate_curve: unsupported expression {u}")
        return leaf
    p0 = _arith(env["p0"], leaf_with({}))
    p1 = _arith(env["p1"], leaf_with({"p0": "p0"}))
    y = _arith(env["y"], leaf_with({"p0": "p0", "p1": "p1"}))
    if not (isinstance(ret, ast.Call) and ast.unparse(ret.func) == "pd.DataFrame" and len(ret.args) == 1
            and isinstance(ret.args[0], ast.Dict)):
        raise ValueError("_interpolate_curve: unexpected return")
    cols = {ast.unparse(k): ast.unparse(v) for k, v in zip(ret.args[0].keys, ret.args[0].values)}
    exp = {"x_col": "x_grid", "y_col": "y", "'p0'": "p0", "content_col_0": "content_values[interpolation_indices]",
           "'p1'": "p1", "content_col_1": "content_values[interpolation_indices + 1]"}
    if cols != exp:
        raise ValueError(f"_interpolate_curve: returned columns {cols}")
    return p0, p1, y


def translate(repo: Path):
    tree = ast.parse((Path(repo) / SRC).read_text())
    dt = _drop_test(tree)
    p0, p1, y = _interp(tree)
    text = ("(* GENERATED by translators/t_hull.py from " + SRC + " -- do not edit *)\n"
            "From Coq Require Import QArith.\nFrom FL Require Import Num.\nOpen Scope Q_scope.\n\n"
            "(* the test that pops r1 in _filter_points_to_get_convex_hull *)\n"
            f"Definition drop_test_xy (x0 y0 x1 y1 x2 y2 : Q) : bool :=\n  {dt}.\n\n"
            "(* _interpolate_curve *)\n"
            f"Definition interp_p0 (xa xb x : Q) : Q := {p0}.\n"
            f"Definition interp_p1 (p0 : Q) : Q := {p1}.\n"
            f"Definition interp_y (p0 p1 ya yb : Q) : Q := {y}.\n")
    return {"Gen_hull.v": text}
