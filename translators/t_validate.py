"""t_validate: regenerate, fail closed, the GUARDS of fairlearn's validation code (C20) as data:
which condition is tested, on which variable, under which flags, at which position.

  _validate_and_reformat_input      -> input_guards  (+ how every load_data / ThresholdOptimizer.fit calls it)
  UtilityParity.__init__            -> bounds        (the if / elif chain on the two bounds, the range test)
  ErrorRate.__init__                -> costs_init    (the conjunction that accepts a costs dict)
  GridSearch.__init__               -> gs_ctor       (Moment test, selection rule, constraint_weight range)
  _calculate_tradeoff_points        -> degenerate    (+ _get_counts, _get_scores_labels_and_counts)
  MetricFrame.__init__              -> mf_init       (length checks, sample parameters, duplicate names)
  MetricFrame._process_features     -> pf            (+ GroupFeature.__init__: per container, the checks per column)
  CorrelationRemover                -> cr            (_check_sensitive_features_in_X and its place in fit)
  predict / predict_proba / _pmf_predict / _raw_predict / transform -> fitted (position of check_is_fitted(self))

The vocabulary is coq/theories/Misc/ValidateSrc.v; props/C20.v proves the generated values equal to the
model_* values and their meaning equal to the decision functions of Validate.v.  Message texts, exception
arguments, keyword order, docstrings and comments are irrelevant; any statement or expression shape that is
not recognised raises."""
import ast
import copy
from fractions import Fraction
from pathlib import Path

OUTPUTS = ["Gen_validate.v"]

F_INPUT = "fairlearn/utils/_input_validation.py"
F_PARITY = "fairlearn/reductions/_moments/utility_parity.py"
F_ERR = "fairlearn/reductions/_moments/error_rate.py"
F_LOSS = "fairlearn/reductions/_moments/bounded_group_loss.py"
F_GS = "fairlearn/reductions/_grid_search/grid_search.py"
F_EG = "fairlearn/reductions/_exponentiated_gradient/exponentiated_gradient.py"
F_TO = "fairlearn/postprocessing/_threshold_optimizer.py"
F_IT = "fairlearn/postprocessing/_interpolated_thresholder.py"
F_CURVE = "fairlearn/postprocessing/_tradeoff_curve_utilities.py"
F_MF = "fairlearn/metrics/_metric_frame.py"
F_GF = "fairlearn/metrics/_group_feature.py"
F_CR = "fairlearn/preprocessing/_correlation_remover.py"
F_ADV = "fairlearn/adversarial/_adversarial_mitigation.py"


class Unrecognised(ValueError):
    pass


def _fail(what, node=None):
    line = f" (line {node.lineno})" if node is not None and hasattr(node, "lineno") else ""
    raise Unrecognised(f"{what}{line}")


# ----------------------------------------------------------------------------------------------
# generic helpers
# ----------------------------------------------------------------------------------------------
def _parse(repo, rel):
    return ast.parse((Path(repo) / rel).read_text())


def _strip_doc(body):
    if body and isinstance(body[0], ast.Expr) and isinstance(body[0].value, ast.Constant) \
            and isinstance(body[0].value.value, str):
        return body[1:]
    return body


def _cls(tree, name, rel):
    found = [n for n in tree.body if isinstance(n, ast.ClassDef) and n.name == name]
    if len(found) != 1:
        _fail(f"{rel}: class {name} not found exactly once")
    return found[0]


def _func(body, name, where):
    found = [n for n in body if isinstance(n, ast.FunctionDef) and n.name == name]
    if len(found) != 1:
        _fail(f"{where}: function {name} not found exactly once")
    if found[0].decorator_list:
        _fail(f"{where}.{name}: decorated", found[0])
    return found[0]


class _Canon(ast.NodeTransformer):
    """keyword arguments in name order; a raise keeps only the exception class"""

    def visit_Call(self, node):
        self.generic_visit(node)
        if all(k.arg is not None for k in node.keywords):
            node.keywords = sorted(node.keywords, key=lambda k: k.arg)
        return node

    def visit_Raise(self, node):
        exc = node.exc
        if isinstance(exc, ast.Call):
            exc = exc.func
        return ast.Raise(exc=exc, cause=None)


def _c(node):
    """canonical text of an expression or statement"""
    n = _Canon().visit(copy.deepcopy(node))
    ast.fix_missing_locations(n)
    return ast.unparse(n)


def _is_raise(stmts):
    """[name = <message>]* raise <exception>"""
    if not stmts or not isinstance(stmts[-1], ast.Raise) or stmts[-1].exc is None:
        return False
    return all(isinstance(s, ast.Assign) and len(s.targets) == 1 and isinstance(s.targets[0], ast.Name)
               for s in stmts[:-1])


def _name(node):
    return node.id if isinstance(node, ast.Name) else None


def _unparen_not(test):
    """`not <e>` -> e"""
    if isinstance(test, ast.UnaryOp) and isinstance(test.op, ast.Not):
        return test.operand
    return None


def _num(node, what):
    if isinstance(node, ast.UnaryOp) and isinstance(node.op, ast.USub):
        return -_num(node.operand, what)
    if isinstance(node, ast.Constant) and type(node.value) in (int, float):
        return Fraction(repr(node.value)) if isinstance(node.value, float) else Fraction(node.value)
    _fail(f"{what}: not a numeric literal", node)


def _int(node, what):
    q = _num(node, what)
    if q.denominator != 1:
        _fail(f"{what}: not an integer literal", node)
    return int(q)


def _q(fr):
    return f"({fr.numerator} # {fr.denominator})%Q"


def _z(i):
    return f"({i})%Z"


def _b(x):
    return "true" if x else "false"


def _lst(items):
    return "[" + "; ".join(items) + "]"


CMP = {ast.Lt: "CLt", ast.LtE: "CLe", ast.Gt: "CGt", ast.GtE: "CGe", ast.Eq: "CEq", ast.NotEq: "CNe"}


def _cmp(op, what):
    if type(op) not in CMP:
        _fail(f"{what}: comparison operator {type(op).__name__} not recognised")
    return CMP[type(op)]


def _range_test(test, var, what):
    """`not (lo <op> var <op> hi)` -> mkRange"""
    inner = _unparen_not(test)
    if not (isinstance(inner, ast.Compare) and len(inner.ops) == 2 and _name(inner.comparators[0]) == var):
        _fail(f"{what}: not `not (lo <op> {var} <op> hi)`", test)
    lo, hi = _num(inner.left, what), _num(inner.comparators[1], what)
    return f"(mkRange {_q(lo)} {_cmp(inner.ops[0], what)} {_cmp(inner.ops[1], what)} {_q(hi)})"


def _ntest(node, names, what):
    """`v is None` | `v is not None` | `not v` | `v`  ->  (v, tag)"""
    if isinstance(node, ast.Compare) and len(node.ops) == 1 and _name(node.left) in names \
            and isinstance(node.comparators[0], ast.Constant) and node.comparators[0].value is None:
        if isinstance(node.ops[0], ast.Is):
            return node.left.id, "TIsNone"
        if isinstance(node.ops[0], ast.IsNot):
            return node.left.id, "TIsNotNone"
    if _name(node) in names:
        return node.id, "TTruthy"
    inner = _unparen_not(node)
    if inner is not None and _name(inner) in names:
        return inner.id, "TFalsy"
    _fail(f"{what}: test `{ast.unparse(node)}` not recognised", node)


def _self_assign_only(stmts):
    """every statement is `self.<attr> = <expr>` (no call on the left, nothing else)"""
    return all(isinstance(s, ast.Assign) and len(s.targets) == 1 and isinstance(s.targets[0], ast.Attribute)
               and _name(s.targets[0].value) == "self" for s in stmts)


def _is_super_init(stmt):
    return isinstance(stmt, ast.Expr) and isinstance(stmt.value, ast.Call) \
        and isinstance(stmt.value.func, ast.Attribute) and stmt.value.func.attr == "__init__" \
        and isinstance(stmt.value.func.value, ast.Call) and _name(stmt.value.func.value.func) == "super"


def _imports(tree, module, name, rel):
    """`from <module> import <name>` at module level, and the name is bound nowhere else"""
    ok = False
    for n in tree.body:
        if isinstance(n, ast.ImportFrom) and n.module == module and n.level == 0:
            for a in n.names:
                if a.name == name and a.asname in (None, name):
                    ok = True
    if not ok:
        _fail(f"{rel}: `from {module} import {name}` not found")
    for n in ast.walk(tree):
        if isinstance(n, ast.Name) and n.id == name and not isinstance(n.ctx, ast.Load):
            _fail(f"{rel}: {name} is rebound", n)
        if isinstance(n, (ast.FunctionDef, ast.ClassDef)) and n.name == name:
            _fail(f"{rel}: {name} is redefined", n)
        if isinstance(n, ast.arg) and n.arg == name:
            _fail(f"{rel}: {name} is a parameter", n)


def _sig(fn):
    a = fn.args
    return {"pos": [x.arg for x in a.posonlyargs + a.args], "defaults": a.defaults,
            "kwonly": [x.arg for x in a.kwonlyargs], "kw_defaults": a.kw_defaults,
            "vararg": a.vararg.arg if a.vararg else None, "kwarg": a.kwarg.arg if a.kwarg else None}


# ----------------------------------------------------------------------------------------------
# 1. _validate_and_reformat_input
# ----------------------------------------------------------------------------------------------
ARG = {"X": "AX", "y": "AY"}
FLAGS = {"expect_y": "FExpectY", "enforce_binary_labels": "FEnforceBinary", "expect_sensitive_features": "FExpectSf"}
KW_ARGS = {"_KW_SENSITIVE_FEATURES": ("sensitive_features", "ASf"), "_KW_CONTROL_FEATURES": ("control_features", "ACf")}


def _input_guards(repo):
    tree = _parse(repo, F_INPUT)
    _imports(tree, "sklearn.utils.validation", "check_consistent_length", F_INPUT)
    _imports(tree, "fairlearn.utils._fixes", "check_array", F_INPUT)
    consts = {}
    for n in tree.body:
        if isinstance(n, ast.Assign) and len(n.targets) == 1 and _name(n.targets[0]) in KW_ARGS:
            if not (isinstance(n.value, ast.Constant) and n.value.value == KW_ARGS[n.targets[0].id][0]):
                _fail(f"{F_INPUT}: {n.targets[0].id} is not {KW_ARGS[n.targets[0].id][0]!r}", n)
            consts[n.targets[0].id] = True
    if set(consts) != set(KW_ARGS):
        _fail(f"{F_INPUT}: keyword-name constants not found")
    fn = _func(tree.body, "_validate_and_reformat_input", F_INPUT)
    s = _sig(fn)
    if s["pos"] != ["X", "y", "expect_y", "expect_sensitive_features", "enforce_binary_labels"] or s["kwonly"] \
            or s["vararg"] or s["kwarg"] is None or len(s["defaults"]) != 4:
        _fail(f"{F_INPUT}: unexpected signature of _validate_and_reformat_input", fn)
    dflt = {}
    for nm, d in zip(s["pos"][1:], s["defaults"]):
        if not isinstance(d, ast.Constant):
            _fail(f"{F_INPUT}: default of {nm} is not a literal", d)
        dflt[nm] = d.value
    if dflt["y"] is not None or any(type(dflt[k]) is not bool for k in FLAGS):
        _fail(f"{F_INPUT}: unexpected defaults {dflt}", fn)
    kwname = s["kwarg"]
    env = dict(ARG)                     # local name -> argument it stands for
    guards = []                         # (flags, gcond text)

    def arg_of(node, what):
        if _name(node) in env:
            return env[node.id]
        _fail(f"{F_INPUT}: {what}: `{ast.unparse(node)}` is not one of the arguments {sorted(env)}", node)

    def cond(test):
        t = _c(test)
        if isinstance(test, ast.Compare) and len(test.ops) == 1 and _name(test.left) in env:
            v = test.left.id
            if t == f"{v} is None":
                return f"GNone {env[v]}"
        if isinstance(test, ast.Compare) and isinstance(test.left, ast.Attribute) and _name(test.left.value) in env:
            v = test.left.value.id
            if t == f"{v}.size == 0":
                return f"GSizeZero {env[v]}"
        inner = _unparen_not(test)
        if inner is not None:
            for v in env:
                if _c(inner) == f"{v}.ndim == 1 or ({v}.ndim == 2 and {v}.shape[1] == 1)":
                    return f"GNotColumn {env[v]}"
            if isinstance(inner, ast.Call) and isinstance(inner.func, ast.Attribute) and inner.func.attr == "issubset" \
                    and len(inner.args) == 1 and not inner.keywords:
                recv, other = inner.func.value, inner.args[0]
                for v in env:
                    if _c(recv) == f"set(np.unique({v}))" and isinstance(other, ast.Call) and _name(other.func) == "set" \
                            and len(other.args) == 1 and isinstance(other.args[0], (ast.List, ast.Set, ast.Tuple)):
                        vals = sorted(_int(e, "label set") for e in other.args[0].elts)
                        return f"GNotSubset {env[v]} {_lst([_z(x) for x in vals])}"
        if isinstance(test, ast.BoolOp) and isinstance(test.op, ast.And) and len(test.values) == 2:
            for v in env:
                for w in env:
                    if _c(test.values[0]) == f"{v} is not None" and _c(test.values[1]) == f"{v}.shape[0] != {w}.shape[0]":
                        return f"GRowsDiffer {env[v]} {env[w]}"
        _fail(f"{F_INPUT}: guard condition `{ast.unparse(test)}` not recognised", test)

    def check_array_assign(st):
        """t = check_array(v | v.reshape(-1), ...)"""
        if not (isinstance(st, ast.Assign) and len(st.targets) == 1 and isinstance(st.targets[0], ast.Name)
                and isinstance(st.value, ast.Call) and _name(st.value.func) == "check_array" and st.value.args):
            return None
        a0 = st.value.args[0]
        if isinstance(a0, ast.Call) and isinstance(a0.func, ast.Attribute) and a0.func.attr == "reshape" \
                and _c(a0) == f"{_name(a0.func.value)}.reshape(-1)":
            a0 = a0.func.value
        if _name(a0) not in env:
            _fail(f"{F_INPUT}: check_array on `{ast.unparse(st.value.args[0])}`", st)
        if any(k.arg in ("ensure_min_samples", None) for k in st.value.keywords) or len(st.value.args) != 1:
            _fail(f"{F_INPUT}: check_array call with ensure_min_samples / extra positional arguments", st)
        return st.targets[0].id, env[a0.id]

    def given_block(st, flags):
        """if v is not None: check_consistent_length(a, b); <rebinding of v only>  [elif <flag>: raise]"""
        v = st.test.left.id
        body = st.body
        first = body[0]
        if not (isinstance(first, ast.Expr) and isinstance(first.value, ast.Call)
                and _name(first.value.func) == "check_consistent_length" and len(first.value.args) == 2
                and not first.value.keywords):
            _fail(f"{F_INPUT}: the block of `{v} is not None` does not start with check_consistent_length(a, b)", st)
        a, b = (arg_of(x, "check_consistent_length") for x in first.value.args)
        guards.append((flags, f"GLength {env[v]} {a} {b}"))
        for x in body[1:]:
            for sub in ast.walk(x):
                if isinstance(sub, (ast.Raise, ast.Return, ast.Delete, ast.Global, ast.Nonlocal, ast.Try,
                                    ast.While, ast.For, ast.With)):
                    _fail(f"{F_INPUT}: unexpected statement in the block of `{v} is not None`", sub)
                if isinstance(sub, ast.Name) and not isinstance(sub.ctx, ast.Load) and sub.id != v:
                    _fail(f"{F_INPUT}: the block of `{v} is not None` rebinds {sub.id}", sub)
            if not isinstance(x, (ast.Assign, ast.If)):
                _fail(f"{F_INPUT}: unexpected statement in the block of `{v} is not None`", x)
        if st.orelse:
            e = st.orelse
            if not (len(e) == 1 and isinstance(e[0], ast.If) and not e[0].orelse and _is_raise(e[0].body)):
                _fail(f"{F_INPUT}: the else branch of `{v} is not None` is not `elif <flag>: raise`", st)
            fl = flag_list(e[0].test)
            if fl is None:
                _fail(f"{F_INPUT}: elif test `{ast.unparse(e[0].test)}` is not a flag", e[0])
            guards.append((flags + fl, f"GAbsent {env[v]}"))

    def flag_list(test):
        if _name(test) in FLAGS:
            return [FLAGS[test.id]]
        if isinstance(test, ast.BoolOp) and isinstance(test.op, ast.And) and all(_name(x) in FLAGS for x in test.values):
            return [FLAGS[x.id] for x in test.values]
        return None

    def walk(stmts, flags):
        for st in stmts:
            # if <flags>:  nested guards
            if isinstance(st, ast.If) and flag_list(st.test) is not None and not st.orelse:
                walk(st.body, flags + flag_list(st.test))
                continue
            # if [<flags> and] <condition>: raise
            if isinstance(st, ast.If) and _is_raise(st.body) and not st.orelse:
                test, fl = st.test, []
                if isinstance(test, ast.BoolOp) and isinstance(test.op, ast.And):
                    k = 0
                    while k < len(test.values) - 1 and _name(test.values[k]) in FLAGS:
                        fl.append(FLAGS[test.values[k].id])
                        k += 1
                    rest = test.values[k:]
                    test = rest[0] if len(rest) == 1 else ast.BoolOp(op=ast.And(), values=rest)
                guards.append((flags + fl, cond(test)))
                continue
            # if v is not None: check_consistent_length ...
            if isinstance(st, ast.If) and isinstance(st.test, ast.Compare) and _name(st.test.left) in env \
                    and _c(st.test) == f"{st.test.left.id} is not None" and st.body \
                    and isinstance(st.body[0], ast.Expr):
                given_block(st, flags)
                continue
            ca = check_array_assign(st)
            if ca is not None:
                guards.append((flags, f"GCheckArray {ca[1]}"))
                env[ca[0]] = ca[1]
                continue
            t = _c(st)
            # v = np.asarray(v)
            if isinstance(st, ast.Assign) and len(st.targets) == 1 and _name(st.targets[0]) in env \
                    and t == f"{st.targets[0].id} = np.asarray({st.targets[0].id})":
                continue
            # name = kwargs.get(_KW_...)
            if isinstance(st, ast.Assign) and len(st.targets) == 1 and isinstance(st.targets[0], ast.Name):
                hit = [k for k in KW_ARGS if t == f"{st.targets[0].id} = {kwname}.get({k})"]
                if hit:
                    if flags:
                        _fail(f"{F_INPUT}: keyword read under a flag", st)
                    env[st.targets[0].id] = KW_ARGS[hit[0]][1]
                    continue
            # if isinstance(X, pd.DataFrame): result_X = pd.DataFrame(result_X)
            if isinstance(st, ast.If) and not st.orelse and len(st.body) == 1 and isinstance(st.body[0], ast.Assign) \
                    and len(st.body[0].targets) == 1 and _name(st.body[0].targets[0]) in env:
                r = st.body[0].targets[0].id
                if env[r] == "AX" and _c(st.body[0]) == f"{r} = pd.DataFrame({r})" and _c(st.test).startswith("isinstance("):
                    continue
            # the result: Series of y, return
            if isinstance(st, ast.If) and isinstance(st.test, ast.Compare) and _name(st.test.left) in env \
                    and _c(st.test) == f"{st.test.left.id} is not None" and st.orelse \
                    and all(isinstance(x, ast.Assign) and len(x.targets) == 1 and _name(x.targets[0]) not in env
                            and _name(x.targets[0]) is not None for x in st.body + st.orelse):
                continue
            if isinstance(st, ast.Return) and not flags and st is stmts[-1]:
                continue
            _fail(f"{F_INPUT}: statement `{t.splitlines()[0]}` not recognised", st)

    walk(_strip_doc(fn.body), [])
    text = _lst([f"mkGuard {_lst(fl)} ({g})" for fl, g in guards])
    return text, dflt


def _call_src(fn, dflt, where):
    """the call of _validate_and_reformat_input in a caller; it has to be a top-level statement"""
    s = _sig(fn)
    if s["pos"][:3] != ["self", "X", "y"] or len(s["pos"]) != 3 or s["vararg"] or s["defaults"]:
        _fail(f"{where}: unexpected positional signature {s['pos']}", fn)
    body = _strip_doc(fn.body)
    calls = [(i, st) for i, st in enumerate(body) if isinstance(st, ast.Assign) and isinstance(st.value, ast.Call)
             and _name(st.value.func) == "_validate_and_reformat_input"]
    total = sum(1 for n in ast.walk(fn) if isinstance(n, ast.Call) and _name(n.func) == "_validate_and_reformat_input")
    if len(calls) != 1 or total != 1:
        _fail(f"{where}: not exactly one top-level call of _validate_and_reformat_input", fn)
    idx, st = calls[0]
    call = st.value
    kws = {}
    for k in call.keywords:
        if k.arg is None or k.arg in kws:
            _fail(f"{where}: ** or repeated keyword in the validation call", call)
        kws[k.arg] = k.value
    pos = [_name(a) for a in call.args]
    if len(pos) == 1 and "y" in kws:
        pos.append(_name(kws.pop("y")))
    xy = pos == ["X", "y"]
    # nothing may rebind X / y / the features before the call
    for prev in body[:idx]:
        for sub in ast.walk(prev):
            if isinstance(sub, ast.Name) and not isinstance(sub.ctx, ast.Load) \
                    and sub.id in ("X", "y", "sensitive_features", "control_features", s["kwarg"]):
                _fail(f"{where}: {sub.id} is rebound before the validation call", sub)

    def lit(name):
        if name in kws:
            v = kws.pop(name)
            if not (isinstance(v, ast.Constant) and type(v.value) is bool):
                _fail(f"{where}: {name}= is not a boolean literal", v)
            return v.value
        return dflt[name]

    expect_y, enforce, expect_sf = lit("expect_y"), lit("enforce_binary_labels"), lit("expect_sensitive_features")
    sf = kws.pop("sensitive_features", None)
    kwonly = dict(zip(s["kwonly"], s["kw_defaults"]))
    sf_own = _name(sf) == "sensitive_features" and "sensitive_features" in kwonly and kwonly["sensitive_features"] is None
    cf = kws.pop("control_features", None)
    if kws:
        _fail(f"{where}: unexpected keywords {sorted(kws)} in the validation call", call)
    if cf is not None:
        d = kwonly.get("control_features", False)
        if not (_name(cf) == "control_features" and isinstance(d, ast.Constant) and d.value is None):
            _fail(f"{where}: control_features= is not the caller's own optional keyword", cf)
        cfp = "CfOwn"
    elif "control_features" in kwonly or s["kwarg"]:
        cfp = "CfNotPassed"
    else:
        cfp = "CfNotAccepted"
    return f"(mkCall {_b(xy)} {_b(expect_y)} {_b(enforce)} {_b(expect_sf)} {_b(sf_own)} {cfp})", idx


MOMENTS = [("DemographicParity", F_PARITY), ("TruePositiveRateParity", F_PARITY), ("FalsePositiveRateParity", F_PARITY),
           ("EqualizedOdds", F_PARITY), ("ErrorRateParity", F_PARITY), ("ErrorRate", F_ERR),
           ("BoundedGroupLoss", F_LOSS), ("MeanLoss", F_LOSS)]


def _load_calls(repo, dflt):
    out = []
    trees = {}
    for name, rel in MOMENTS:
        tree = trees.setdefault(rel, _parse(repo, rel))
        cls = _cls(tree, name, rel)
        # the class that defines load_data: itself, or its single base in the same module
        owner = cls
        hops = 0
        while not any(isinstance(n, ast.FunctionDef) and n.name == "load_data" for n in owner.body):
            if len(owner.bases) != 1 or _name(owner.bases[0]) is None or hops > 3:
                _fail(f"{rel}: load_data of {name} not found", cls)
            owner = _cls(tree, owner.bases[0].id, rel)
            hops += 1
        fn = _func(owner.body, "load_data", f"{rel}:{owner.name}")
        text, idx = _call_src(fn, dflt, f"{rel}:{owner.name}.load_data")
        if idx != 0:
            _fail(f"{rel}:{owner.name}.load_data: the validation call is not the first statement", fn)
        out.append(f"({name}, {text})")
    return _lst(out)


def _to_call(repo, dflt):
    tree = _parse(repo, F_TO)
    fn = _func(_cls(tree, "ThresholdOptimizer", F_TO).body, "fit", F_TO)
    text, _ = _call_src(fn, dflt, f"{F_TO}:ThresholdOptimizer.fit")     # position: t_tables
    return text


# ----------------------------------------------------------------------------------------------
# 2. UtilityParity.__init__
# ----------------------------------------------------------------------------------------------
BVAR = {"difference_bound": "BDiff", "ratio_bound": "BRatio"}


def _bounds(repo):
    tree = _parse(repo, F_PARITY)
    cls = _cls(tree, "UtilityParity", F_PARITY)
    fn = _func(cls.body, "__init__", F_PARITY)
    s = _sig(fn)
    if s["pos"] != ["self"] or s["kwonly"][:2] != ["difference_bound", "ratio_bound"] or s["vararg"] or s["kwarg"]:
        _fail(f"{F_PARITY}: unexpected signature of UtilityParity.__init__", fn)
    for d in s["kw_defaults"][:2]:
        if not (isinstance(d, ast.Constant) and d.value is None):
            _fail(f"{F_PARITY}: a bound does not default to None", fn)
    # subclasses of UtilityParity in the module keep this constructor
    for n in tree.body:
        if isinstance(n, ast.ClassDef) and n is not cls and any(_name(b) == "UtilityParity" for b in n.bases):
            if any(isinstance(m, ast.FunctionDef) and m.name in ("__init__", "__new__") for m in n.body):
                _fail(f"{F_PARITY}: {n.name} overrides the constructor", n)
    body = _strip_doc(fn.body)
    if len(body) != 2 or not _is_super_init(body[0]) or not isinstance(body[1], ast.If):
        _fail(f"{F_PARITY}: UtilityParity.__init__ is not `super().__init__(); if ...`", fn)

    def act(stmts):
        if _is_raise(stmts) and len(stmts) == 1:
            return "BRaise"
        guards = [x for x in stmts if isinstance(x, ast.If)]
        rest = [x for x in stmts if not isinstance(x, ast.If)]
        if not _self_assign_only(rest):
            _fail(f"{F_PARITY}: branch body is not attribute assignments", stmts[0])
        if not guards:
            return "BOk"
        if len(guards) != 1 or guards[0].orelse or not _is_raise(guards[0].body):
            _fail(f"{F_PARITY}: branch body has an unrecognised if", guards[0])
        inner = _unparen_not(guards[0].test)
        var = _name(inner.comparators[0]) if isinstance(inner, ast.Compare) and inner.comparators else None
        if var not in BVAR:
            _fail(f"{F_PARITY}: range test is not on a bound", guards[0])
        return f"(BRange {BVAR[var]} {_range_test(guards[0].test, var, F_PARITY)})"

    branches = []
    node = body[1]
    els = "BOk"
    while True:
        vals = node.test.values if isinstance(node.test, ast.BoolOp) and isinstance(node.test.op, ast.And) else [node.test]
        tests = []
        for v in vals:
            nm, tag = _ntest(v, BVAR, F_PARITY)
            tests.append(f"({BVAR[nm]}, {tag})")
        branches.append(f"mkBranch {_lst(tests)} {act(node.body)}")
        if len(node.orelse) == 1 and isinstance(node.orelse[0], ast.If):
            node = node.orelse[0]
            continue
        if node.orelse:
            els = act(node.orelse)
        break
    return f"mkBoundsSrc {_lst(branches)} {els}"


# ----------------------------------------------------------------------------------------------
# 3. ErrorRate.__init__
# ----------------------------------------------------------------------------------------------
KEYS = {"fp": 0, "fn": 1}


def _key(node, what):
    if isinstance(node, ast.Constant) and isinstance(node.value, str):
        return KEYS.get(node.value, 2)
    _fail(f"{what}: key is not a string literal", node)


def _costs(repo):
    tree = _parse(repo, F_ERR)
    fn = _func(_cls(tree, "ErrorRate", F_ERR).body, "__init__", F_ERR)
    s = _sig(fn)
    if s["pos"] != ["self"] or s["kwonly"] != ["costs"] or s["vararg"] or s["kwarg"] \
            or not (isinstance(s["kw_defaults"][0], ast.Constant) and s["kw_defaults"][0].value is None):
        _fail(f"{F_ERR}: unexpected signature of ErrorRate.__init__", fn)
    body = _strip_doc(fn.body)
    if len(body) != 2 or not _is_super_init(body[0]) or not isinstance(body[1], ast.If):
        _fail(f"{F_ERR}: ErrorRate.__init__ is not `super().__init__(); if ...`", fn)
    top = body[1]
    _, first = _ntest(top.test, {"costs"}, F_ERR)
    if not _self_assign_only(top.body):
        _fail(f"{F_ERR}: first branch is not attribute assignments", top)
    if not (len(top.orelse) == 1 and isinstance(top.orelse[0], ast.If)):
        _fail(f"{F_ERR}: missing elif", top)
    el = top.orelse[0]
    if not _self_assign_only(el.body) or not _is_raise(el.orelse) or len(el.orelse) != 1:
        _fail(f"{F_ERR}: the elif does not accept / its else does not raise", el)

    def term(node):
        if isinstance(node, ast.Subscript) and _name(node.value) == "costs":
            return f"(CKey {_z(_key(node.slice, F_ERR))})"
        if isinstance(node, ast.BinOp) and isinstance(node.op, ast.Add) \
                and all(isinstance(x, ast.Subscript) and _name(x.value) == "costs" for x in (node.left, node.right)):
            return f"(CSum {_z(_key(node.left.slice, F_ERR))} {_z(_key(node.right.slice, F_ERR))})"
        _fail(f"{F_ERR}: term `{ast.unparse(node)}` not recognised", node)

    vals = el.test.values if isinstance(el.test, ast.BoolOp) and isinstance(el.test.op, ast.And) else [el.test]
    conj = []
    for v in vals:
        if _c(v) == "isinstance(costs, dict)":
            conj.append("CIsDict")
        elif isinstance(v, ast.Compare) and len(v.ops) == 1 and _c(v.left) == "costs.keys()" \
                and isinstance(v.ops[0], ast.Eq) and isinstance(v.comparators[0], ast.Set):
            ks = sorted(_key(e, F_ERR) for e in v.comparators[0].elts)
            conj.append(f"CKeysAre {_lst([_z(k) for k in ks])}")
        elif isinstance(v, ast.Compare) and len(v.ops) == 1:
            conj.append(f"CCmp {term(v.left)} {_cmp(v.ops[0], F_ERR)} {_q(_num(v.comparators[0], F_ERR))}")
        else:
            _fail(f"{F_ERR}: conjunct `{ast.unparse(v)}` not recognised", v)
    return f"mkCostsSrc {first} {_lst(conj)}"


# ----------------------------------------------------------------------------------------------
# 4. GridSearch.__init__
# ----------------------------------------------------------------------------------------------
def _gs(repo):
    tree = _parse(repo, F_GS)
    fn = _func(_cls(tree, "GridSearch", F_GS).body, "__init__", F_GS)
    s = _sig(fn)
    for need in ("constraints", "selection_rule", "constraint_weight"):
        if need not in s["pos"]:
            _fail(f"{F_GS}: GridSearch.__init__ has no parameter {need}", fn)
    steps = []
    for st in _strip_doc(fn.body):
        if isinstance(st, ast.Assign) and _self_assign_only([st]):
            continue
        if isinstance(st, ast.If) and _c(st.test) == "not isinstance(constraints, Moment)" and not st.orelse \
                and _is_raise(st.body):
            steps.append("GsMoment")
            continue
        if isinstance(st, ast.If) and _c(st.test) == "selection_rule == TRADEOFF_OPTIMIZATION":
            if not (len(st.body) == 1 and isinstance(st.body[0], ast.If) and not st.body[0].orelse
                    and _is_raise(st.body[0].body) and _is_raise(st.orelse) and len(st.orelse) == 1):
                _fail(f"{F_GS}: selection-rule branch not recognised", st)
            steps.append(f"GsRule {_range_test(st.body[0].test, 'constraint_weight', F_GS)}")
            continue
        _fail(f"{F_GS}: statement `{_c(st).splitlines()[0]}` of GridSearch.__init__ not recognised", st)
    return _lst(steps)


# ----------------------------------------------------------------------------------------------
# 5. the degenerate-label guard
# ----------------------------------------------------------------------------------------------
CNT = ["NAll", "NPos", "NNeg"]


def _degenerate(repo):
    tree = _parse(repo, F_CURVE)
    gc = _func(tree.body, "_get_counts", F_CURVE)
    if _sig(gc)["pos"] != ["labels"]:
        _fail(f"{F_CURVE}: unexpected signature of _get_counts", gc)
    body = _strip_doc(gc.body)
    if len(body) != 4 or not isinstance(body[3], ast.Return) or not isinstance(body[3].value, ast.Tuple) \
            or len(body[3].value.elts) != 3 or any(_name(e) is None for e in body[3].value.elts):
        _fail(f"{F_CURVE}: _get_counts is not three assignments and a return of three names", gc)
    order = [e.id for e in body[3].value.elts]
    if len(set(order)) != 3:
        _fail(f"{F_CURVE}: _get_counts returns a name twice", gc)
    cnt = dict(zip(order, CNT))
    defs = {}
    seen = []
    for st in body[:3]:
        if not (isinstance(st, ast.Assign) and len(st.targets) == 1 and _name(st.targets[0]) in cnt
                and st.targets[0].id not in defs):
            _fail(f"{F_CURVE}: statement of _get_counts not recognised", st)
        v = st.value
        if _c(v) == "len(labels)":
            d = "DLen"
        elif _c(v) == "sum(labels)":
            d = "DSum"
        elif isinstance(v, ast.BinOp) and isinstance(v.op, ast.Sub) and _name(v.left) in seen and _name(v.right) in seen:
            d = f"(DSub {cnt[v.left.id]} {cnt[v.right.id]})"
        else:
            _fail(f"{F_CURVE}: count `{ast.unparse(v)}` not recognised", st)
        defs[st.targets[0].id] = d
        seen.append(st.targets[0].id)
    if seen != order:
        _fail(f"{F_CURVE}: _get_counts defines its counts in another order than it returns them", gc)
    # _get_scores_labels_and_counts: hands the three counts through, computed on the labels column
    gs = _func(tree.body, "_get_scores_labels_and_counts", F_CURVE)
    want = ["data_sorted = data.sort_values(ascending=False, by=SCORE_KEY)", "scores = list(data_sorted[SCORE_KEY])",
            "labels = list(data_sorted[LABEL_KEY])", "n, n_positive, n_negative = _get_counts(labels)",
            "return (scores, labels, n, n_positive, n_negative)"]
    if [_c(x) for x in _strip_doc(gs.body)] != want or _sig(gs)["pos"] != ["data"]:
        _fail(f"{F_CURVE}: _get_scores_labels_and_counts differs from the recognised text", gs)
    tp = _func(tree.body, "_calculate_tradeoff_points", F_CURVE)
    body = _strip_doc(tp.body)
    s0 = body[0]
    if not (isinstance(s0, ast.Assign) and len(s0.targets) == 1 and isinstance(s0.targets[0], ast.Tuple)
            and len(s0.targets[0].elts) == 5 and all(_name(e) for e in s0.targets[0].elts)
            and _c(s0.value) == "_get_scores_labels_and_counts(data)" and _sig(tp)["pos"][0] == "data"):
        _fail(f"{F_CURVE}: _calculate_tradeoff_points does not start by unpacking the counts", tp)
    names = [e.id for e in s0.targets[0].elts]
    if len(set(names)) != 5:
        _fail(f"{F_CURVE}: a name is unpacked twice", s0)
    local = dict(zip(names[2:], CNT))
    # the guard: the first if whose body only raises
    guard_idx = next((i for i, st in enumerate(body) if isinstance(st, ast.If) and _is_raise(st.body)
                      and not st.orelse), None)
    if guard_idx is None:
        return f"mkDegSrc {defs[order[0]]} {defs[order[1]]} {defs[order[2]]} false []"
    g = body[guard_idx]
    vals = g.test.values if isinstance(g.test, ast.BoolOp) and isinstance(g.test.op, ast.Or) else [g.test]
    disj = []
    for v in vals:
        if not (isinstance(v, ast.Compare) and len(v.ops) == 1 and _name(v.left) in local):
            _fail(f"{F_CURVE}: disjunct `{ast.unparse(v)}` of the degenerate-label guard not recognised", v)
        r = v.comparators[0]
        operand = f"(OCnt {local[r.id]})" if _name(r) in local else f"(OConst {_z(_int(r, F_CURVE))})"
        disj.append(f"({local[v.left.id]}, {_cmp(v.ops[0], F_CURVE)}, {operand})")
    return (f"mkDegSrc {defs[order[0]]} {defs[order[1]]} {defs[order[2]]} {_b(guard_idx == 1)} {_lst(disj)}")


# ----------------------------------------------------------------------------------------------
# 6. MetricFrame
# ----------------------------------------------------------------------------------------------
def _group_feature_checks_series_name(repo):
    """GroupFeature.__init__: name None and a Series whose name is not None and not a str -> raise"""
    tree = _parse(repo, F_GF)
    fn = _func(_cls(tree, "GroupFeature", F_GF).body, "__init__", F_GF)
    if _sig(fn)["pos"] != ["self", "base_name", "feature_vector", "index", "name"]:
        _fail(f"{F_GF}: unexpected signature of GroupFeature.__init__", fn)
    for st in _strip_doc(fn.body):
        if isinstance(st, ast.Assign) and _self_assign_only([st]):
            continue
        if isinstance(st, ast.If) and _c(st.test) == "name is not None" and _self_assign_only(st.body) \
                and len(st.orelse) == 1 and isinstance(st.orelse[0], ast.If):
            e = st.orelse[0]
            if _c(e.test) == "isinstance(feature_vector, pd.Series)" and not e.orelse and len(e.body) == 1 \
                    and isinstance(e.body[0], ast.If) and _c(e.body[0].test) == "feature_vector.name is not None" \
                    and not e.body[0].orelse and len(e.body[0].body) == 1 and isinstance(e.body[0].body[0], ast.If):
                i = e.body[0].body[0]
                if _c(i.test) == "isinstance(feature_vector.name, str)" and _self_assign_only(i.body) \
                        and _is_raise(i.orelse):
                    return True
            return False
        _fail(f"{F_GF}: statement `{_c(st).splitlines()[0]}` of GroupFeature.__init__ not recognised", st)
    return False


def _pf(repo, tree, cls):
    gf_checks = _group_feature_checks_series_name(repo)
    fn = _func(cls.body, "_process_features", F_MF)
    if _sig(fn)["pos"] != ["self", "base_name", "features", "sample_array"]:
        _fail(f"{F_MF}: unexpected signature of _process_features", fn)
    body = _strip_doc(fn.body)
    if len(body) != 3 or _c(body[0]) != "result = []" or _c(body[2]) != "return result" or not isinstance(body[1], ast.If):
        _fail(f"{F_MF}: _process_features is not `result = []; if ...; return result`", fn)

    def block(stmts, maybe_series, pre=()):
        """checks of one column: [..] ; ends with result.append(GroupFeature(base_name, v, idx, None))"""
        checks = list(pre)
        checked = None
        appended = False
        for st in stmts:
            if appended:
                _fail(f"{F_MF}: statement after result.append in _process_features", st)
            if isinstance(st, ast.Expr) and isinstance(st.value, ast.Call) \
                    and _name(st.value.func) == "check_consistent_length":
                a = [_name(x) for x in st.value.args]
                if len(a) != 2 or st.value.keywords or "sample_array" not in a or a[0] == a[1] or None in a:
                    _fail(f"{F_MF}: check_consistent_length is not (column, sample_array)", st)
                checked = a[0] if a[1] == "sample_array" else a[1]
                checks.append(("PLen", checked))
                continue
            if isinstance(st, ast.If) and not st.orelse and _is_raise(st.body):
                inner = _unparen_not(st.test)
                if inner is not None and isinstance(inner, ast.Call) and _name(inner.func) == "isinstance" \
                        and len(inner.args) == 2 and _name(inner.args[1]) == "str" and _name(inner.args[0]):
                    checks.append(("PNameStr", inner.args[0].id))
                    continue
                _fail(f"{F_MF}: raising test `{ast.unparse(st.test)}` of _process_features not recognised", st)
            if isinstance(st, ast.Expr) and _c(st.value).startswith("result.append(GroupFeature("):
                call = st.value.args[0]
                if len(call.args) != 4 or call.keywords or _c(call.args[0]) != "base_name" \
                        or _c(call.args[3]) != "None" or _name(call.args[1]) is None:
                    _fail(f"{F_MF}: GroupFeature call not recognised", st)
                vec = call.args[1].id
                # the length check has to be on the vector that is stored
                checks = [c for c in checks if not (c[0] == "PLen" and c[1] != vec)]
                if maybe_series:
                    named = [c for c in checks if c[0] == "PNameStr"]
                    if named and not all(c[1] == name_var.get(vec) for c in named):
                        _fail(f"{F_MF}: the name test is not on the name of the stored column", st)
                    if not named and gf_checks:
                        checks.append(("PNameStr", None))
                appended = True
                continue
            if isinstance(st, ast.Assign) and len(st.targets) == 1 and isinstance(st.targets[0], ast.Name):
                t = st.targets[0].id
                if t in ("sample_array", "result", "base_name") or t == checked:
                    _fail(f"{F_MF}: {t} is rebound in _process_features", st)
                # col_name = <frame>.columns[i] ; column = <frame>.iloc[:, i]
                if isinstance(st.value, ast.Subscript) and _c(st.value).endswith(".columns[i]"):
                    col_names[t] = _c(st.value)[:-len(".columns[i]")]
                if isinstance(st.value, ast.Subscript) and _c(st.value).endswith(".iloc[:, i]"):
                    fr = _c(st.value)[:-len(".iloc[:, i]")]
                    name_var[t] = next((k for k, v in col_names.items() if v == fr), None)
                continue
            if isinstance(st, ast.Assert):
                continue
            _fail(f"{F_MF}: statement `{_c(st).splitlines()[0]}` of _process_features not recognised", st)
        if not appended:
            _fail(f"{F_MF}: a branch of _process_features stores no GroupFeature", stmts[0])
        return [c[0] for c in checks]

    col_names, name_var = {}, {}

    def per_column(stmts, frame, maybe_series):
        """for i in range(len(<frame>.columns)) | range(<frame>.shape[1]): <block>"""
        if not (len(stmts) >= 1 and isinstance(stmts[-1], ast.For) and not stmts[-1].orelse
                and _name(stmts[-1].target) == "i"
                and _c(stmts[-1].iter) in (f"range(len({frame}.columns))", f"range({frame}.shape[1])")):
            _fail(f"{F_MF}: per-column loop over {frame} not recognised", stmts[0])
        return block(stmts[-1].body, maybe_series)

    out = {}
    node = body[1]
    # Series
    if _c(node.test) != "isinstance(features, pd.Series)":
        _fail(f"{F_MF}: first branch of _process_features is not the Series test", node)
    name_var["features"] = None
    out["series"] = block(node.body, True)
    # DataFrame
    node = node.orelse[0] if len(node.orelse) == 1 and isinstance(node.orelse[0], ast.If) else _fail("elif missing", node)
    if _c(node.test) != "isinstance(features, pd.DataFrame)":
        _fail(f"{F_MF}: second branch is not the DataFrame test", node)
    if len(node.body) != 1:
        _fail(f"{F_MF}: DataFrame branch is not a single loop", node)
    out["frame"] = per_column(node.body, "features", True)
    # list
    node = node.orelse[0] if len(node.orelse) == 1 and isinstance(node.orelse[0], ast.If) else _fail("elif missing", node)
    if _c(node.test) != "isinstance(features, list)":
        _fail(f"{F_MF}: third branch is not the list test", node)
    if not (len(node.body) == 1 and isinstance(node.body[0], ast.If) and _c(node.body[0].test) == "np.isscalar(features[0])"
            and _is_raise(node.body[0].orelse)):
        _fail(f"{F_MF}: list branch is not `if np.isscalar(features[0]): .. else: raise`", node)
    out["list"] = block(node.body[0].body, False, pre=[("PNonEmpty", None), ("PScalar", None)])
    # dict
    node = node.orelse[0] if len(node.orelse) == 1 and isinstance(node.orelse[0], ast.If) else _fail("elif missing", node)
    if _c(node.test) != "isinstance(features, dict)":
        _fail(f"{F_MF}: fourth branch is not the dict test", node)
    if not (len(node.body) == 2 and isinstance(node.body[0], ast.Try) and len(node.body[0].body) == 1
            and _c(node.body[0].body[0]) == "df = pd.DataFrame.from_dict(features)" and not node.body[0].orelse
            and not node.body[0].finalbody and all(_is_raise(h.body) for h in node.body[0].handlers)):
        _fail(f"{F_MF}: dict branch does not start with the guarded DataFrame.from_dict", node)
    out["dict"] = per_column(node.body[1:], "df", True)
    # anything else: ndarray
    rest = node.orelse
    if not (len(rest) == 3 and _c(rest[0]) == "f_arr = np.asarray(features, dtype=object)"
            and isinstance(rest[1], ast.If) and isinstance(rest[2], ast.If)):
        _fail(f"{F_MF}: array branch of _process_features not recognised", node)
    sq = rest[1]
    if not (_c(sq.test) == "f_arr.ndim != 2" and [_c(x) for x in sq.body] == ["f_arr = np.atleast_1d(np.squeeze(f_arr))"]
            and len(sq.orelse) == 1 and isinstance(sq.orelse[0], ast.If) and _c(sq.orelse[0].test) == "f_arr.shape[1] == 1"
            and [_c(x) for x in sq.orelse[0].body] == ["f_arr = f_arr[:, 0]"] and not sq.orelse[0].orelse):
        _fail(f"{F_MF}: squeezing of the array not recognised", sq)
    d = rest[2]
    if not (_c(d.test) == "len(f_arr.shape) == 1" and len(d.orelse) == 1 and isinstance(d.orelse[0], ast.If)
            and _c(d.orelse[0].test) == "len(f_arr.shape) == 2" and _is_raise(d.orelse[0].orelse)):
        _fail(f"{F_MF}: dispatch on the array's dimension not recognised", d)
    out["array1"] = block(d.body, False)
    out["array2"] = per_column(d.orelse[0].body, "f_arr", False)
    return "mkPfSrc " + " ".join(_lst(out[k]) for k in ("series", "frame", "list", "dict", "array1", "array2"))


T_GET_ANNOTATED = [
    'if sample_params is not None and (not isinstance(sample_params, dict)):\n    raise ValueError',
    'annotated_functions = {}', 'sample_params = sample_params or {}',
    'if not isinstance(metric, dict):\n    self._user_supplied_callable = True\n    annotated_metric_function = '
    'self._construct_annotated_metric_function(all_data=all_data, func=metric, name=None, sample_params=sample_params)\n'
    '    annotated_functions[annotated_metric_function.name] = annotated_metric_function\n    return annotated_functions',
    'self._user_supplied_callable = False', 'sample_params_keys = set(sample_params.keys())',
    'metric_functions_keys = set(metric.keys())',
    'if not sample_params_keys.issubset(metric_functions_keys):\n    raise ValueError',
    'for name, metric_function in metric.items():\n    associated_sample_params = sample_params.get(name, {})\n'
    '    annotated_metric_function = self._construct_annotated_metric_function(all_data=all_data, func=metric_function, '
    'name=name, sample_params=associated_sample_params)\n'
    '    annotated_functions[annotated_metric_function.name] = annotated_metric_function',
    'return annotated_functions']
T_CONSTRUCT = [
    'if not isinstance(sample_params, dict):\n    raise ValueError', 'kw_argument_mapping = {}',
    "for param_name, param_value in sample_params.items():\n    if param_value is None:\n        continue\n"
    "    col_name = f'{name}_{param_name}'\n    all_data[col_name] = COLUMN_VALUE\n"
    "    kw_argument_mapping[param_name] = col_name",
    "return AnnotatedMetricFunction(func=func, kw_argument_mapping=kw_argument_mapping, name=name, "
    "positional_argument_names=['y_true', 'y_pred'])"]


def _sample_param_via(cls):
    """how a sample parameter becomes a column of all_data: both functions are compared with their recognised
    text (every metric's parameters reach _construct_annotated_metric_function together with all_data; every
    parameter that is not None is assigned to a column), only the value assigned to the column is decoded"""
    g = _func(cls.body, "_get_annotated_metric_functions", F_MF)
    if _sig(g)["pos"] != ["self", "metric", "sample_params", "all_data"] or _sig(g)["kwonly"]:
        _fail(f"{F_MF}: unexpected signature of _get_annotated_metric_functions", g)
    if [_c(x) for x in _strip_doc(g.body)] != T_GET_ANNOTATED:
        _fail(f"{F_MF}: _get_annotated_metric_functions differs from the recognised text", g)
    f = _func(cls.body, "_construct_annotated_metric_function", F_MF)
    if _sig(f)["pos"] != ["self", "func", "name", "sample_params", "all_data"] or _sig(f)["kwonly"]:
        _fail(f"{F_MF}: unexpected signature of _construct_annotated_metric_function", f)
    body = copy.deepcopy(_strip_doc(f.body))
    if not (len(body) == 4 and isinstance(body[2], ast.For) and len(body[2].body) == 4
            and isinstance(body[2].body[2], ast.Assign)):
        _fail(f"{F_MF}: _construct_annotated_metric_function differs from the recognised shape", f)
    a = body[2].body[2]
    value = a.value
    a.value = ast.Name(id="COLUMN_VALUE", ctx=ast.Load())
    if [_c(x) for x in body] != T_CONSTRUCT:
        _fail(f"{F_MF}: _construct_annotated_metric_function differs from the recognised text", f)
    rhs = _c(value)
    if rhs == "np.asarray(param_value)":
        return "ViaNdarray"
    if isinstance(value, ast.Call) and _c(value.func) == "pd.Series" and value.args and _c(value.args[0]) == "param_value":
        return "ViaSeries"
    _fail(f"{F_MF}: column value `{rhs}` of a sample parameter not recognised", a)


def _mf(repo):
    tree = _parse(repo, F_MF)
    _imports(tree, "sklearn.utils", "check_consistent_length", F_MF)
    cls = _cls(tree, "MetricFrame", F_MF)
    pf = _pf(repo, tree, cls)
    via = _sample_param_via(cls)
    fn = _func(cls.body, "__init__", F_MF)
    s = _sig(fn)
    if s["pos"] != ["self"] or s["vararg"] or s["kwarg"] or not {"y_true", "y_pred", "sensitive_features",
                                                                "control_features", "sample_params", "metrics"} <= set(s["kwonly"]):
        _fail(f"{F_MF}: unexpected signature of MetricFrame.__init__", fn)
    body = _strip_doc(fn.body)
    alias = {}                  # local -> y_true | y_pred
    steps = []
    frame_ok = False
    neutral = {"self._sf_names = [x.name_ for x in sf_list]", "cf_list = None", "self._cf_names = None",
               "for sf in sf_list:\n    all_data[sf.name_] = list(sf.raw_feature_)",
               "if cf_list is not None:\n    for cf in cf_list:\n        all_data[cf.name_] = list(cf.raw_feature_)"}
    dup = ["nameset = set()", "namelist = self._sf_names",
           "if self._cf_names:\n    namelist = namelist + self._cf_names",
           "for name in namelist:\n    if name in nameset:\n        raise ValueError\n    nameset.add(name)"]
    i = 0
    while i < len(body):
        st = body[i]
        t = _c(st)
        if t == "self._result_cache = dict()":
            break                                      # from here on: t_bootstrap (C18)
        if isinstance(st, ast.Expr) and isinstance(st.value, ast.Call) and _name(st.value.func) == "check_consistent_length":
            a = sorted(_c(x) for x in st.value.args)
            if a != ["y_pred", "y_true"] or st.value.keywords:
                _fail(f"{F_MF}: check_consistent_length in __init__ is not on (y_true, y_pred)", st)
            steps.append("MLenTruePred")
        elif isinstance(st, ast.Assign) and len(st.targets) == 1 and _name(st.targets[0]) \
                and isinstance(st.value, ast.Call) and _name(st.value.func) == "_convert_to_ndarray_and_squeeze" \
                and len(st.value.args) == 1 and _name(st.value.args[0]) in ("y_true", "y_pred"):
            alias[st.targets[0].id] = st.value.args[0].id
        elif isinstance(st, ast.Assign) and _c(st.targets[0]) == "all_data":
            inv = {v: k for k, v in alias.items()}
            if set(inv) != {"y_true", "y_pred"} or \
                    t != f"all_data = pd.DataFrame.from_dict({{'y_true': list({inv['y_true']}), 'y_pred': list({inv['y_pred']})}})":
                _fail(f"{F_MF}: all_data is not built from y_true / y_pred", st)
            frame_ok = True
        elif t == "annotated_funcs = self._get_annotated_metric_functions(metrics, sample_params, all_data)":
            if not frame_ok:
                _fail(f"{F_MF}: sample parameters are processed before all_data exists", st)
            steps.append(f"MSampleParams {via}")
        elif isinstance(st, ast.Assign) and _c(st.targets[0]) == "sf_list":
            y = next((k for k, v in alias.items() if v == "y_true"), None)
            if t != f"sf_list = self._process_features('sensitive_feature_', sensitive_features, {y})":
                _fail(f"{F_MF}: sensitive features are not processed against y_true", st)
            steps.append("MSensitive")
        elif isinstance(st, ast.If) and _c(st.test) == "control_features is not None":
            y = next((k for k, v in alias.items() if v == "y_true"), None)
            if [_c(x) for x in st.body] != [f"cf_list = self._process_features('control_feature_', control_features, {y})",
                                            "self._cf_names = [x.name_ for x in cf_list]"] or st.orelse:
                _fail(f"{F_MF}: control features are not processed against y_true", st)
            steps.append("MControl")
        elif t in neutral:
            pass
        elif t == dup[0]:
            if [_c(x) for x in body[i:i + 4]] != dup:
                _fail(f"{F_MF}: duplicate-name loop not recognised", st)
            steps.append("MDuplicate")
            i += 3
        else:
            _fail(f"{F_MF}: statement `{t.splitlines()[0]}` of MetricFrame.__init__ not recognised", st)
        i += 1
    else:
        _fail(f"{F_MF}: end of the validation part of MetricFrame.__init__ not found", fn)
    for st in body[:i]:
        for n in ast.walk(st):
            if isinstance(n, ast.Name) and not isinstance(n.ctx, ast.Load) \
                    and n.id in ("y_true", "y_pred", "sensitive_features", "control_features", "sample_params"):
                _fail(f"{F_MF}: {n.id} is rebound in MetricFrame.__init__", n)
    return pf, _lst(steps)


# ----------------------------------------------------------------------------------------------
# 7. CorrelationRemover
# ----------------------------------------------------------------------------------------------
def _cr(repo):
    tree = _parse(repo, F_CR)
    cls = _cls(tree, "CorrelationRemover", F_CR)
    chk = _func(cls.body, "_check_sensitive_features_in_X", F_CR)
    if _sig(chk)["pos"] != ["self", "X"]:
        _fail(f"{F_CR}: unexpected signature of _check_sensitive_features_in_X", chk)
    body = _strip_doc(chk.body)
    if len(body) != 2 or not all(isinstance(x, ast.If) for x in body):
        _fail(f"{F_CR}: _check_sensitive_features_in_X is not two if statements", chk)

    def missing(st):
        if not (isinstance(st, ast.Assign) and len(st.targets) == 1 and _name(st.targets[0]) == "missing_columns"
                and isinstance(st.value, ast.ListComp) and len(st.value.generators) == 1):
            _fail(f"{F_CR}: missing_columns is not a list comprehension", st)
        g = st.value.generators[0]
        v = _name(g.target)
        if v is None or _name(st.value.elt) != v or g.is_async or len(g.ifs) != 1:
            _fail(f"{F_CR}: comprehension shape not recognised", st)
        over = _c(g.iter) == "self.sensitive_feature_ids"
        t = g.ifs[0]
        if not (isinstance(t, ast.Compare) and len(t.ops) == 1 and _name(t.left) == v
                and isinstance(t.ops[0], (ast.In, ast.NotIn))):
            _fail(f"{F_CR}: membership test not recognised", st)
        u = {"X.columns": "UColumns", "range(X.shape[1])": "URangeNCols"}.get(_c(t.comparators[0]))
        if u is None:
            _fail(f"{F_CR}: universe `{_c(t.comparators[0])}` not recognised", st)
        return f"(mkMissing {_b(over)} {'MNotIn' if isinstance(t.ops[0], ast.NotIn) else 'MIn'} {u})"

    first = body[0]
    if _c(first.test) != "isinstance(X, pd.DataFrame)" or len(first.body) != 1 or len(first.orelse) != 3:
        _fail(f"{F_CR}: container dispatch of _check_sensitive_features_in_X not recognised", first)
    o = first.orelse
    if not (isinstance(o[0], ast.Assign) and _c(o[0].targets[0]) == "X" and isinstance(o[0].value, ast.Call)
            and _name(o[0].value.func) == "validate_data" and [_c(a) for a in o[0].value.args] == ["self", "X"]
            and _c(o[1]) == "if X.ndim == 1:\n    return"):
        _fail(f"{F_CR}: array branch of _check_sensitive_features_in_X not recognised", first)
    frame, array = missing(first.body[0]), missing(o[2])
    r = body[1]
    if not (_is_raise(r.body) and not r.orelse and isinstance(r.test, ast.Compare) and len(r.test.ops) == 1
            and _c(r.test.left) == "len(missing_columns)"):
        _fail(f"{F_CR}: raising test of _check_sensitive_features_in_X not recognised", r)
    rt = f"({_cmp(r.test.ops[0], F_CR)}, {_z(_int(r.test.comparators[0], F_CR))})"
    fit = _func(cls.body, "fit", F_CR)
    if _sig(fit)["pos"][:2] != ["self", "X"]:
        _fail(f"{F_CR}: unexpected signature of fit", fit)
    fb = _strip_doc(fit.body)
    uses_x = [i for i, st in enumerate(fb) if any(isinstance(n, ast.Name) and n.id == "X" for n in ast.walk(st))]
    call_at = [i for i, st in enumerate(fb) if _c(st) == "self._check_sensitive_features_in_X(X)"]
    first_in_fit = bool(call_at) and bool(uses_x) and call_at[0] == uses_x[0] and not any(
        isinstance(n, (ast.Return, ast.Raise)) for st in fb[:call_at[0]] for n in ast.walk(st))
    val_at = [i for i, st in enumerate(fb) if isinstance(st, ast.Assign) and _c(st.targets[0]) == "X"
              and isinstance(st.value, ast.Call) and _name(st.value.func) == "validate_data"
              and [_c(a) for a in st.value.args] == ["self", "X"]
              and not any(k.arg in ("ensure_min_samples", None) for k in st.value.keywords)]
    validate_after = bool(val_at) and bool(call_at) and val_at[0] > call_at[0]
    return f"mkCrSrc {_b(first_in_fit)} {_b(validate_after)} {frame} {array} {rt}"


# ----------------------------------------------------------------------------------------------
# 8. check_is_fitted
# ----------------------------------------------------------------------------------------------
METHS = [("predict", "MPredict"), ("predict_proba", "MPredictProba"), ("_pmf_predict", "MPmfPredict"),
         ("_raw_predict", "MRawPredict"), ("transform", "MTransform")]
# other method names that would be prediction entry points: refuse rather than ignore
OTHER_ENTRY = {"decision_function", "predict_log_proba", "fit_predict", "inverse_transform", "score_samples"}
ESTIMATORS = [("EExpGrad", F_EG, "ExponentiatedGradient"), ("EGridSearch", F_GS, "GridSearch"),
              ("EThresholdOptimizer", F_TO, "ThresholdOptimizer"), ("EInterpolatedThresholder", F_IT, "InterpolatedThresholder"),
              ("ECorrelationRemover", F_CR, "CorrelationRemover"),
              ("EAdversarialClassifier", F_ADV, "AdversarialFairnessClassifier"),
              ("EAdversarialRegressor", F_ADV, "AdversarialFairnessRegressor")]


def _fitted(repo):
    out = []
    trees = {}
    for tag, rel, cname in ESTIMATORS:
        if rel not in trees:
            trees[rel] = _parse(repo, rel)
            _imports(trees[rel], "sklearn.utils.validation", "check_is_fitted", rel)
        tree = trees[rel]
        cls = _cls(tree, cname, rel)
        # methods of the class and of its bases defined in the same module (nearest first)
        chain, todo = [], [cls]
        while todo:
            c = todo.pop(0)
            chain.append(c)
            for b in c.bases:
                if _name(b) and any(isinstance(n, ast.ClassDef) and n.name == b.id for n in tree.body):
                    todo.append(_cls(tree, b.id, rel))
        methods = {}
        for c in chain:
            for n in c.body:
                if isinstance(n, ast.FunctionDef):
                    if n.name in OTHER_ENTRY:
                        _fail(f"{rel}: {c.name}.{n.name}: prediction entry point not known to the translator", n)
                    if n.name in dict(METHS):
                        if n.decorator_list:
                            _fail(f"{rel}: {c.name}.{n.name} is decorated", n)
                        if sum(1 for x in c.body if isinstance(x, ast.FunctionDef) and x.name == n.name) != 1:
                            _fail(f"{rel}: {c.name}.{n.name} is defined more than once", n)
                        methods.setdefault(n.name, n)
                if isinstance(n, ast.Assign) and any(_name(t) in dict(METHS) for t in n.targets):
                    _fail(f"{rel}: {c.name}: a prediction method is bound by assignment", n)
        for mname, mtag in METHS:
            if mname not in methods:
                continue
            body = _strip_doc(methods[mname].body)
            pos = None
            for k, st in enumerate(body):
                if isinstance(st, ast.Expr) and isinstance(st.value, ast.Call) and _name(st.value.func) == "check_is_fitted" \
                        and st.value.args and _name(st.value.args[0]) == "self":
                    pos = k
                    break
            if pos == 0:
                p = "PFirst"
            else:
                p = None
                st = body[0]
                val = st.value if isinstance(st, (ast.Assign, ast.Expr, ast.Return)) else None
                if isinstance(val, ast.Call) and isinstance(val.func, ast.Attribute) and _name(val.func.value) == "self" \
                        and val.func.attr in dict(METHS) and val.func.attr != mname \
                        and not any(isinstance(n, ast.Name) and n.id == "self"
                                    for a in list(val.args) + [k.value for k in val.keywords] for n in ast.walk(a)):
                    p = f"(PVia {dict(METHS)[val.func.attr]})"
                elif pos is not None:
                    p = f"(PLater {pos})"
                else:
                    p = "PAbsent"
            out.append(f"({tag}, {mtag}, {p})")
    return _lst(out)


# ----------------------------------------------------------------------------------------------
def translate(repo: Path):
    guards, dflt = _input_guards(repo)
    loads = _load_calls(repo, dflt)
    to_call = _to_call(repo, dflt)
    bounds = _bounds(repo)
    costs = _costs(repo)
    gs = _gs(repo)
    deg = _degenerate(repo)
    pf, mf = _mf(repo)
    cr = _cr(repo)
    fitted = _fitted(repo)

    def wrap(items_text):
        # one list element per line
        depth, out, cur = 0, [], ""
        inner = items_text[1:-1]
        for ch in inner:
            if ch in "([":
                depth += 1
            elif ch in ")]":
                depth -= 1
            if ch == ";" and depth == 0:
                out.append(cur.strip())
                cur = ""
            else:
                cur += ch
        if cur.strip():
            out.append(cur.strip())
        return "[ " + ";\n    ".join(out) + " ]"

    text = (
        "(* GENERATED by translators/t_validate.py from the validation code of /repo -- do not edit *)\n"
        "From Coq Require Import ZArith QArith List Bool.\n"
        "From FL Require Import Num Validate ValidateSrc.\n"
        "Import ListNotations.\nOpen Scope Z_scope.\n\n"
        f"(* {F_INPUT}: _validate_and_reformat_input, guards in source order *)\n"
        f"Definition input_guards : list guard :=\n  {wrap(guards)}.\n\n"
        "(* load_data of every moment: how it calls _validate_and_reformat_input (first statement) *)\n"
        f"Definition load_calls : list (moment * call_src) :=\n  {wrap(loads)}.\n\n"
        f"(* {F_TO}: ThresholdOptimizer.fit *)\n"
        f"Definition to_call : call_src := {to_call}.\n\n"
        f"(* {F_PARITY}: UtilityParity.__init__ *)\n"
        f"Definition bounds_init : bounds_src :=\n  {bounds}.\n\n"
        f"(* {F_ERR}: ErrorRate.__init__ *)\n"
        f"Definition costs_init : costs_src :=\n  {costs}.\n\n"
        f"(* {F_GS}: GridSearch.__init__ *)\n"
        f"Definition gs_ctor : list gs_step := {gs}.\n\n"
        f"(* {F_CURVE}: _get_counts, _calculate_tradeoff_points *)\n"
        f"Definition degenerate : deg_src :=\n  {deg}.\n\n"
        f"(* {F_MF}: MetricFrame._process_features (+ GroupFeature.__init__), MetricFrame.__init__ *)\n"
        f"Definition pf : pf_src :=\n  {pf}.\n"
        f"Definition mf_init : list mf_step := {mf}.\n\n"
        f"(* {F_CR}: _check_sensitive_features_in_X and fit *)\n"
        f"Definition cr : cr_src :=\n  {cr}.\n\n"
        "(* check_is_fitted(self) in predict / predict_proba / _pmf_predict / _raw_predict / transform *)\n"
        f"Definition fitted : fitted_src :=\n  {wrap(fitted)}.\n")
    return {"Gen_validate.v": text}
