"""C08 -- ExponentiatedGradient meets the saddle-point guarantees certified by best_gap_."""
from __future__ import annotations
from fractions import Fraction
from harness.core import Rng, gq, glist, gbool, Dec

PID = "C08"
VO = ["theories/Reductions/Saddle.vo", "theories/Reductions/Saddle_proofs.vo", "theories/Reductions/SaddleFit.vo",
      "theories/Reductions/SaddleFit_proofs.vo", "theories/Base/Flat.vo"]
PROPS_FILES = ["props/C08.v"]
TRANSLATORS = ["t_egconst"]
REQUIRES = ["From FL Require Import Num Flat Saddle SaddleFit."]
SHARD = 4
CHUNK = 1
CASE_TIMEOUT = 300
SEARCH_CAP = 400

LEVEL_TEXT = ("Proof (Coq): for every finite hypothesis class given by its (error, gamma) numbers, every probability "
              "vector Q over it, every multiplier vector lam' >= 0 and every g >= the duality gap of (Q, lam') "
              "[max(L - min_h L(h, lam'), L_high - L)]: err(Q) <= err(Q*) + 2g for every feasible distribution Q*, and "
              "gamma_j(Q) - c_j <= (1 + 2g)/B; the gap computed as eval_gap does (minimum over exact best responses "
              "to mul*lambda_hat, evaluated at the projected lambda_hat, with the early break) equals that duality gap; "
              "L <= L_high for every admissible multiplier; the returned iterate has a gap within _PRECISION of the "
              "smallest recorded gap; a run that breaks before max_iter returns a gap < nu; project_lambda (ratio 1) "
              "keeps lam.gamma and does not increase the norm. Returned object: weights_ and best_gap_ are taken at "
              "the same iteration, so the two bounds hold for the RETURNED weights_ with g = the RETURNED best_gap_ "
              "whenever every recorded gap is eval_gap's gap of the recorded weights (C08_returned_certificate); a "
              "requested nu (0 included) is the nu used. Linear program: every point satisfying what solve_linprog "
              "hands to scipy is a probability vector over the hypotheses found so far, its objective is >= L_high, "
              "and an optimal answer has L_high <= L_high(Q') for every distribution Q' over them. Tie to the code: "
              "translator t_egconst (constants, the multiplier literal, and -- as regenerated Gallina definitions "
              "proved equal to the model's by reflexivity -- the tail of _eval, the body of eval_gap incl. the break, "
              "the choice of nu, the EG/LP choice, the break rule of fit and best_iter_/best_gap_/weights_; the "
              "linear program statement by statement) + real ExponentiatedGradient.fit with an exact cost-sensitive learner on small "
              "datasets; the Gallina definitions recompute L, L_low, L_high and the gap from the implementation's "
              "own (error, gamma) numbers over the enumerated class and are compared with best_gap_; independently "
              "of the model, the duality gap of the RETURNED weights_ is recomputed in exact arithmetic at the "
              "multiplier(s) of iteration best_iter_ and must be <= best_gap_ + 1e-6 (also when best_iter_ < "
              "last_iter_), and _pmf_predict must be the label-aligned mixture for four orders of weights_.index.")
LEVEL_NOTE = ("Trusted: Coq kernel + vm_compute; the harness's enumeration of the class and its exact learner; scipy "
              "linprog only as the search aid that supplies the constrained optimum for oracles (ii)/(iii). The "
              "multiplicative-weights update (exp) and the LP solver are not modelled: the theorems hold for whatever "
              "iterate they produce (the LP theorems are about the constraints and objective the code hands to the solver; "
              "that scipy returns an optimal point of them is trusted). Float rounding of the implementation is bounded by the 1e-6 comparison tolerance, "
              "not proved.")
TECHNIQUE = "Coq proof of the saddle-point bounds on an abstract finite class + differential run on real fits"
TRUSTED = ["Coq 8.16.1 kernel and vm_compute", "translators/t_egconst.py (incl. its reading of numpy/pandas primitives: "
           "np.sum(a*b) = dot, .max()/.min(), series[mask].index[-1], for/break, linprog's default bounds (0, None))", "harness/props/c08.py (class enumeration, "
           "rational conversion, comparison)", "harness.learners.ExactLearner is an exact cost-sensitive learner",
           "scipy.optimize.linprog (search aid for the constrained optimum only)",
           "no axioms (Print Assumptions: closed)"]
ASSUMPTIONS = ["base learner is exact over the enumerated class (the property's premise)",
               "weights_ is renormalised exactly (largest entry := 1 - sum of the others, a change < 1e-12) before it "
               "is given to the model, so that the theorems' premise sum Q = 1 holds for the numbers evaluated",
               "float arithmetic of the implementation agrees with exact arithmetic to 1e-6 on these inputs",
               "in the few cases (tag compat:False, about 4%) where the float gamma of a ratio-1 moment is not exactly "
               "antisymmetric (rounding in the matrix product), gap_code >= gap_true is not covered by "
               "C08_gap_code_is_true_gap and is only checked numerically (oracle i)"]
RULE = ("cases: random datasets n<=16, 2..4 distinct feature rows, 2..3 groups, five parity moments x {difference, "
        "ratio} bounds, eps, max_iter, run_linprog_step, eta0, nu; every sixth case run_linprog_step=False, nu in "
        "{0, 1e-6}, max_iter 8/30 (no early stop: best_iter_ < last_iter_ is common), every sixth case "
        "run_linprog_step=False, nu in {0.3, 2}, eta0=8 (eval_gap evaluates all multipliers: weights_.index comes out "
        "unsorted in some); non-trivial = more than one iteration ran or the "
        "returned classifier mixes at least two hypotheses or the projected multiplier is non-zero, and the gap is recomputed "
        "by the model")
EXHAUSTIVE = {"quick": False, "thorough": False}

MOMENTS = ["DemographicParity", "TruePositiveRateParity", "FalsePositiveRateParity", "EqualizedOdds",
           "ErrorRateParity"]
TOL = 1e-6


# ---------------------------------------------------------------------------------------------
# cases
# ---------------------------------------------------------------------------------------------
def _one_case(r, i):
    k = r.choice([2, 3, 3, 4])
    ng = r.choice([2, 2, 3])
    n = r.randint(max(6, k + ng), 16)
    while True:
        xs = list(range(k)) + [r.randint(0, k - 1) for _ in range(n - k)]
        gs = list(range(ng)) + [r.randint(0, ng - 1) for _ in range(n - ng)]
        r.shuffle(gs)
        ys = [r.randint(0, 1) for _ in range(n)]
        if 0 < sum(ys) < n:
            break
    bound_kind = r.choice(["diff", "diff", "ratio"])
    c = {"kind": "fit", "x": xs, "g": gs, "y": ys, "moment": MOMENTS[i % 5], "bound_kind": bound_kind,
         "difference_bound": r.choice([0.01, 0.05, 0.1, 0.25]),
         "ratio_bound": r.choice([0.5, 0.8, 0.9, 1.0]), "ratio_slack": r.choice([0.0, 0.0, 0.05, 0.125]),
         "eps": r.choice([0.2, 0.1, 0.05]), "max_iter": r.choice([1, 3, 8, 30]),
         "lp": r.chance(1, 2), "eta0": r.choice([0.5, 2.0]), "nu": r.choice([None, 0.01, None, 0.01, 0.0, 1e-6])}
    # two profiles aimed at the returned-object consistency (applied after the draws above, so the other cases
    # are the ones generated before these profiles existed):
    if i % 6 == 4:
        # EG branch only, no early stop: the recorded gaps are not monotone, so best_iter_ < last_iter_ is common
        c.update(lp=False, max_iter=r.choice([8, 30, 30]), nu=r.choice([0.0, 1e-6]), eta0=r.choice([2.0, 8.0]),
                 profile="no-early-stop-EG")
    elif i % 6 == 5:
        # large nu: eval_gap never breaks, so hypotheses are also discovered by the mul = 2, 5, 10 queries and
        # weights_ (EG branch) comes out with an index that is NOT sorted
        c.update(lp=False, max_iter=8, nu=r.choice([0.3, 2.0]), eta0=8.0, profile="large-nu-EG")
    return c


def cases(tier, seed):
    n = {"quick": 120, "thorough": 1500}[tier]
    return [_one_case(Rng(seed, PID, tier, i), i) for i in range(n)]


# ---------------------------------------------------------------------------------------------
# implementation side
# ---------------------------------------------------------------------------------------------
def _moment(case):
    import fairlearn.reductions as red
    M = getattr(red, case["moment"])
    if case["bound_kind"] == "diff":
        return M(difference_bound=case["difference_bound"])
    return M(ratio_bound=case["ratio_bound"], ratio_bound_slack=case["ratio_slack"])


def _fl(v):
    return [float(x) for x in v]


def impl(case):
    import itertools, logging, re
    import numpy as np, pandas as pd
    from fairlearn.reductions import ExponentiatedGradient, ErrorRate
    from harness.learners import ExactLearner

    X = pd.DataFrame({"x": case["x"]})
    y = pd.Series(case["y"])
    sf = pd.Series(case["g"]).map(lambda v: f"g{v}")
    k = max(case["x"]) + 1

    # ---- the fit, with the per-iteration debug line captured (6 decimals; used only for the choice rule)
    name = "fairlearn.reductions._exponentiated_gradient.exponentiated_gradient"
    lg = logging.getLogger(name)
    records = []

    class Hd(logging.Handler):
        def emit(self, rec):
            try:
                records.append(rec.getMessage())
            except Exception:
                pass
    hd = Hd(level=logging.DEBUG)
    old_level, old_disable, old_prop = lg.level, logging.root.manager.disable, lg.propagate
    import hashlib, json as _json
    prehist = int(hashlib.sha1(_json.dumps({k_: v_ for k_, v_ in case.items() if not str(k_).startswith("_")},
                                            sort_keys=True, default=str).encode()).hexdigest(), 16) % 3 == 0
    if prehist:
        # the SAME estimator object first configured differently and fitted, then re-configured through
        # set_params and fitted on the case: everything certified below must describe the last fit only
        eg = ExponentiatedGradient(ExactLearner(), _moment(case), eps=(0.5 if case["eps"] != 0.5 else 0.25),
                                   max_iter=2, nu=0.5, eta0=1.0, run_linprog_step=not case["lp"])
        eg.fit(X, 1 - y, sensitive_features=sf)
        eg.set_params(eps=case["eps"], max_iter=case["max_iter"], nu=case["nu"], eta0=case["eta0"],
                      run_linprog_step=case["lp"])
    else:
        eg = ExponentiatedGradient(ExactLearner(), _moment(case), eps=case["eps"], max_iter=case["max_iter"],
                                   nu=case["nu"], eta0=case["eta0"], run_linprog_step=case["lp"])
    try:
        logging.disable(logging.NOTSET)
        lg.addHandler(hd); lg.setLevel(logging.DEBUG); lg.propagate = False
        eg.fit(X, y, sensitive_features=sf)
    finally:
        lg.removeHandler(hd); lg.setLevel(old_level); lg.propagate = old_prop
        logging.disable(old_disable)
    log_gaps = []
    for msg in records:
        m1 = re.search(r"(?<![_\w])gap=(-?[\d.]+|inf|nan)", msg)
        m2 = re.search(r"gap_LP=(-?[\d.]+|inf|nan)", msg)
        if m1 and m2:
            log_gaps.append([float(m1.group(1)), float(m2.group(1))])

    # ---- the enumerated class, measured with freshly loaded moment objects
    mom = _moment(case)
    mom.load_data(X, y, sensitive_features=sf)
    obj = ErrorRate()
    obj.load_data(X, y, sensitive_features=sf)
    idx = mom.index
    tables = list(itertools.product([0, 1], repeat=k))

    def as_h(tab):
        return lambda X_: np.array([tab[int(v)] if 0 <= int(v) < k else 0 for v in np.asarray(X_)[:, 0]])
    errs, gams = [], []
    for tab in tables:
        h = as_h(tab)
        errs.append(float(obj.gamma(h).iloc[0]))
        gams.append(_fl(mom.gamma(h).reindex(idx).values))
    cvec = _fl(mom.bound().reindex(idx).values)

    # ---- public attributes of the fitted estimator
    Xd = pd.DataFrame({"x": list(range(k))})
    w = eg.weights_
    preds = eg.predictors_
    qclass = [0.0] * len(tables)
    raw_w, pred_tabs, support_ok = [], [], True
    for h_idx in w.index:
        wt = float(w[h_idx])
        raw_w.append(wt)
        if h_idx not in preds.index:
            support_ok = support_ok and wt == 0.0
            continue
        tab = tuple(int(v) for v in np.asarray(preds[h_idx].predict(Xd)).reshape(-1))
        pred_tabs.append(list(tab))
        qclass[tables.index(tab)] += wt
    bi = int(eg.best_iter_)
    lam_eg = eg.lambda_vecs_EG_.iloc[:, : bi + 1].mean(axis=1).reindex(idx)
    lam_lp = eg.lambda_vecs_LP_[bi].reindex(idx) if bi in eg.lambda_vecs_LP_.columns else None
    out = {
        "errs": errs, "gams": gams, "c": cvec, "B": float(1 / case["eps"]),
        "ratio_is_one": bool(mom.ratio == 1.0),
        "q": qclass, "raw_w": raw_w, "support_ok": bool(support_ok), "n_predictors": int(len(preds)),
        "pred_tabs": pred_tabs,
        "best_gap": float(eg.best_gap_), "best_iter": bi, "last_iter": int(eg.last_iter_),
        "nu": float(eg.nu), "lam_eg": _fl(lam_eg.values), "lam_lp": None if lam_lp is None else _fl(lam_lp.values),
        "proj_eg": _fl(mom.project_lambda(lam_eg).reindex(idx).values),
        "proj_lp": None if lam_lp is None else _fl(mom.project_lambda(lam_lp).reindex(idx).values),
        "n_lam_cols": int(eg.lambda_vecs_EG_.shape[1]), "log_gaps": log_gaps,
        "w_index": [int(v) for v in w.index], "lp_cols": [int(v) for v in eg.lambda_vecs_LP_.columns],
    }

    # ---- _pmf_predict against the weights_-mixture of predictors_ (training rows + one unseen value)
    Xq = pd.DataFrame({"x": list(range(k + 1)) + case["x"][:3]})
    pmf = np.asarray(eg._pmf_predict(Xq), dtype=float)
    mix = np.zeros(len(Xq))
    for h_idx in w.index:
        if float(w[h_idx]) != 0.0:
            mix += float(w[h_idx]) * np.asarray(preds[h_idx].predict(Xq), dtype=float).reshape(-1)
    out["pmf1"], out["pmf0"], out["mix"] = _fl(pmf[:, 1]), _fl(pmf[:, 0]), _fl(mix)
    # the same mixture when the (label-indexed) public weights_ Series is presented in another order
    keep = eg.weights_
    try:
        eg.weights_ = keep.iloc[::-1]
        out["pmf1_rev"] = _fl(np.asarray(eg._pmf_predict(Xq), dtype=float)[:, 1])
        # ... and rotated by one / with the two largest entries first (an index that is not sorted either way)
        rot = list(keep.index[1:]) + list(keep.index[:1])
        eg.weights_ = keep[rot]
        out["pmf1_rot"] = _fl(np.asarray(eg._pmf_predict(Xq), dtype=float)[:, 1])
        big = list(keep.sort_values(ascending=False, kind="stable").index)
        eg.weights_ = keep[big]
        out["pmf1_big"] = _fl(np.asarray(eg._pmf_predict(Xq), dtype=float)[:, 1])
    finally:
        eg.weights_ = keep

    # ---- search aid: the constrained optimum over the enumerated class (floats)
    import scipy.optimize as opt
    G = np.array(gams).T                                    # constraints x hypotheses
    res = opt.linprog(np.array(errs), A_ub=G, b_ub=np.array(cvec), A_eq=np.ones((1, len(tables))), b_eq=[1.0],
                      bounds=[(0, None)] * len(tables), method="highs")
    out["opt"] = float(res.fun) if res.status == 0 else None
    out["lp_status"] = int(res.status)
    return out


# ---------------------------------------------------------------------------------------------
# model side
# ---------------------------------------------------------------------------------------------
def _exact_q(q):
    """exact image of the float weights with the largest entry replaced by 1 - (sum of the others)"""
    fr = [Fraction(v) for v in q]
    j = max(range(len(fr)), key=lambda i: fr[i])
    fr[j] = 1 - (sum(fr) - fr[j])
    return fr


def _gH(out):
    return glist([f"(mkHyp {gq(Fraction(e))} {glist([Fraction(v) for v in g], gq)})"
                  for e, g in zip(out["errs"], out["gams"])])


def _cands(out):
    c = [("eg", out["lam_eg"], out["proj_eg"])]
    if out.get("lam_lp") is not None:
        c.append(("lp", out["lam_lp"], out["proj_lp"]))
    return c


def _py_true_gaps(out):
    """max(L - min_h L(h, lam'), L_high - L) for the returned weights_, per recorded multiplier; exact on the
    implementation's float numbers (independent of the Coq model)"""
    errs = [Fraction(e) for e in out["errs"]]
    gams = [[Fraction(x) for x in g_] for g_ in out["gams"]]
    c = [Fraction(x) for x in out["c"]]
    B = Fraction(out["B"])
    q = [Fraction(x) for x in out["q"]]
    tot = sum(q)
    if tot <= 0:
        return {}
    q = [x / tot for x in q]
    m = len(c)
    err = sum(a * b for a, b in zip(q, errs))
    viol = [sum(q[i] * gams[i][j] for i in range(len(q))) - c[j] for j in range(m)]
    mv = max(viol) if viol else Fraction(0)
    L_high = err + B * mv if mv > 0 else err
    res = {}
    for nm, _, proj in _cands(out):
        lam = [Fraction(x) for x in proj]
        L = err + sum(a * b for a, b in zip(lam, viol))
        L_low = min(errs[i] + sum(lam[j] * (gams[i][j] - c[j]) for j in range(m)) for i in range(len(errs)))
        res[nm] = float(max(L - L_low, L_high - L))
    return res


ENC = ("(fun r : report => enc_bool (r_wf r) ++ enc_bool (r_dist r) ++ enc_bool (r_lam_ok r) ++ enc_bool (r_compat r) "
       "++ enc_q (r_err r) ++ enc_q (r_maxviol r) ++ enc_q (r_L r) ++ enc_q (r_Lhigh r) ++ enc_q (r_Llow_code r) "
       "++ enc_q (r_Llow_true r) ++ enc_q (r_gap_code r) ++ enc_q (r_gap_true r) ++ enc_list enc_q (r_proj r))")


def term(case, out):
    if out is None:
        return None
    q = glist(_exact_q(out["q"]), gq)
    parts = [f"enc_nat {len(_cands(out))}%nat"]
    for _, lam, _ in _cands(out):
        parts.append(f"enc (evaluate Hc cv {gq(Fraction(out['B']))} {gbool(out['ratio_is_one'])} "
                     f"{gq(Fraction(out['nu']))} qw {glist([Fraction(v) for v in lam], gq)})")
    gaps = [min(a, b) for a, b in out["log_gaps"] if a == a and b == b]
    gl = glist([Fraction(repr(g)) for g in gaps if g != float("inf")], gq)
    parts.append(f"enc_list enc_q gl ++ enc_nat (select std_precision gl) ++ enc_q (selected_gap std_precision gl)")
    return (f"let enc := {ENC} in let Hc := {_gH(out)} in let cv := {glist([Fraction(v) for v in out['c']], gq)} in "
            f"let qw := {q} in let gl := {gl} in " + " ++ ".join(parts))


def decode(case, zs):
    d = Dec(zs)
    res = {"cands": []}
    for _ in range(d.nat()):
        rep = {"wf": d.bool(), "dist": d.bool(), "lam_ok": d.bool(), "compat": d.bool()}
        for key in ("err", "maxviol", "L", "Lhigh", "Llow_code", "Llow_true", "gap_code", "gap_true"):
            rep[key] = d.q()
        rep["proj"] = d.list(d.q)
        res["cands"].append(rep)
    res["gaps"] = d.list(d.q)
    res["select"] = d.nat()
    res["selected_gap"] = d.q()
    d.done()
    return res


# ---------------------------------------------------------------------------------------------
# comparison
# ---------------------------------------------------------------------------------------------
def compare(case, out, model):
    v = []
    g = out["best_gap"]
    B = out["B"]

    def bad(entry, observable, cls, what, oracle, kind="property"):
        v.append((f"{PID}/{entry}/{observable}/{cls}", what, oracle, kind))

    # (v) weights_ is a probability vector supported on predictors_
    rw = out["raw_w"]
    if any(x < -1e-12 for x in rw) or abs(sum(rw) - 1.0) > 1e-9 or not out["support_ok"]:
        bad("fit", "weights_", "not-a-probability-vector", f"weights_ = {rw} (sum {sum(rw)!r}, support within "
            f"predictors_: {out['support_ok']})", "weights_ >= 0, sums to 1, support within predictors_")
    # (vi) _pmf_predict is the weights_-mixture of the predictors' outputs
    if any(abs(a - b) > 1e-9 for a, b in zip(out["pmf1"], out["mix"])) or \
            any(abs(a - b) > 1e-9 for a, b in zip(out.get("pmf1_rev", out["pmf1"]), out["mix"])) or \
            any(abs(a - b) > 1e-9 for a, b in zip(out.get("pmf1_rot", out["pmf1"]), out["mix"])) or \
            any(abs(a - b) > 1e-9 for a, b in zip(out.get("pmf1_big", out["pmf1"]), out["mix"])) or \
            any(abs(a + b - 1.0) > 1e-9 for a, b in zip(out["pmf0"], out["pmf1"])):
        bad("_pmf_predict", "pmf", "not-the-mixture", f"_pmf_predict[:,1] = {out['pmf1']} (weights_.index = {out.get('w_index')}; with weights_ "
            f"listed in reverse order: {out.get('pmf1_rev')}, rotated: {out.get('pmf1_rot')}, largest first: "
            f"{out.get('pmf1_big')}) but the weights_-mixture of predictors_ gives {out['mix']}", "_pmf_predict = [1 - m, m] with m = sum_t weights_[t] * predictors_[t](X)")
    # (iv) early stop only below nu (and not before _MIN_ITER)
    if out["last_iter"] < case["max_iter"] - 1:
        # the threshold that was REQUESTED (the constructor value; the automatic one only when nu=None)
        nu_req = out["nu"] if case["nu"] is None else case["nu"]
        if not g < nu_req:
            bad("fit", "best_gap_", "early-stop-above-nu", f"stopped at iteration {out['last_iter']} of "
                f"{case['max_iter']} with best_gap_ = {g!r} >= requested nu = {nu_req!r}",
                "last_iter_ < max_iter - 1  =>  best_gap_ < nu")
        if out["last_iter"] < 5:
            bad("fit", "last_iter_", "stop-before-min-iter", f"stopped at iteration {out['last_iter']} < _MIN_ITER",
                "no early stop before _MIN_ITER = 5 iterations")
    if out["last_iter"] > case["max_iter"] - 1 or out["best_iter"] > out["last_iter"]:
        bad("fit", "last_iter_", "iteration-budget", f"last_iter_ = {out['last_iter']}, best_iter_ = "
            f"{out['best_iter']}, max_iter = {case['max_iter']}", "best_iter_ <= last_iter_ <= max_iter - 1")

    # (vii) returned-object consistency, on the implementation's numbers alone: the true duality gap of the RETURNED
    # weights_ (as a distribution over the enumerated class) at each multiplier recorded for iteration best_iter_
    # (mean of the EG multipliers up to best_iter_; the LP multiplier of best_iter_ when the linear program ran),
    # recomputed here in exact rational arithmetic -- best_gap_ must certify the weights that are handed out,
    # also when best_iter_ != last_iter_
    pg = _py_true_gaps(out)
    if pg and not any(g >= tg - TOL for tg in pg.values()):
        bad("fit", "weights_", "best_gap_-is-not-the-gap-of-weights_", f"best_gap_ = {g!r} (best_iter_ = "
            f"{out['best_iter']}, last_iter_ = {out['last_iter']}) but the returned weights_ have duality gap {pg} "
            f"at the multiplier(s) recorded for iteration best_iter_",
            "best_gap_ >= duality gap of (weights_, lambda of iteration best_iter_) - 1e-6, for the EG or the LP "
            "multiplier of that iteration")
    if model is None:
        return v
    cands = model["cands"]
    names = [nm for nm, _, _ in _cands(out)]
    for nm, rep, (_, _, proj) in zip(names, cands, _cands(out)):
        if not (rep["wf"] and rep["dist"]):
            bad("harness", "premises", "class-or-weights-ill-formed", f"wf={rep['wf']} dist={rep['dist']}",
                "the enumerated class is well formed and the renormalised weights are a distribution",
                "correspondence")
        pj = [float(a) for a in rep["proj"]]
        if pj and (min(pj) < -1e-7 or sum(pj) > B * (1 + 1e-7) + 1e-7):
            # (exact flag r_lam_ok is reported in the tags; an LP multiplier may exceed B by solver tolerance)
            bad("fit", f"lambda_{nm}", "multiplier-outside-simplex", f"projected multiplier {nm} = {pj} is negative "
                f"somewhere or has norm above B = {B}", "lam' >= 0 and sum lam' <= B")
        if any(abs(float(a) - b) > 1e-9 for a, b in zip(rep["proj"], proj)) or len(rep["proj"]) != len(proj):
            bad("project_lambda", nm, "differs-from-model", f"project_lambda gives {proj}, model "
                f"{[float(a) for a in rep['proj']]}", "project_lambda equals Saddle.project", "correspondence")
    # the certificate: best_gap_ is at least the true duality gap of (Q, lam') for a recorded multiplier
    true_gaps = [float(rep["gap_true"]) for rep in cands]
    code_gaps = [float(rep["gap_code"]) for rep in cands]
    if not any(g >= tg - TOL for tg in true_gaps):
        bad("fit", "best_gap_", "below-true-duality-gap", f"best_gap_ = {g!r} but the duality gap of (weights_, "
            f"lambda) recomputed over the enumerated class is {dict(zip(names, true_gaps))}",
            "best_gap_ >= max(L - min_h L(h, lam'), L_high - L) - 1e-6 for the recorded multiplier")
    # (ii) / (iii): the guarantees themselves, against the constrained optimum
    errq = float(cands[0]["err"])
    mv = float(cands[0]["maxviol"])
    if out["opt"] is not None:
        if errq > out["opt"] + 2 * g + TOL:
            bad("fit", "error", "above-opt-plus-2gap", f"err(Q) = {errq!r} > opt + 2*best_gap_ = "
                f"{out['opt']!r} + 2*{g!r}", "err(Q) <= min{err(Q*) : Q* feasible} + 2*best_gap_")
        if mv > (1 + 2 * g) / B + TOL:
            bad("fit", "violation", "above-(1+2gap)/B", f"max_j(gamma_j(Q) - c_j) = {mv!r} > (1 + 2*{g!r})/{B!r}",
                "gamma_j(Q) - c_j <= (1 + 2*best_gap_)/B")
    # correspondence: best_gap_ equals the model's gap for the candidate the run used
    if not any(abs(g - cg) <= TOL for cg in code_gaps) and not v:
        bad("fit", "best_gap_", "differs-from-model-gap", f"best_gap_ = {g!r}, model gap {dict(zip(names, code_gaps))}",
            "best_gap_ = Saddle.gap_code for the recorded multiplier", "correspondence")
    # choice of the returned iterate (from the logged per-iteration gaps, 6 decimals)
    lg = [min(a, b) for a, b in out["log_gaps"]]
    if lg and len(lg) == out["last_iter"] + 1 and all(x == x and x != float("inf") for x in lg):
        if g > min(lg) + 2e-6:
            bad("fit", "best_gap_", "not-the-smallest-gap", f"best_gap_ = {g!r} but iteration gaps were {lg}",
                "best_gap_ <= min_t gaps[t] + _PRECISION")
        elif abs(lg[out["best_iter"]] - g) > 2e-6:
            bad("fit", "best_iter_", "gap-of-other-iteration", f"best_iter_ = {out['best_iter']} has logged gap "
                f"{lg[out['best_iter']]}, best_gap_ = {g!r}", "best_gap_ = gaps[best_iter_]")
        if abs(float(model["selected_gap"]) - g) > 2e-6 and g <= min(lg) + 2e-6:
            bad("fit", "best_gap_", "differs-from-model-select", f"model selects gap {float(model['selected_gap'])}",
                "best_gap_ = gaps[Saddle.select gaps]", "correspondence")
    return v


def tags(case, out, model):
    t = [f"moment:{case['moment']}", f"bound:{case['bound_kind']}", f"max_iter:{case['max_iter']}",
         f"lp:{case['lp']}", f"eps:{case['eps']}", f"nu:{case['nu']}", f"eta0:{case['eta0']}",
         f"hyps:{len(out['errs'])}", f"constraints:{len(out['c'])}",
         f"support:{sum(1 for x in out['q'] if x > 0)}", f"early_stop:{out['last_iter'] < case['max_iter'] - 1}",
         f"lp_feasible:{out['opt'] is not None}", f"cands:{1 + (out.get('lam_lp') is not None)}",
         f"best<last:{out['best_iter'] < out['last_iter']}",
         f"best<last&lp:{out['best_iter'] < out['last_iter']}&{case['lp']}",
         f"weights_index_sorted:{out.get('w_index') == sorted(out.get('w_index', []))}",
         f"profile:{case.get('profile', 'base')}"]
    if model is not None:
        t.append(f"compat:{all(r['compat'] for r in model['cands'])}")
        t.append(f"lam_exactly_admissible:{all(r['lam_ok'] for r in model['cands'])}")
        t.append("gap0" if out["best_gap"] < 1e-9 else "gap+")
    return t


def nontrivial(case, out, model):
    if model is None:
        return False
    return out["last_iter"] > 0 or sum(1 for x in out["q"] if x > 0) > 1 or any(x != 0 for x in out["proj_eg"])


def canon(case):
    return {k: v for k, v in case.items() if not k.startswith("_")}


def shrink(case):
    n = len(case["x"])
    if case["max_iter"] > 1:
        for mi in (1, 3, 8):
            if mi < case["max_iter"]:
                yield dict(case, max_iter=mi)
    if n > 6:
        for i in range(0, n, max(1, n // 6)):
            x = case["x"][:i] + case["x"][i + 1:]
            g = case["g"][:i] + case["g"][i + 1:]
            y = case["y"][:i] + case["y"][i + 1:]
            if set(x) == set(range(max(case["x"]) + 1)) and set(g) == set(case["g"]) and 0 < sum(y) < len(y):
                yield dict(case, x=x, g=g, y=y)
