"""C16 -- adversarial training applies the documented projected-gradient update."""
from __future__ import annotations
import math
from fractions import Fraction
from harness.core import Rng, gq, glist, Dec

PID = "C16"
VO = ["theories/Misc/AdvUpdate.vo", "theories/Misc/AdvUpdate_proofs.vo", "theories/Base/Flat.vo"]
PROPS_FILES = ["props/C16.v"]
TRANSLATORS = ["t_adv"]
REQUIRES = ["From FL Require Import Num Flat AdvUpdate."]
SHARD = 20
CHUNK = 2
CASE_TIMEOUT = 300

LEVEL_TEXT = ("Proof (Coq): for the normalise / project / combine statements regenerated from train_step of BOTH "
              "engines on every run, the value written into the predictor's gradient is gP - (<gA,gP>/n2) gA - "
              "alpha gA with n2 = (norm + tiny)^2 for tensors of any shape (eval_general, no assumption on the "
              "norm), equals the closed form `combine` for the exact norm, and combine + alpha gA is orthogonal to "
              "gA (update_orthogonal, every shape); an all-zero adversary gradient leaves dLP/dW; the adversary "
              "keeps the plain gradient. Tie to the code: translator t_adv (fail closed, both engines) + one real "
              "PyTorch partial_fit step on small real networks compared with the Gallina closed form AND with "
              "the value of the generated term on gradients recomputed by torch.autograd.grad.")
LEVEL_NOTE = ("Trusted: Coq kernel + vm_compute; translator t_adv (Python ast -> AdvUpdate.tx, frame of train_step "
              "matched statement by statement); torch.autograd and torch.optim.SGD; float32 arithmetic is compared "
              "with exact rationals under norm-scaled tolerances. TensorFlow is not installed: its engine is tied "
              "by translation only (no run).")
TECHNIQUE = "Coq proof (field identities lifted to all tensor shapes) on source-regenerated terms + differential run"
TRUSTED = ["Coq 8.16.1 kernel and vm_compute", "translators/t_adv.py", "harness/props/c16.py (generators, independent "
           "autograd gradients, tolerances)", "torch.autograd.grad, torch.optim.SGD (plain: no momentum / decay)",
           "TensorFlow engine: translation only, never executed", "no axioms (Print Assumptions: closed)"]
ASSUMPTIONS = ["parameter tensors are float32 (fairlearn's validate_input casts to float); a finfo(...).tiny of a "
               "wider dtype is modelled as 0 next to them",
               "theorems are over Q: eval_is_combine needs a rational norm s (s*s == <gA,gA>); for other tensors the "
               "same field identity is eval_general, which holds for every s",
               "optimisers observed are plain SGD; other optimisers consume the same p.grad",
               "tensors whose adversary-gradient norm is non-zero but below 1e-15 are not compared (float32 squares "
               "underflow there; none occurred in the recorded runs unless the histogram says so)"]
RULE = ("cases: random small networks (0..2 hidden layers, widths 1..6, relu/leaky_relu/sigmoid/tanh), binary / "
        "multiclass / continuous targets and sensitive features, demographic_parity / equalized_odds, list models "
        "(observed after 1..2 warm-up steps) and user modules (first step observed), one partial_fit step with SGD; "
        "non-trivial = some predictor tensor has >= 2 rows, non-zero adversary gradient and an all-pairs inner sum "
        "that differs from the Frobenius product (so the b4dd69e defect would be visible); in a third of the "
        "warmed-up cases the estimator is built with another alpha and re-configured with set_params(alpha=...) "
        "before the observed step (the step must use the estimator's current alpha) ")
EXHAUSTIVE = {"quick": False, "thorough": False}

TINY32 = Fraction(1, 2 ** 126)
EPS32 = 2.0 ** -23
NORM_FLOOR = 1e-15
ACTS = ["relu", "leaky_relu", "sigmoid", "tanh"]
ALPHAS = [0, 0.25, 0.5, 1, 1, 1, 2, 3.5]
LRS = [1.0, 0.5, 0.25, 0.125]

_TERM_CACHE = {}


def _engine_term():
    """Gallina text of the torch term regenerated from the CURRENT source, or None (translator fails)."""
    if "t" not in _TERM_CACHE:
        try:
            from harness import core
            from translators import t_adv
            _TERM_CACHE["t"] = t_adv.terms(core.REPO)[0]
        except Exception:
            _TERM_CACHE["t"] = None
    return _TERM_CACHE["t"]


# --------------------------------------------------------------------------------------------------
# case generation
# --------------------------------------------------------------------------------------------------
def _layers(r, maxw=6, prefer_wide=False):
    k = r.choice([0, 1, 1, 2])
    out = []
    for _ in range(k):
        w = r.randint(2 if prefer_wide else 1, maxw)
        out.append(w)
        if r.chance(3, 4):
            out.append(r.choice(ACTS))
    return out


def _labels(r, n, k):
    v = list(range(k)) + [r.randint(0, k - 1) for _ in range(n - k)]
    r.shuffle(v)
    return v


def _cont(r, n, cols):
    rows = [[r.randint(-8, 8) / 4 for _ in range(cols)] for _ in range(n)]
    rows[0][0] = r.choice([-1.75, -0.75, 0.25, 0.5, 1.25])       # keeps type_of_target == continuous
    return rows if cols > 1 else [x[0] for x in rows]


def _batch(r, n, d, ytype, ky, atype, ka, acols):
    X = [[r.randint(-8, 8) / 4 for _ in range(d)] for _ in range(n)]
    y = _labels(r, n, ky) if ytype != "continuous" else _cont(r, n, 1)
    a = _labels(r, n, ka) if atype != "continuous" else _cont(r, n, acols)
    return {"X": X, "y": y, "a": a}


def _one(seed, i, tier_tag):
    r = Rng(seed, PID, tier_tag, i)
    ytype = r.choice(["binary", "binary", "multiclass", "continuous"])
    atype = r.choice(["binary", "binary", "multiclass", "continuous"])
    ky = 2 if ytype == "binary" else r.randint(3, 4)
    ka = 2 if atype == "binary" else r.randint(3, 4)
    acols = r.choice([1, 1, 2]) if atype == "continuous" else 1
    need = max(ky if ytype != "continuous" else 2, ka if atype != "continuous" else 2)
    n = r.randint(need, 8)
    d = r.randint(1, 4)
    variant = r.choice(["list", "list", "module"])
    c = {"kind": "net", "variant": variant, "ytype": ytype, "atype": atype,
         "constraints": r.choice(["demographic_parity", "equalized_odds"]),
         "pred": _layers(r, prefer_wide=r.chance(1, 2)), "adv": _layers(r),
         "alpha": r.choice(ALPHAS), "lr_p": r.choice(LRS), "lr_a": r.choice(LRS), "rs": r.randint(0, 10 ** 6),
         "warm": r.randint(1, 2) if variant == "list" else r.randint(0, 1), "zero": None,
         "warm_batch": _batch(r, n, d, ytype, ky, atype, ka, acols),
         "batch": _batch(r, r.randint(need, 8), d, ytype, ky, atype, ka, acols)}
    z = r.randint(0, 11)
    if z == 0:                      # whole first layer sees X = 0: its adversary gradient is all zero
        c["zero"] = "X"
        c["batch"]["X"] = [[0.0] * d for _ in c["batch"]["X"]]
        if not any(isinstance(v, int) for v in c["pred"]):
            c["pred"] = [3, "relu"]
    elif z == 1 and variant == "module":   # adversary whose first layer is zero: dLA/dW = 0 everywhere, dLP/dW not
        c["zero"] = "adv"
    # alpha re-configured between steps (set_params after the warm-up steps): the observed step must use the
    # estimator's CURRENT alpha, not the one the engine was built with.  Separate stream: the other fields of
    # the case are what they were before this variant existed.
    r2 = Rng(seed, PID, tier_tag + "-alpha-warm", i)
    if c["warm"] > 0 and r2.chance(1, 3):
        c["alpha_warm"] = r2.choice([a for a in (0, 0.5, 1, 3.5) if a != c["alpha"]])
    return c


def cases(tier, seed):
    n = {"quick": 60, "thorough": 600}[tier]
    out = [_one(seed, i, "net") for i in range(n)]
    # deterministic core: shapes where a wrong inner product / a vanishing tiny shows, whatever the seed
    out.append({"kind": "net", "variant": "list", "ytype": "multiclass", "atype": "binary",
                "constraints": "equalized_odds", "pred": [4, "tanh"], "adv": [3, "relu"], "alpha": 1, "lr_p": 0.5,
                "lr_a": 0.5, "rs": 7, "warm": 1, "zero": None,
                "warm_batch": {"X": [[1.0, -0.5, 0.25], [0.5, 1.5, -1.0], [-1.25, 0.75, 2.0], [0.25, -2.0, 0.5]],
                               "y": [0, 1, 2, 1], "a": [0, 1, 1, 0]},
                "batch": {"X": [[-0.5, 1.0, 0.75], [1.5, -0.25, -1.0], [0.25, 0.5, 1.25], [2.0, -1.5, 0.5]],
                          "y": [2, 0, 1, 0], "a": [1, 0, 0, 1]}})
    out.append(dict(out[-1], alpha_warm=3.5))          # same step after the estimator was built with another alpha
    out.append(dict(out[-2], alpha=0, alpha_warm=1))
    return out


# --------------------------------------------------------------------------------------------------
# implementation run
# --------------------------------------------------------------------------------------------------
def _act(name):
    import torch
    return {"relu": torch.nn.ReLU, "leaky_relu": torch.nn.LeakyReLU, "sigmoid": torch.nn.Sigmoid,
            "tanh": torch.nn.Tanh}[name]()


def _list_spec(spec):
    """hidden-layer list as the estimator accepts it (tanh has no keyword: passed as a callable layer)"""
    return [(_act(v) if v == "tanh" else v) for v in spec]


def _module(spec, n_in, n_out, final_sigmoid):
    import torch
    layers, prev = [], n_in
    for v in spec:
        if isinstance(v, int):
            layers.append(torch.nn.Linear(prev, v))
            prev = v
        else:
            layers.append(_act(v))
    layers.append(torch.nn.Linear(prev, n_out))
    if final_sigmoid:
        layers.append(torch.nn.Sigmoid())
    return torch.nn.Sequential(*layers)


def _width(kind, vals):
    import numpy as np
    if kind == "binary":
        return 1
    if kind == "multiclass":
        return len(set(vals))
    return np.asarray(vals).reshape(len(vals), -1).shape[1]


def _loss(kind):
    """the documented losses, built here independently of the engine's get_loss"""
    import torch
    if kind == "binary":
        return torch.nn.BCELoss(reduction="mean")
    if kind == "multiclass":
        return torch.nn.CrossEntropyLoss(reduction="mean")
    return torch.nn.MSELoss(reduction="mean")


def _m2(t):
    """tensor -> list of rows of python floats (a vector is one row)"""
    a = t.detach().double().numpy()
    if a.ndim == 1:
        a = a.reshape(1, -1)
    return [[float(v) for v in row] for row in a.reshape(a.shape[0], -1)]


def impl(case):
    import copy
    import numpy as np
    import torch
    from fairlearn.adversarial import AdversarialFairnessClassifier, AdversarialFairnessRegressor
    torch.set_num_threads(1)
    ytype, atype = case["ytype"], case["atype"]
    wb, ob = case["warm_batch"], case["batch"]
    eo = case["constraints"] == "equalized_odds"
    lr_p, lr_a = case["lr_p"], case["lr_a"]
    torch.manual_seed(case["rs"])
    if case["variant"] == "list":
        pm, am = _list_spec(case["pred"]), _list_spec(case["adv"])
    else:
        ny, na = _width(ytype, wb["y"]), _width(atype, wb["a"])
        d = len(wb["X"][0])
        pm = _module(case["pred"], d, ny, ytype == "binary")
        am = _module(case["adv"], ny * (2 if eo else 1), na, atype == "binary")
        if case.get("zero") == "adv":
            first = next(m for m in am if isinstance(m, torch.nn.Linear))
            with torch.no_grad():
                first.weight.zero_()
    Est = AdversarialFairnessRegressor if ytype == "continuous" else AdversarialFairnessClassifier
    est = Est(backend="torch", predictor_model=pm, adversary_model=am,
              predictor_optimizer=lambda m: torch.optim.SGD(m.parameters(), lr=lr_p),
              adversary_optimizer=lambda m: torch.optim.SGD(m.parameters(), lr=lr_a),
              constraints=case["constraints"], alpha=case.get("alpha_warm", case["alpha"]),
              random_state=case["rs"])

    def arrs(b):
        return np.array(b["X"], dtype=float), np.array(b["y"]), np.array(b["a"])

    Xw, yw, aw = arrs(wb)
    for _ in range(case["warm"]):
        est.partial_fit(Xw, yw, sensitive_features=aw)
        eng = est.backendEngine_
        if not all(bool(torch.isfinite(p).all()) for mdl in (eng.predictor_model, eng.adversary_model)
                   for p in mdl.parameters()):
            return {"warm_nonfinite": True, "tensors": [], "adv": []}
    if "alpha_warm" in case:
        est.set_params(alpha=case["alpha"])
    X, y, a = arrs(ob)
    if case["warm"] == 0:
        P, U = pm, am                                  # user modules: the very first step is observed
    else:
        P, U = est.backendEngine_.predictor_model, est.backendEngine_.adversary_model
    before_p, before_u = copy.deepcopy(P.state_dict()), copy.deepcopy(U.state_dict())
    Wb = [p.detach().clone() for p in P.parameters()]
    Ub = [p.detach().clone() for p in U.parameters()]
    est.partial_fit(X, y, sensitive_features=a)
    P2, U2 = est.backendEngine_.predictor_model, est.backendEngine_.adversary_model
    Wa = [p.detach().clone() for p in P2.parameters()]
    Ua = [p.detach().clone() for p in U2.parameters()]

    # independent gradients at the parameters BEFORE the step, on copies of the user-visible models
    Pc, Uc = copy.deepcopy(P2), copy.deepcopy(U2)
    Pc.load_state_dict(before_p)
    Uc.load_state_dict(before_u)
    Pc.train()
    Uc.train()
    Xt = torch.from_numpy(X).float()
    Yt = torch.from_numpy(np.asarray(est._y_transform.transform(y), dtype=float)).float()
    At = torch.from_numpy(np.asarray(est._sf_transform.transform(a), dtype=float)).float()
    Yhat = Pc(Xt)
    LP = _loss(ytype)(Yhat, Yt)
    pp, up = list(Pc.parameters()), list(Uc.parameters())
    gP = torch.autograd.grad(LP, pp, retain_graph=True, allow_unused=True)
    inp = torch.cat((Yhat, Yt), dim=1) if eo else Yhat
    LA = _loss(atype)(Uc(inp), At)
    gA = torch.autograd.grad(LA, pp, retain_graph=True, allow_unused=True)
    gU = torch.autograd.grad(LA, up, allow_unused=True)
    z = lambda g, p: torch.zeros_like(p) if g is None else g
    tensors = []
    for p, wb_, wa_, g1, g2 in zip(pp, Wb, Wa, gP, gA):
        tensors.append({"W": _m2(wb_), "W2": _m2(wa_), "gP": _m2(z(g1, p)), "gA": _m2(z(g2, p))})
    adv = []
    for p, ub_, ua_, g in zip(up, Ub, Ua, gU):
        adv.append({"U": _m2(ub_), "U2": _m2(ua_), "gU": _m2(z(g, p))})
    return {"tensors": tensors, "adv": adv, "LP": float(LP.detach()), "LA": float(LA.detach()),
            "n_tensors": len(tensors), "n_adv": len(adv)}


# --------------------------------------------------------------------------------------------------
# model term / decode
# --------------------------------------------------------------------------------------------------
def _finite(m):
    return all(math.isfinite(v) for row in m for v in row)


def _gm(m):
    return glist([glist([gq(Fraction(v)) for v in row]) for row in m])


def _frob(A, B):
    return sum(Fraction(x) * Fraction(y) for ra, rb in zip(A, B) for x, y in zip(ra, rb))


def _usable(out):
    return out is not None and not out.get("warm_nonfinite") and all(_finite(t["gP"]) and _finite(t["gA"]) and _finite(t["W"]) for t in out["tensors"]) \
        and all(_finite(t["gU"]) and _finite(t["U"]) for t in out["adv"])


def _scale_exp(ten):
    """e such that 2^e * (every entry of gP, gA) is an integer with >= 40 spare low bits (gradients are dyadic).
    The update is homogeneous: run_tensor on (K gP, K gA, K s, K tiny) returns K * (the result), K^2 * residual;
    integer inputs keep the fractions of the Coq run small."""
    e = 0
    for key in ("gP", "gA"):
        for row in ten[key]:
            for v in row:
                e = max(e, Fraction(v).denominator.bit_length() - 1)
    return e + 40


def _gmi(m, K):
    return glist([glist([gq(Fraction(v) * K) for v in row]) for row in m])


def term(case, out):
    if not _usable(out):
        return None
    t = _engine_term()
    parts = []
    alpha = gq(Fraction(case["alpha"]))
    for ten in out["tensors"]:
        K = 2 ** _scale_exp(ten)
        f = _frob(ten["gA"], ten["gA"]) * K * K
        assert f.denominator == 1
        s = Fraction(math.isqrt(f.numerator))            # floor of the exact norm of K*gA: relative error < 2^-40
        parts.append(f"enc_run (run_tensor T {gq(s)} {gq(TINY32 * K)} {alpha} {_gmi(ten['gP'], K)} "
                     f"{_gmi(ten['gA'], K)})")
    lr = gq(Fraction(case["lr_a"]))
    for ten in out["adv"]:
        parts.append(f"enc_mat (sgd {_gm(ten['U'])} {_gm(ten['gU'])} {lr})")
    T = f"(Some {t})" if t else "None"
    head = f"({len(out['tensors'])}%Z :: {len(out['adv'])}%Z :: nil)"
    return f"let T : option tx := {T} in " + " ++ ".join([head] + parts)


def decode(case, zs):
    d = Dec(zs)
    mat = lambda: d.list(lambda: d.list(d.q))
    res = {"tensors": [], "adv": []}
    nt, na = d.z(), d.z()
    for _ in range(nt):
        g = mat()
        e = d.opt(mat)
        r = d.q()
        res["tensors"].append({"g": g, "eval": e, "residual": r})
    for _ in range(na):
        res["adv"].append(mat())
    d.done()
    return res


# --------------------------------------------------------------------------------------------------
# comparison
# --------------------------------------------------------------------------------------------------
def _fnorm(m):
    return math.sqrt(sum(float(v) ** 2 for row in m for v in row))


def _amax(m):
    return max([abs(float(v)) for row in m for v in row] or [0.0])


def _maxdiff(A, B):
    return max([abs(float(x) - float(y)) for ra, rb in zip(A, B) for x, y in zip(ra, rb)] or [0.0])


def _shape(m):
    return (len(m), len(m[0]) if m else 0)


def _dW(ten, lr, k1="W", k2="W2"):
    return [[(x - y) / lr for x, y in zip(ra, rb)] for ra, rb in zip(ten[k1], ten[k2])]


def _allpairs_gap(ten):
    """|sum(inner(gA, gP)) - <gA, gP>| relative to |gA||gP| (floats)"""
    gA, gP = ten["gA"], ten["gP"]
    ap = sum(sum(x * y for x, y in zip(ra, rb)) for ra in gA for rb in gP)
    fr = sum(x * y for ra, rb in zip(gA, gP) for x, y in zip(ra, rb))
    den = _fnorm(gA) * _fnorm(gP)
    return abs(ap - fr) / den if den > 0 else 0.0


def compare(case, out, model):
    v = []
    if out.get("warm_nonfinite"):
        return [(f"{PID}/partial_fit/predictor-update/non-finite",
                 "a warm-up partial_fit step on finite data left non-finite parameters",
                 "parameters stay finite on finite gradients", "property")]
    alpha, lr_p, lr_a = float(case["alpha"]), float(case["lr_p"]), float(case["lr_a"])
    nt = len(out["tensors"])
    if model is not None:
        # decode cannot know the split: redo it with the number of tensors the implementation reported
        allm = model["tensors"]
        if len(allm) != nt or len(model["adv"]) != len(out["adv"]):
            return [(f"{PID}/harness/decode-split", "model result does not have one entry per tensor",
                     "one model entry per tensor", "correspondence")]
    for k, ten in enumerate(out["tensors"]):
        shp = _shape(ten["W"])
        gzero = _amax(ten["gA"]) == 0.0
        if not _finite(ten["W2"]):
            if gzero and _finite(ten["W"]) and _finite(ten["gP"]):
                v.append((f"{PID}/partial_fit/predictor-update/nan-on-zero-adversary-gradient",
                          f"predictor tensor {k} {shp}: adversary gradient is all zero and the step wrote NaN/inf "
                          f"into the parameters", "zero adversary gradient: the tensor moves along dLP/dW", "property"))
            else:
                v.append((f"{PID}/partial_fit/predictor-update/non-finite",
                          f"predictor tensor {k} {shp}: non-finite parameters after the step",
                          "parameters stay finite on finite gradients", "property"))
            continue
        if model is None:
            continue
        K = 2 ** _scale_exp(ten)
        m = model["tensors"][k]
        m = {"g": [[x / K for x in row] for row in m["g"]], "residual": m["residual"],
             "eval": None if m["eval"] is None else [[x / K for x in row] for row in m["eval"]]}
        dW = _dW(ten, lr_p)
        nA, nP = _fnorm(ten["gA"]), _fnorm(ten["gP"])
        if 0 < nA < NORM_FLOOR:
            continue          # float32 cannot form this norm reliably (squares underflow): outside the rational model
        c = abs(float(_frob(ten["gA"], ten["gP"]))) / (nA * nA) if nA > 0 else 0.0
        scale = nP + (c + alpha) * nA
        round_w = 8 * EPS32 * _amax(ten["W"]) / lr_p
        tol = 1e-4 * scale + round_w + 1e-30
        diff = _maxdiff(dW, m["g"])
        if diff > tol:
            v.append((f"{PID}/partial_fit/predictor-update/differs-from-projected-gradient",
                      f"predictor tensor {k} {shp}: (W_before - W_after)/lr differs from gP - proj_gA(gP) - "
                      f"alpha*gA by {diff:.3g} (tolerance {tol:.3g})",
                      "update direction = AdvUpdate.combine on autograd gradients", "property"))
        # the property's own oracle, on the implementation alone
        res = sum((x + alpha * ga) * ga for rd, ra in zip(dW, ten["gA"]) for x, ga in zip(rd, ra))
        numel = shp[0] * shp[1]
        if abs(res) > (1e-4 * scale + round_w * math.sqrt(numel)) * nA + 1e-30:
            v.append((f"{PID}/partial_fit/predictor-update/not-orthogonal",
                      f"predictor tensor {k} {shp}: <dW + alpha*gA, gA> = {res:.3g}, |gA| = {nA:.3g}, "
                      f"scale {scale:.3g}", "<g + alpha*dLA/dW, dLA/dW> = 0", "property"))
        if m["residual"] != 0 and not gzero:
            v.append((f"{PID}/model/residual/theorem-contradicted",
                      f"tensor {k}: exact residual of combine is {m['residual']} (contradicts update_orthogonal: "
                      f"harness or build defect)", "orth_residual (combine ..) == 0", "correspondence"))
        if _engine_term() is not None:
            if m["eval"] is None:
                v.append((f"{PID}/model/engine-term/no-value",
                          f"tensor {k} {shp}: the regenerated engine term has no value (division by an exact zero) "
                          f"while the implementation produced finite parameters",
                          "eval of the generated term = implementation", "correspondence"))
            else:
                d2 = _maxdiff(dW, m["eval"])
                if d2 > tol and diff <= tol:
                    v.append((f"{PID}/model/engine-term/differs-from-implementation",
                              f"tensor {k} {shp}: value of the regenerated engine term differs from the "
                              f"implementation by {d2:.3g} (tolerance {tol:.3g})",
                              "eval of the generated term = implementation", "correspondence"))
                if _maxdiff(m["eval"], m["g"]) > 1e-9 * scale + 1e-30 and diff <= tol and d2 <= tol:
                    v.append((f"{PID}/model/engine-term/differs-from-closed-form",
                              f"tensor {k}: value of the regenerated term differs from combine beyond 1e-9",
                              "eval_general: eval == combine_n2", "correspondence"))
    for k, ten in enumerate(out["adv"]):
        shp = _shape(ten["U"])
        if not _finite(ten["U2"]):
            v.append((f"{PID}/partial_fit/adversary-update/non-finite",
                      f"adversary tensor {k} {shp}: non-finite parameters after the step",
                      "parameters stay finite on finite gradients", "property"))
            continue
        dU = _dW(ten, lr_a, "U", "U2")
        tol = 1e-4 * _fnorm(ten["gU"]) + 8 * EPS32 * _amax(ten["U"]) / lr_a + 1e-30
        diff = _maxdiff(dU, ten["gU"])
        if diff > tol:
            v.append((f"{PID}/partial_fit/adversary-update/differs-from-plain-gradient",
                      f"adversary tensor {k} {shp}: (U_before - U_after)/lr differs from dLA/dU by {diff:.3g} "
                      f"(tolerance {tol:.3g})", "adversary follows the plain gradient of LA", "property"))
        elif model is not None:
            d2 = _maxdiff(ten["U2"], model["adv"][k])
            if d2 > lr_a * tol:
                v.append((f"{PID}/model/sgd/differs-from-implementation",
                          f"adversary tensor {k}: AdvUpdate.sgd differs from the stepped parameters by {d2:.3g}",
                          "U_after = sgd U gU lr", "correspondence"))
    return v


def tags(case, out, model):
    t = [f"variant:{case['variant']}", f"y:{case['ytype']}", f"a:{case['atype']}", f"c:{case['constraints'][:2]}",
         f"alpha:{case['alpha']}", f"hidden:{sum(1 for x in case['pred'] if isinstance(x, int))}",
         f"zero:{case.get('zero')}", f"alpha-reconfigured:{'alpha_warm' in case}"]
    if not out["tensors"]:
        return t + ["warm-up-nonfinite"]
    rows = max(_shape(x["W"])[0] for x in out["tensors"])
    t.append(f"maxrows:{rows}")
    if any(_amax(x["gA"]) == 0.0 for x in out["tensors"]):
        t.append("has-zero-gA-tensor")
    if any(0 < _fnorm(x["gA"]) < NORM_FLOOR for x in out["tensors"]):
        t.append("tensor-skipped-norm-below-floor")
    return t


def nontrivial(case, out, model):
    for ten in out["tensors"]:
        if _shape(ten["W"])[0] >= 2 and _finite(ten["gA"]) and _amax(ten["gA"]) > 0 and _allpairs_gap(ten) > 1e-3:
            return True
    return False


def canon(case):
    return {k: v for k, v in case.items() if not k.startswith("_")}


def _drop_layer(spec):
    idx = [i for i, v in enumerate(spec) if isinstance(v, int)]
    for i in idx:
        j = i + 1
        while j < len(spec) and not isinstance(spec[j], int):
            j += 1
        yield spec[:i] + spec[j:]
    for i, v in enumerate(spec):
        if not isinstance(v, int):
            yield spec[:i] + spec[i + 1:]


def shrink(case):
    if "alpha_warm" in case:
        yield {k: v for k, v in case.items() if k != "alpha_warm"}
    for s in _drop_layer(case["adv"]):
        yield dict(case, adv=s)
    if case.get("zero") != "X":
        for s in _drop_layer(case["pred"]):
            yield dict(case, pred=s)
    if case["warm"] > (1 if case["variant"] == "list" else 0):
        yield dict(case, warm=case["warm"] - 1)
    if case["constraints"] == "equalized_odds":
        yield dict(case, constraints="demographic_parity")
