"""C01 -- MetricFrame disaggregation is exact: each cell is the metric on that subgroup."""
from __future__ import annotations
import itertools
import json
import math
from fractions import Fraction
from harness.core import Rng, gz, glist, gopt, Dec, num_close

PID = "C01"
VO = ["theories/Metrics/Disagg.vo", "theories/Metrics/Disagg_proofs.vo", "theories/Base/Flat.vo",
      "theories/Metrics/Disagg_ext.vo", "theories/Metrics/Disagg_ext_proofs.vo"]
PROPS_FILES = ["props/C01.v"]
TRANSLATORS = ["t_disagg"]
REQUIRES = ["From FL Require Import Num ListX Flat Disagg Disagg_ext."]
SHARD = 40
CHUNK = 8
CASE_TIMEOUT = 120
PARTIAL = ["C01_param_collision_refuted"]

LEVEL_TEXT = ("Proof (Coq): for the frame MetricFrame.__init__ builds (named columns; sample parameters stored under "
              "the generated name f'{prefix}_{param}' and looked up by name), for every cell type and every family "
              "of metric callables: each by_group / overall entry is the callable applied to y_true, y_pred and the "
              "metric's own parameters sliced by the mask of rows whose (control ++ sensitive) code tuple equals the "
              "index key; the index is the observed keys (one grouping column) or the product of per-column observed "
              "values (several), duplicate-free, covers every row, and a key without rows holds NaN. Hypothesis: "
              "generated column names pairwise distinct (shown necessary: C01_param_collision_refuted = finding F8). "
              "_extract_result (callable-vs-dict unwrapping) only selects: column 0 with the same index / the single "
              "entry, never a changed value (C01_extract_preserves, C01_callable_*); feature names are the given "
              "name (Series name, DataFrame column, dict key) or base ++ decimal position, generated names pairwise "
              "distinct (C01_feature_names_spec). Tie to the code: (a) translator t_disagg regenerates from the "
              "source the no-grouping test, the re-index test `len(grouping_names) > 1`, the index levels, the "
              "absence of a reindex fill value, the positional / keyword argument assembly of "
              "AnnotatedMetricFunction.__call__, the grouping names of overall / by_group, _extract_result and the "
              "name bases; C01_src_* state that the pipeline with these regenerated parts IS Disagg.apply_functions; "
              "(b) differential run of the same Gallina definitions against MetricFrame on generated "
              "datasets with an exact row fingerprint metric, from container TAGS (names, unwrapped result shapes "
              "and Series names are the model's).")
LEVEL_NOTE = ("Trusted: Coq kernel + vm_compute; the model of pandas DataFrame column assignment / groupby / reindex "
              "/ np.unique (Disagg.set_col, row_keys, kuniq, product o zuniq) and of .iloc[:, 0] / .iloc[0] "
              "(Disagg_ext.iloc_col0 / iloc_row0) is tied by correspondence, not verified.")
TECHNIQUE = "Coq proof about an executable model of the disaggregation pipeline + differential model/implementation run"
TRUSTED = ["Coq 8.16.1 kernel and vm_compute", "harness/props/c01.py (generators, metric callables, comparison)",
           "translators/t_disagg.py (Python ast -> Gallina for the grouping / call / unwrapping decisions)",
           "pandas groupby/reindex, numpy unique (modelled)", "no axioms (Print Assumptions: closed)"]
ASSUMPTIONS = ["category codes are assigned to feature values in their sort order (np.unique / groupby order)",
               "generated parameter column names f'{metric}_{param}' are pairwise distinct and distinct from "
               "y_true, y_pred and the feature names (necessary: see C01_param_collision_refuted)",
               "feature names are pairwise distinct (the constructor raises otherwise)"]
RULE = ("cases: random datasets n in 1..12, 1..3 sensitive and 0..2 control columns with 1..4 levels, in every "
        "accepted container (list / ndarray / Series / DataFrame / dict), bare callable vs dict of 1..3 metrics "
        "(count, weighted selection rate, weighted accuracy, exact row fingerprint), 0..2 sample parameters per "
        "metric; thorough adds the exhaustive stream n <= 3; one dedicated column-name-collision case (F8). "
        "non-trivial = at least two observed groups")
EXHAUSTIVE = {"quick": False, "thorough": False}

SF_BASE = "sensitive_feature_"
CF_BASE = "control_feature_"
ALPHABETS = [[0, 1, 2, 3], ["a", "b", "c", "d"], [10, 2, 33, 4], ["B", "a", "A", "b"]]
KINDS = {"cnt": 0, "sr": 1, "acc": 2, "fp": 3}
COLLISION_SIG = "C01/MetricFrame/sample_params/column-name-collision"


def _cp(s):
    return [ord(c) for c in s]


def _gname(s):
    return glist(_cp(s), gz)


def _feat(r, n, single_ok):
    nlev = r.randint(1, 4)
    alpha = sorted(r.choice(ALPHABETS))[:4]
    codes = [r.randint(0, nlev - 1) for _ in range(n)]
    return {"alpha": alpha, "codes": codes}


def _container(r, ncol, n=2):
    # (a ONE-row dataset with ndarray features used to be rejected: np.squeeze removed the row axis; repaired
    #  in /repo 0478332, so arrays are generated for n = 1 as well and a recurrence is a failing input)
    if ncol == 1:
        return r.choice(["list", "ndarray", "series", "series_named", "dataframe", "dict", "ndarray2d"])
    return r.choice(["ndarray2d", "dataframe", "dict"])


def _metric(r, n, name, kind):
    params = []
    np_ = r.choice([0, 0, 1, 1, 2])
    names = ["sample_weight", "extra"]
    if np_ == 1:
        names = [r.choice(names)]
    for p in names[:np_]:
        if p == "extra" and r.chance(1, 3):
            # values a float64 cannot hold exactly (ids, nanosecond time stamps): the metric must receive the
            # caller's values, not a float image of them
            params.append([p, [2 ** 53 + r.randint(1, 9) for _ in range(n)]])
        else:
            params.append([p, [r.randint(1, 4) for _ in range(n)]])
    if r.chance(1, 2):
        params.reverse()
    return {"name": name, "kind": kind, "params": params}


def _random_case(r, n=None):
    n = n or r.randint(1, 12)
    nsf = r.choice([1, 1, 2, 2, 3])
    ncf = r.choice([0, 0, 1, 2])
    c = {"kind": "normal", "n": n,
         "label": [r.randint(0, 1) for _ in range(n)], "y_pred": [r.randint(0, 1) for _ in range(n)],
         "sf": [_feat(r, n, True) for _ in range(nsf)], "cf": [_feat(r, n, True) for _ in range(ncf)],
         "sf_container": _container(r, nsf, n), "cf_container": _container(r, ncf, n) if ncf else None,
         "sf_names": [f"s{chr(65 + j)}" for j in range(nsf)], "cf_names": [f"c{chr(65 + j)}" for j in range(ncf)]}
    if r.chance(1, 3):
        # feature names (DataFrame columns / dict keys / Series names) NOT in sorted order: the order of the
        # features is the order given, never an alphabetical one
        c["sf_names"] = c["sf_names"][::-1]
        c["cf_names"] = c["cf_names"][::-1]
    c["sp_container"] = r.choice(["list", "list", "ndarray", "series_perm", "series_offset", "series_str",
                                  "frame1_perm"])
    c["callable"] = r.chance(1, 3)
    if c["callable"]:
        k = r.choice(["fp", "fp", "sr", "acc", "cnt"])
        c["metrics"] = [_metric(r, n, k, k)]
    else:
        ks = r.sample(["fp", "sr", "acc", "cnt"], r.randint(1, 3))
        if "fp" not in ks and r.chance(1, 2):
            ks[0] = "fp"
        c["metrics"] = [_metric(r, n, k, k) for k in ks]
        if r.chance(1, 4):
            # the SAME callable object registered under a second (and third) name with its own parameters
            k = r.choice(ks)
            for j in range(r.randint(1, 2)):
                c["metrics"].append(_metric(r, n, f"{k}x{j}", k))
    return c


def _collision_case():
    n = 4
    return {"kind": "collision", "n": n, "label": [0, 1, 1, 0], "y_pred": [1, 0, 1, 1],
            "sf": [{"alpha": ["a", "b", "c", "d"], "codes": [0, 0, 1, 1]}], "cf": [],
            "sf_container": "list", "cf_container": None, "sf_names": ["sA"], "cf_names": [], "callable": False,
            "metrics": [{"name": "a", "kind": "fp", "params": [["b_c", [1, 2, 3, 4]]]},
                        {"name": "a_b", "kind": "fp", "params": [["c", [5, 6, 7, 8]]]}]}


def cases(tier, seed):
    out = [_collision_case()]
    nrand = {"quick": 300, "thorough": 3000}[tier]
    for i in range(nrand):
        out.append(_random_case(Rng(seed, PID, "rand", i)))
    if tier == "thorough":
        # exhaustive small stream: n <= 3, one or two 2-level sensitive columns, every y_pred
        i = 0
        for n in (1, 2, 3):
            for ncol in (1, 2):
                for codes in itertools.product(range(2), repeat=n * ncol):
                    for yp in itertools.product(range(2), repeat=n):
                        i += 1
                        if ncol == 2 and n == 3 and i % 4:
                            continue
                        r = Rng(seed, PID, "exh", i)
                        c = {"kind": "normal", "n": n, "label": [j % 2 for j in range(n)], "y_pred": list(yp),
                             "sf": [{"alpha": ["a", "b", "c", "d"], "codes": list(codes[k * n:(k + 1) * n])}
                                    for k in range(ncol)],
                             "cf": [], "sf_container": ("series" if ncol == 1 else "dataframe") if n == 1 else
                             ("ndarray" if ncol == 1 else "ndarray2d"), "cf_container": None,
                             "sf_names": ["sA", "sB"][:ncol], "cf_names": [], "callable": bool(i % 2),
                             "metrics": [{"name": "fp", "kind": "fp",
                                          "params": [["sample_weight", [r.randint(1, 4) for _ in range(n)]]]}]}
                        out.append(c)
    return out


# ---------------------------------------------------------------------------------------------
# implementation side
# ---------------------------------------------------------------------------------------------
def _make_metric(kind, name):
    import numpy as np

    def weights(y_true, kw):
        w = kw.get("sample_weight")
        return np.ones(len(y_true)) if w is None else np.asarray(w, dtype=float)

    if kind == "cnt":
        def f(y_true, y_pred, **kw):
            return len(y_true)
    elif kind == "sr":
        def f(y_true, y_pred, **kw):
            w = weights(y_true, kw)
            return float(np.sum(w * (np.asarray(y_pred) == 1)) / np.sum(w))
    elif kind == "acc":
        def f(y_true, y_pred, **kw):
            w = weights(y_true, kw)
            return float(np.sum(w * ((np.asarray(y_true) % 2) == np.asarray(y_pred))) / np.sum(w))
    else:
        def f(y_true, y_pred, **kw):
            return json.dumps({"pos": [[int(v) for v in y_true], [int(v) for v in y_pred]],
                               "kw": {k: [int(x) for x in v] for k, v in kw.items()}}, sort_keys=True)
    f.__name__ = name
    return f


def _features(feats, container, names):
    import numpy as np, pandas as pd
    cols = [[f["alpha"][c] for c in f["codes"]] for f in feats]
    if container == "list":
        return list(cols[0])
    if container == "ndarray":
        return np.array(cols[0], dtype=object)
    if container == "series":
        return pd.Series(cols[0])
    if container == "series_named":
        return pd.Series(cols[0], name=names[0])
    if container == "dataframe":
        return pd.DataFrame({nm: col for nm, col in zip(names, cols)})
    if container == "dict":
        return {nm: col for nm, col in zip(names, cols)}
    if container == "ndarray2d":
        arr = np.empty((len(cols[0]), len(cols)), dtype=object)
        for j, col in enumerate(cols):
            for i, v in enumerate(col):
                arr[i, j] = v
        return arr
    raise ValueError(container)


def _cell(v):
    import numpy as np
    if isinstance(v, str):
        d = json.loads(v)
        return ["fp", d["pos"], sorted([k, vals] for k, vals in d["kw"].items())]
    if v is None:
        return "nan"
    if isinstance(v, (float, np.floating)) and math.isnan(float(v)):
        return "nan"
    if isinstance(v, (int, float, np.integer, np.floating)):
        return float(v)
    return ["other", repr(v)]


def _key(idx, alphas):
    if not isinstance(idx, tuple):
        idx = (idx,)
    return [a.index(v.item() if hasattr(v, "item") else v) for v, a in zip(idx, alphas)]


def _spwrap(v, kind, n):
    """per-sample parameter in a container whose index labels must be IGNORED (rows pair by position)"""
    import numpy as np, pandas as pd
    v = list(v)
    if kind in (None, "list"):
        return v
    if kind == "ndarray":
        return np.array(v)
    perm = [(i * 7 + 3) % n for i in range(n)] if n > 1 else [5]
    if len(set(perm)) != n:
        perm = list(range(n - 1, -1, -1))
    if kind == "series_perm":
        return pd.Series(v, index=perm)
    if kind == "series_offset":
        return pd.Series(v, index=range(100, 100 + n))
    if kind == "series_str":
        return pd.Series(v, index=[f"r{j}" for j in perm])
    if kind == "frame1_perm":
        return pd.DataFrame({"w": v}, index=perm)
    raise ValueError(kind)


def impl(case):
    import pandas as pd
    from fairlearn.metrics import MetricFrame
    n = case["n"]
    spk = case.get("sp_container")
    y_true = [2 * i + l for i, l in enumerate(case["label"])]
    shared = {}
    fns = {}
    for m in case["metrics"]:      # metrics of the same kind are ONE callable object under several names
        if m["kind"] not in shared:
            shared[m["kind"]] = _make_metric(m["kind"], m["name"])
        fns[m["name"]] = shared[m["kind"]]
    if case["callable"]:
        m = case["metrics"][0]
        metrics = fns[m["name"]]
        sp = {p: _spwrap(v, spk, n) for p, v in m["params"]} or None
    else:
        metrics = fns
        sp = {m["name"]: {p: _spwrap(v, spk, n) for p, v in m["params"]} for m in case["metrics"] if m["params"]}
        if not sp:
            sp = None
    # a None-valued per-sample parameter (documented as "not given") placed BEFORE the real ones must not
    # affect them
    import hashlib as _h
    if sp is not None and int(_h.sha1(json.dumps([case["label"], case["y_pred"]]).encode()).hexdigest(), 16) % 3 == 0:
        if case["callable"]:
            sp = {"not_given": None, **sp}
        else:
            sp = {k_: {"not_given": None, **v_} for k_, v_ in sp.items()}
    kw = {}
    if case["cf"]:
        kw["control_features"] = _features(case["cf"], case["cf_container"], case["cf_names"])
    mf = MetricFrame(metrics=metrics, y_true=y_true, y_pred=list(case["y_pred"]),
                     sensitive_features=_features(case["sf"], case["sf_container"], case["sf_names"]),
                     sample_params=sp, **kw)
    import copy
    sp_keys_before = None if sp is None else sorted((k, sorted(v) if isinstance(v, dict) else None) for k, v in sp.items())
    # the SAME argument objects a second time: construction must not consume or alter them
    mf2 = MetricFrame(metrics=metrics, y_true=y_true, y_pred=list(case["y_pred"]),
                      sensitive_features=_features(case["sf"], case["sf_container"], case["sf_names"]),
                      sample_params=sp, **kw)
    sp_keys_after = None if sp is None else sorted((k, sorted(v) if isinstance(v, dict) else None) for k, v in sp.items())
    try:
        same = bool(pd.DataFrame(mf.by_group).astype(str).equals(pd.DataFrame(mf2.by_group).astype(str))) and \
            str(mf.overall) == str(mf2.overall)
    except Exception as e:  # noqa
        same = f"{type(e).__name__}: {e}"
    names = [m["name"] for m in case["metrics"]]
    galph = [f["alpha"] for f in case["cf"]] + [f["alpha"] for f in case["sf"]]
    calph = [f["alpha"] for f in case["cf"]]
    bg = mf.by_group
    shapes = {}
    for obs, obj, alph in (("by_group", mf.by_group, galph), ("overall", mf.overall, calph)):
        try:
            if isinstance(obj, pd.DataFrame):
                shapes[obs] = {"type": "DataFrame", "columns": [str(c) for c in obj.columns]}
            elif isinstance(obj, pd.Series):
                if alph and list(obj.index) != names:      # indexed by group keys
                    shapes[obs] = {"type": "Series", "name": None if obj.name is None else str(obj.name),
                                   "index_names": list(obj.index.names),
                                   "values": [[_key(idx, alph), _cell(v)] for idx, v in obj.items()]}
                else:                                      # indexed by metric name
                    shapes[obs] = {"type": "SeriesByMetric", "index": [str(k) for k in obj.index]}
            else:
                shapes[obs] = {"type": "scalar", "value": _cell(obj)}
        except Exception as e:  # noqa: an unexpected shape is reported by compare, not as a harness crash
            shapes[obs] = {"type": f"unrecognised {type(obj).__name__} ({type(e).__name__}: {e})"}
    if isinstance(bg, pd.Series):
        bg = bg.to_frame(name=names[0])
    res = {"by_group": [[_key(idx, galph), {c: _cell(row[c]) for c in bg.columns}] for idx, row in bg.iterrows()],
           "by_group_index_names": list(bg.index.names), "by_group_columns": [str(c) for c in bg.columns],
           "sensitive_levels": list(mf.sensitive_levels),
           "control_levels": None if mf.control_levels is None else list(mf.control_levels)}
    res["shapes"] = shapes
    res["second_construction_same"] = same
    res["sample_params_untouched"] = sp_keys_before == sp_keys_after
    ov = mf.overall
    if not case["cf"]:
        if case["callable"]:
            res["overall"] = [[[], {names[0]: _cell(ov)}]]
        else:
            res["overall"] = [[[], {str(k): _cell(v) for k, v in ov.items()}]]
    else:
        if isinstance(ov, pd.Series):
            ov = ov.to_frame(name=names[0])
        try:
            res["overall"] = [[_key(idx, calph), {c: _cell(row[c]) for c in ov.columns}] for idx, row in ov.iterrows()]
        except ValueError:     # not indexed by the control-feature levels: reported by compare (shape + oracle)
            res["overall"] = [[[f"unrecognised index entry {idx!r}"], {str(c): _cell(row[c]) for c in ov.columns}]
                              for idx, row in ov.iterrows()]
    return res


# ---------------------------------------------------------------------------------------------
# model side
# ---------------------------------------------------------------------------------------------
def _given(container, names, ncol):
    if container in ("dataframe", "dict", "series_named"):
        return [names[j] for j in range(ncol)]
    return [None] * ncol


def _ctag(container, names, ncol):
    """container kind -> Disagg_ext.fcontainer (the MODEL decides which names are given / generated)"""
    if container == "list":
        return "FList"
    if container == "ndarray":
        return "FArray1"
    if container == "ndarray2d":
        return f"(FArray2 {ncol}%nat)"
    if container == "series":
        return "(FSeries None)"
    if container == "series_named":
        return f"(FSeries (Some {_gname(names[0])}))"
    if container == "dataframe":
        return f"(FFrame {glist([_gname(x) for x in names[:ncol]])})"
    if container == "dict":
        return f"(FDict {glist([_gname(x) for x in names[:ncol]])})"
    raise ValueError(container)


def term(case, out):
    yt = [2 * i + l for i, l in enumerate(case["label"])]
    prefix = (lambda m: "None") if case["callable"] else (lambda m: m["name"])
    ms = glist([f"(Build_metric_spec Z {_gname(m['name'])} {_gname(prefix(m))} "
                + glist([f"({_gname(p)}, {glist(v, gz)})" for p, v in m["params"]]) + ")" for m in case["metrics"]])
    kinds = glist([f"({_gname(m['name'])}, {gz(KINDS[m['kind']])})" for m in case["metrics"]])
    sft = _ctag(case["sf_container"], case["sf_names"], len(case["sf"]))
    cft = f"(Some {_ctag(case['cf_container'], case['cf_names'], len(case['cf']))})" if case["cf"] else "None"
    sfc = glist([glist(f["codes"], gz) for f in case["sf"]])
    cfc = glist([glist(f["codes"], gz) for f in case["cf"]])
    cal = "true" if case["callable"] else "false"
    return (f"run_metric_frame_x {kinds} {cal} {glist(yt, gz)} {glist(case['y_pred'], gz)} {ms} {sft} {cft} "
            f"{sfc} {cfc}")


def _dstr(d):
    return "".join(chr(c) for c in d.list(d.z))


def _dcell(d):
    t = d.z()
    if t == 0:
        return d.q()
    if t == 1:
        return "nan"
    pos = d.list(lambda: d.list(d.z))
    kw = d.list(lambda: [_dstr(d), d.list(d.z)])
    return ["fp", pos, sorted(kw)]


def _dtable(d):
    def row():
        return {nm: (c if c is not None else "KeyError") for nm, c in
                d.list(lambda: (_dstr(d), d.opt(lambda: _dcell(d))))}
    return d.opt(lambda: d.list(lambda: [d.list(d.z), d.opt(row)]))


def _dextracted(d):
    def one():
        t = d.z()
        if t == 0:
            return {"kind": "same", "table": _dtable(d)}
        if t == 1:
            nm = _dstr(d)
            def entry():     # None = NaN row; "KeyError" = the call raised (never in a finished frame)
                c = d.opt(lambda: _dcell(d))
                return "KeyError" if c is None else c
            col = d.list(lambda: [d.list(d.z), d.opt(entry)])
            return {"kind": "column", "name": nm, "values": col}
        if t == 2:
            return {"kind": "scalar", "value": d.opt(lambda: _dcell(d))}
        return {"kind": "IndexError"}
    return d.opt(one)


def decode(case, zs):
    d = Dec(zs)
    bg = _dtable(d)
    ov = _dtable(d)
    sfn = d.list(lambda: _dstr(d))
    cfn = d.list(lambda: _dstr(d))
    xbg = _dextracted(d)
    xov = _dextracted(d)
    d.done()
    return {"by_group": bg, "overall": ov, "sensitive_levels": sfn, "control_levels": cfn,
            "extracted_by_group": xbg, "extracted_overall": xov}


def _shape_diff(case, obs, shape, x, index_names):
    """user-visible result (after _extract_result) against Disagg_ext.extract_result; None = equal"""
    if x is None:
        return "model raised KeyError"
    if x["kind"] == "same":
        want = "DataFrame" if (obs == "by_group" or case["cf"]) else "SeriesByMetric"
        if shape["type"] != want:
            return f"implementation returns a {shape['type']}, model: the underlying {want} unchanged"
        names = [m["name"] for m in case["metrics"]]
        got = shape.get("columns", shape.get("index"))
        if got != names:
            return f"metric labels {got} vs {names}"
        return None
    if x["kind"] == "column":
        if shape["type"] != "Series":
            return f"implementation returns a {shape['type']}, model: column 0 as a Series"
        if shape["name"] != x["name"]:
            return f"Series name {shape['name']!r} vs model {x['name']!r}"
        if shape["index_names"] != index_names:
            return f"index names {shape['index_names']} vs model {index_names}"
        if [k for k, _ in shape["values"]] != [k for k, _ in x["values"]]:
            return f"index {[k for k, _ in shape['values']]} vs model {[k for k, _ in x['values']]}"
        for (k, ci), (_, cm) in zip(shape["values"], x["values"]):
            if not _cell_eq(ci, cm):
                return f"key {k}: implementation {ci!r} model {cm!r}"
        return None
    if x["kind"] == "scalar":
        if shape["type"] != "scalar":
            return f"implementation returns a {shape['type']}, model: the single entry (.iloc[0])"
        if x["value"] is None or not _cell_eq(shape["value"], x["value"]):
            return f"implementation {shape['value']!r} model {x['value']!r}"
        return None
    return f"model: {x['kind']}"


def _cell_eq(ci, cm):
    """ci: implementation cell, cm: model cell (None = NaN row)."""
    if cm is None or cm == "nan":
        return ci == "nan"
    if isinstance(cm, Fraction):
        return isinstance(ci, float) and num_close(ci, cm)
    if isinstance(cm, list):
        return isinstance(ci, list) and ci[0] == "fp" and ci[1] == cm[1] and [list(x) for x in ci[2]] == cm[2]
    return False


def _table_diff(it, mt, names):
    """first difference between an implementation table and a model table, or None"""
    if mt is None:
        return "model raised KeyError"
    if [k for k, _ in it] != [k for k, _ in mt]:
        return f"index {[k for k, _ in it]} vs model {[k for k, _ in mt]}", "index"
    for (k, irow), (_, mrow) in zip(it, mt):
        if sorted(irow) != sorted(names):
            return f"columns {sorted(irow)} vs metrics {sorted(names)}", "cell"
        for nm in names:
            cm = None if mrow is None else mrow.get(nm)
            if not _cell_eq(irow[nm], cm):
                return f"key {k} metric {nm}: implementation {irow[nm]!r} model {cm!r}", "cell"
    return None


def _colliding(case):
    pre = (lambda m: "None") if case["callable"] else (lambda m: m["name"])
    gen = [f"{pre(m)}_{p}" for m in case["metrics"] for p, _ in m["params"]]
    return len(set(gen)) != len(gen)


def _oracle(case, table, galph_len, feats):
    """property oracle on the fingerprint cells: rows = exactly the rows with that key, parameters aligned"""
    n = case["n"]
    keys = [[f["codes"][i] for f in feats] for i in range(n)]
    for k, row in table:
        ids = [i for i in range(n) if keys[i] == k]
        for m in case["metrics"]:
            c = row.get(m["name"])
            if m["kind"] != "fp":
                continue
            if not ids:
                if c != "nan":
                    return f"key {k} has no rows but metric {m['name']} shows {c!r}"
                continue
            if not (isinstance(c, list) and c[0] == "fp"):
                return f"key {k}: metric {m['name']} shows {c!r} for rows {ids}"
            want_pos = [[2 * i + case["label"][i] for i in ids], [case["y_pred"][i] for i in ids]]
            want_kw = sorted([p, [v[i] for i in ids]] for p, v in m["params"])
            if c[1] != want_pos:
                return f"key {k}: metric {m['name']} was shown rows {c[1]} instead of {want_pos}"
            if [list(x) for x in c[2]] != want_kw:
                return f"key {k}: metric {m['name']} was shown parameters {c[2]} instead of its own {want_kw}"
    return None


def compare(case, out, model):
    v = []
    names = [m["name"] for m in case["metrics"]]
    gfeats = case["cf"] + case["sf"]
    # 1. property oracle (independent of the model)
    for obs, feats in (("by_group", gfeats), ("overall", case["cf"])):
        msg = _oracle(case, out[obs], len(feats), feats)
        if msg:
            sig = COLLISION_SIG if _colliding(case) else f"{PID}/MetricFrame/{obs}/rows-or-params-misaligned"
            v.append((sig, msg, "each cell is the metric on exactly the rows of that key, own parameters sliced "
                      "with them", "property"))
    if out.get("second_construction_same") is not True or out.get("sample_params_untouched") is False:
        v.append((f"{PID}/MetricFrame/arguments/consumed-or-altered-by-construction",
                  f"a second MetricFrame built from the same argument objects differs (same={out.get('second_construction_same')}, "
                  f"sample_params keys untouched={out.get('sample_params_untouched')})",
                  "construction is a pure function of its arguments", "property"))
    if _colliding(case):
        # the faithful model reproduces the collision: nothing more to compare
        return v
    # 2. definitional comparison with the proved model
    if model is not None:
        for obs in ("by_group", "overall"):
            d = _table_diff(out[obs], model[obs], names)
            if d:
                what, cls = d if isinstance(d, tuple) else (d, "cell")
                v.append((f"{PID}/MetricFrame/{obs}/{cls}-differs-from-model", what,
                          f"{obs} equals Disagg.mf_{obs}", "property"))
        if out["sensitive_levels"] != model["sensitive_levels"]:
            v.append((f"{PID}/MetricFrame/sensitive_levels/names-differ",
                      f"{out['sensitive_levels']} vs model {model['sensitive_levels']}", "feature naming", "property"))
        if (out["control_levels"] or []) != model["control_levels"]:
            v.append((f"{PID}/MetricFrame/control_levels/names-differ",
                      f"{out['control_levels']} vs model {model['control_levels']}", "feature naming", "property"))
        for obs, idxn in (("by_group", model["control_levels"] + model["sensitive_levels"]),
                          ("overall", model["control_levels"])):
            dmsg = _shape_diff(case, obs, out["shapes"][obs], model["extracted_" + obs], idxn)
            if dmsg:
                v.append((f"{PID}/MetricFrame/{obs}/extract-result-differs-from-model", dmsg,
                          f"mf.{obs} equals Disagg_ext.extract_result of Disagg.mf_{obs}", "property"))
        want_idx = model["control_levels"] + model["sensitive_levels"]
        if out["by_group_index_names"] != want_idx:
            v.append((f"{PID}/MetricFrame/by_group/index-names-differ",
                      f"{out['by_group_index_names']} vs {want_idx}", "index levels = control ++ sensitive names",
                      "property"))
    return v


def _groups(case):
    feats = case["cf"] + case["sf"]
    n = case["n"]
    sizes = {}
    for i in range(n):
        k = tuple(f["codes"][i] for f in feats)
        sizes[k] = sizes.get(k, 0) + 1
    return sizes


def tags(case, out, model):
    sizes = _groups(case)
    nempty = sum(1 for _, row in out["by_group"] if all(c == "nan" for c in row.values()))
    single = sum(1 for s in sizes.values() if s == 1)
    return [f"kind:{case['kind']}", f"n:{case['n']}", f"sf:{len(case['sf'])}", f"cf:{len(case['cf'])}",
            "callable" if case["callable"] else f"dict:{len(case['metrics'])}",
            f"params:{max(len(m['params']) for m in case['metrics'])}",
            f"empty-intersections:{min(nempty, 5)}{'+' if nempty >= 5 else ''}",
            f"single-member-groups:{min(single, 5)}{'+' if single >= 5 else ''}",
            f"sf-container:{case['sf_container']}", f"by_group-shape:{out['shapes']['by_group']['type'][:14]}",
            f"overall-shape:{out['shapes']['overall']['type'][:14]}"] + [f"metric:{m['kind']}" for m in case["metrics"]]


def nontrivial(case, out, model):
    return len(_groups(case)) >= 2


def canon(case):
    return {k: v for k, v in case.items() if not k.startswith("_")}


def shrink(case):
    n = case["n"]
    if n > 1:
        for i in range(n):
            c = json.loads(json.dumps(canon(case)))
            c["n"] = n - 1
            for key in ("label", "y_pred"):
                del c[key][i]
            for f in c["sf"] + c["cf"]:
                del f["codes"][i]
            for m in c["metrics"]:
                for p in m["params"]:
                    del p[1][i]
            yield c
    if len(case["metrics"]) > 1 and not case["callable"]:
        for j in range(len(case["metrics"])):
            c = json.loads(json.dumps(canon(case)))
            del c["metrics"][j]
            yield c
    for key in ("sf", "cf"):
        if len(case[key]) > (1 if key == "sf" else 0):
            for j in range(len(case[key])):
                c = json.loads(json.dumps(canon(case)))
                del c[key][j]
                del c[key + "_names"][j]
                if key == "cf" and not c["cf"]:
                    c["cf_container"] = None
                elif len(c[key]) == 1 and c[key + "_container"] == "ndarray2d":
                    pass
                yield c
