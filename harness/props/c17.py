"""C17 -- adversarial fit is the documented step schedule; predict stays in label space."""
from __future__ import annotations
from fractions import Fraction
from harness.core import Rng, gz, gq, glist, Dec

PID = "C17"
VO = ["theories/Misc/AdvSchedule.vo", "theories/Misc/AdvSchedule_proofs.vo", "theories/Base/Flat.vo"]
PROPS_FILES = ["props/C17.v"]
TRANSLATORS = ["t_adv_schedule"]
REQUIRES = ["From FL Require Import Num Flat ListX AdvSchedule."]
SHARD = 24
CHUNK = 2
CASE_TIMEOUT = 300

LEVEL_TEXT = ("Proof (Coq): for the model AdvSchedule.schedule that follows the loops of _AdversarialFairness.fit "
              "(batch_size -1 -> n, batches = ceil(n/bs), epochs -1 -> ceil(max_iter/batches), max_iter test before "
              "the callbacks, all callbacks called with step = n_iter_, stop = disjunction): step count, consecutive "
              "tiling slices, callback numbering/placement/stopping point, fit_state = partial_fit_state on the "
              "schedule's slices for EVERY train_step, encoder, data and initial state; predictions are in the "
              "training label set, positive class iff out >= 1/2, first arg-max, regression = raw. Tie to the code: "
              "translator t_adv_schedule (fail closed; loop constants, body order, threshold comparison regenerated "
              "and proved equal to the model's) + exhaustive differential run of 8.6k schedules through a recording "
              "BackendEngine (slices, rows of X/y/A, n_iter_, callback numbers and order, rejections) + label "
              "mapping runs (ints, strings; exact 0.5; tied maxima) + real PyTorch engine: fit vs the logged slices "
              "through partial_fit, all parameters bit-identical.")
LEVEL_NOTE = ("Trusted: Coq kernel + vm_compute; translator t_adv_schedule (Python ast -> Gallina expressions over Z); "
              "math.ceil(a/b) on small positive ints = -((-a)/b); numpy slicing, argmax, OneHotEncoder(drop='if_binary')"
              " inverse_transform are modelled, not verified; the backend's train_step is abstract (a Section variable);"
              " that transforming a slice equals slicing the transformed data (encoders fitted identically) and the "
              "bit-identity of the trained networks are correspondence, not proof; shuffle=False only.")
TECHNIQUE = "Coq proof on a loop-faithful model + source-regenerated loop constants + differential run (recording and real engines)"
TRUSTED = ["Coq 8.16.1 kernel and vm_compute", "translators/t_adv_schedule.py",
           "harness/props/c17.py, harness/props/_c17_engine.py (generators, recording engine, comparison)",
           "numpy slicing/argmax, sklearn OneHotEncoder, torch (executed, modelled only at their interface)",
           "no axioms (Print Assumptions: closed)"]
ASSUMPTIONS = ["shuffle=False; integer parameters; n small enough that math.ceil(n / batch_size) is exact (n < 2^52)",
               "callbacks return bool or None (anything else makes fit raise RuntimeError, not modelled)",
               "max_iter is set as an attribute: the public Classifier/Regressor constructors do not expose it",
               "fit == partial_fit is compared only on slice sequences partial_fit accepts: every slice of y and of the "
               "sensitive feature must have the target type of the whole and the first slice must contain every "
               "class (the encoders are fitted on the first slice)",
               "regression = raw output holds for continuous targets (type_of_target == 'continuous'); "
               "integer-valued regression targets are treated as classes by the code"]
RULE = ("cases: (sched) exhaustive box n 1..9 x batch_size {-1,1,2,3,4,10} x epochs {-1,1,2,3} x max_iter {-1,1,2,5} x "
        "10 callback configurations (none; one callback stopping never/1/2/4; two callbacks incl. first-only and "
        "last-only stops), 40 schedules per case through the recording engine, plus invalid parameter values; "
        "(predict) int and string label sets, outputs on a dyadic grid incl. exactly 1/2 and tied maxima; (torch) "
        "random geometries with the real PyTorch engine and SGD, fit vs logged slices through partial_fit. "
        "non-trivial = sched: some schedule in the group has a partial last batch, is cut by max_iter or stopped by a "
        "callback; predict: an output equals 1/2 exactly or a row has a tied maximum (cont: always); torch: at "
        "least two steps and every step changed the parameters")
EXHAUSTIVE = {"quick": True, "thorough": True}

NS = list(range(1, 10))
BSS = [-1, 1, 2, 3, 4, 10]
EPS = [-1, 1, 2, 3]
MIS = [-1, 1, 2, 5]
CBS = [None, [[]], [[1]], [[2]], [[4]], [[2], []], [[], [2]], [[4], [1]], [[], []], [[3], [3], []]]


# ---------------------------------------------------------------------------------------------
# reference schedule (input selection and tags only; the oracle is the Coq model)
# ---------------------------------------------------------------------------------------------
def _ref_slices(n, bs, ep, mi, stops):
    ok = lambda k: k == -1 or k > 0
    if not (ok(bs) and ok(ep) and ok(mi)) or (ep == -1 and mi == -1):
        return None
    b = n if bs == -1 else bs
    B = -((-n) // b)
    E = -((-mi) // B) if ep == -1 else ep
    out, it = [], 0
    for _ in range(E):
        for k in range(B):
            out.append((k * b, min((k + 1) * b, n)))
            it += 1
            if mi != -1 and it >= mi:
                return out
            if stops and any(it in s for s in stops):
                return out
    return out


def _kind_of(vals):
    """sklearn's type_of_target on a 1-d sample, for the value kinds used here"""
    if any(isinstance(v, float) and v != int(v) for v in vals):
        return "continuous"
    return "multiclass" if len(set(vals)) > 2 else "binary"


def _pf_accepts(col, slices):
    whole = _kind_of(col)
    for i, (lo, hi) in enumerate(slices):
        part = col[lo:hi]
        if _kind_of(part) != whole:
            return False
        if i == 0 and whole != "continuous" and set(part) != set(col):
            return False
    return True


# ---------------------------------------------------------------------------------------------
def _label_code(v):
    if isinstance(v, str):
        assert len(v) == 2
        return ord(v[0]) * 1000 + ord(v[1])
    return int(v)


INT_SETS2 = [[0, 1], [-3, 7], [5, 2], [1, 0], [10, 9]]
STR_SETS2 = [["no", "ye"], ["bb", "ab"], ["Zz", "aa"], ["b1", "b0"]]
INT_SETS_M = [[0, 1, 2], [5, -1, 3], [2, 7, 4, 1], [9, 8, 7, 6, 5]]
STR_SETS_M = [["aa", "ab", "ba"], ["zz", "Za", "mm", "az"], ["c3", "c1", "c2"]]
GRID = [Fraction(k, 8) for k in range(0, 9)] + [Fraction(1, 2) - Fraction(1, 2 ** 20), Fraction(1, 2) + Fraction(1, 2 ** 20),
                                               Fraction(-1, 4), Fraction(5, 4)]


def cases(tier, seed):
    out = []
    # ---- exhaustive schedule box, grouped by (n, batch_size, epochs) ----
    for n in NS:
        for bs in BSS:
            for ep in EPS:
                grp = [[mi, cb] for mi in MIS for cb in CBS]
                out.append({"kind": "sched", "n": n, "bs": bs, "ep": ep, "grp": grp,
                            "est": ["clf", "reg", "base"][(n + BSS.index(bs) + EPS.index(ep)) % 3]})
    # invalid parameter values: rejected by the estimator and by config_ok
    for n in (1, 4, 7):
        for bs, ep in [(0, 1), (-2, 1), (2, 0), (2, -3), (2, 1), (-1, -1), (3, -1)]:
            out.append({"kind": "sched", "n": n, "bs": bs, "ep": ep,
                        "grp": [[mi, cb] for mi in (-1, 0, -2, 2) for cb in (None, [[2]])], "est": "clf"})
    # ---- predict: label mapping ----
    npred = {"quick": 60, "thorough": 400}[tier]
    for i in range(npred):
        r = Rng(seed, PID, "pred", i)
        target = ["binary", "binary", "multi", "multi", "cont"][i % 5]
        if target == "binary":
            labels = list(r.choice(INT_SETS2 if (i // 5) % 2 == 0 else STR_SETS2))
            m = r.randint(4, 10)
            outs = [[r.choice(GRID + [Fraction(1, 2)] * 3)] for _ in range(m)]
        elif target == "multi":
            labels = list(r.choice(INT_SETS_M if (i // 5) % 2 == 0 else STR_SETS_M))
            m = r.randint(4, 10)
            small = [Fraction(0), Fraction(1, 4), Fraction(1, 2), Fraction(1, 2), Fraction(3, 4)]
            outs = [[r.choice(small) for _ in labels] for _ in range(m)]
        else:
            labels = None
            m = r.randint(3, 8)
            outs = [[Fraction(r.randint(-40, 40), 8)] for _ in range(m)]
        if labels is not None:
            ytrain = list(labels) + [r.choice(labels) for _ in range(r.randint(1, 5))]
            r.shuffle(ytrain)
        else:
            ytrain = [Fraction(2 * r.randint(-20, 20) + 1, 8) for _ in range(r.randint(3, 7))]
        out.append({"kind": "predict", "target": target, "ytrain": [str(v) if isinstance(v, Fraction) else v for v in ytrain],
                    "outs": [[str(v) for v in row] for row in outs]})
    # ---- real PyTorch engine: fit vs partial_fit ----
    nt = {"quick": 24, "thorough": 200}[tier]
    made = 0
    i = 0
    while made < nt and i < 50 * nt:
        r = Rng(seed, PID, "torch", i)
        i += 1
        target = r.choice(["binary", "binary", "multi", "cont"])
        sf = r.choice(["binary", "binary", "multi"])
        n = r.randint(3, 12)
        bs = r.choice([-1, 2, 3, 4, 5, 6, n, n + 1, max(2, n - 1)])
        ep = r.choice([1, 2, 3, -1])
        mi = r.choice([-1, -1, -1, 1, 2, 3, 5, 7])
        stops = r.choice([None, None, [[]], [[2]], [[3]], [[5]], [[4], []], [[], [2]]])
        sl = _ref_slices(n, bs, ep, mi, stops)
        if sl is None or (len(sl) < 2 and not r.chance(1, 8)):
            continue

        def col(kind):
            if kind == "cont":
                return [float(Fraction(2 * r.randint(-12, 12) + 1, 8)) for _ in range(n)]
            k = 2 if kind == "binary" else 3
            off = r.randint(0, k - 1)
            c = [(j + off) % k for j in range(n)]
            if kind == "binary" and r.chance(1, 2):       # random tail: later slices may hold a single class
                c = c[:2] + [r.randint(0, 1) for _ in range(n - 2)]
            return c
        y, A = col(target), col(sf)
        if not (_pf_accepts(y, sl) and _pf_accepts(A, sl)):
            continue
        if target != "cont" and len(set(y)) < (2 if target == "binary" else 3):
            continue
        if len(set(A)) < (2 if sf == "binary" else 3):
            continue
        d = r.randint(1, 3)
        X = [[float(Fraction(r.randint(-16, 16), 8)) for _ in range(d)] for _ in range(n)]
        out.append({"kind": "torch", "n": n, "bs": bs, "ep": ep, "mi": mi, "stops": stops, "target": target,
                    "sf": sf, "y": y, "A": A, "X": X,
                    "constraint": r.choice(["demographic_parity", "equalized_odds"]),
                    "hidden": r.choice([[], [], [3], [4, "relu"], [2, 3]]),
                    "adv_hidden": r.choice([[], [2], [3, "relu"]]),
                    "lr": r.choice([0.5, 0.125, 0.03125]), "alpha": r.choice([1.0, 0.5, 2.0]),
                    "rs": r.randint(0, 1000)})
        made += 1
    return out


# ---------------------------------------------------------------------------------------------
# implementation side
# ---------------------------------------------------------------------------------------------
def _frac(s):
    return Fraction(s)


def _run_fake_fit(n, bs, ep, mi, stops, est_kind, none_for_false):
    import numpy as np
    from fairlearn.adversarial import AdversarialFairnessClassifier, AdversarialFairnessRegressor
    from fairlearn.adversarial._adversarial_mitigation import _AdversarialFairness
    from harness.props import _c17_engine as E
    events = []
    cbs = E.make_callbacks(events, stops, none_for_false)
    if cbs is not None and len(cbs) == 1 and n % 2 == 0:
        cbs = cbs[0]                                   # a single callable instead of a list
    ids = np.arange(n)
    X = np.column_stack([ids / E.ID_SCALE, np.zeros(n)])
    A = (ids // 2) % 2
    common = dict(backend=E.make_recording_engine(events), predictor_model=[], adversary_model=[],
                  epochs=ep, batch_size=bs, callbacks=cbs, shuffle=False)
    if est_kind == "reg":
        y = ids * 0.375 + 0.125
        est = AdversarialFairnessRegressor(**common)
        est.max_iter = mi
    elif est_kind == "clf":
        y = ids % 2
        est = AdversarialFairnessClassifier(**common)
        est.max_iter = mi
    else:
        y = ids % 2
        est = _AdversarialFairness(max_iter=mi, **common)
    try:
        est.fit(X, y, sensitive_features=A)
    except ValueError as e:
        return {"raised": True, "msg": str(e)[:60], "partial_log": len(events)}
    ev, ok = E.flatten_events(events)
    # the rows of y / A handed to train_step are the transformed rows with the same ids
    Yt = np.asarray(est._y_transform.transform(y), dtype=float)
    At = np.asarray(est._sf_transform.transform(A), dtype=float)
    rows_ok = True
    for e in events:
        if e[0] == "S":
            idx = e[1]
            if not (np.array_equal(np.asarray(e[2], dtype=float), Yt[idx])
                    and np.array_equal(np.asarray(e[3], dtype=float), At[idx])):
                rows_ok = False
    return {"raised": False, "events": ev, "n_iter": int(est.n_iter_), "ok": bool(ok), "rows_ok": rows_ok}


def _impl_predict(case):
    import numpy as np
    from fairlearn.adversarial import AdversarialFairnessClassifier, AdversarialFairnessRegressor
    from harness.props import _c17_engine as E
    target = case["target"]
    outs = np.array([[float(_frac(v)) for v in row] for row in case["outs"]], dtype=float)
    k = outs.shape[1]
    events = []
    if target == "cont":
        y = np.array([float(_frac(v)) for v in case["ytrain"]])
        est = AdversarialFairnessRegressor(backend=E.make_recording_engine(events), predictor_model=[],
                                           adversary_model=[], batch_size=-1)
    else:
        y = np.array(case["ytrain"])
        est = AdversarialFairnessClassifier(backend=E.make_recording_engine(events), predictor_model=[],
                                            adversary_model=[], batch_size=-1)
    n = len(y)
    X = np.column_stack([np.arange(n) / E.ID_SCALE, np.zeros((n, k))])
    est.fit(X, y, sensitive_features=np.arange(n) % 2)
    Xt = np.column_stack([np.arange(len(outs)) / E.ID_SCALE, outs])
    pred = est.predict(Xt)
    raw = est._raw_predict(Xt)
    res = {"raw_ok": bool(np.array_equal(np.asarray(raw, dtype=float), outs)), "shape": list(np.shape(pred)),
           "kind": est._y_transform.inferred_type_}
    if target == "cont":
        res["pred"] = [float(v) for v in np.asarray(pred).reshape(-1)]
    else:
        res["pred"] = [v if isinstance(v, str) else int(v) for v in np.asarray(pred).reshape(-1).tolist()]
    return res


def _impl_torch(case):
    import hashlib
    import numpy as np
    from fairlearn.adversarial import AdversarialFairnessClassifier, AdversarialFairnessRegressor
    from harness.props import _c17_engine as E
    n = case["n"]
    X = np.column_stack([np.arange(n) / E.ID_SCALE, np.array(case["X"], dtype=float)])
    y = np.array(case["y"])
    A = np.array(case["A"])
    cls = AdversarialFairnessRegressor if case["target"] == "cont" else AdversarialFairnessClassifier

    def mk(events, cbs):
        est = cls(backend=E.make_torch_engine(events), predictor_model=list(case["hidden"]),
                  adversary_model=list(case["adv_hidden"]), predictor_optimizer="SGD", adversary_optimizer="SGD",
                  constraints=case["constraint"], learning_rate=case["lr"], alpha=case["alpha"],
                  epochs=case["ep"], batch_size=case["bs"], shuffle=False, callbacks=cbs,
                  random_state=case["rs"])
        est.max_iter = case["mi"]
        return est

    def params(est):
        be = est.backendEngine_
        out = []
        for name, m in (("P", be.predictor_model), ("A", be.adversary_model)):
            for kname, t in m.state_dict().items():
                out.append((f"{name}.{kname}", t.detach().cpu().numpy().copy()))
        return out

    def digest(ps):
        h = hashlib.sha256()
        for k, a in ps:
            h.update(k.encode()); h.update(str(a.shape).encode()); h.update(a.tobytes())
        return h.hexdigest()

    ev1 = []
    a = mk(ev1, E.make_callbacks(ev1, case["stops"]))
    a.fit(X, y, sensitive_features=A)
    flat, ok = E.flatten_events(ev1)
    slices = [(e[1], e[2]) for e in flat if e[0] == 0]
    pa = params(a)
    res = {"raised": False, "events": flat, "n_iter": int(a.n_iter_), "ok": bool(ok), "rows_ok": True}
    ev2 = []
    b = mk(ev2, None)
    digests = []
    try:
        for lo, hi in slices:
            if lo < 0:
                raise RuntimeError("fit passed non-consecutive rows to train_step")
            b.partial_fit(X[lo:hi], y[lo:hi], sensitive_features=A[lo:hi])
            digests.append(digest(params(b)))
    except Exception as e:  # noqa
        res["pf_error"] = f"{type(e).__name__}: {str(e)[:100]}"
        return res
    pb = params(b)
    same_keys = [k for k, _ in pa] == [k for k, _ in pb]
    diff = 0.0
    equal = same_keys
    if same_keys:
        for (k, u), (_, v) in zip(pa, pb):
            if u.shape != v.shape or u.tobytes() != v.tobytes():
                equal = False
                if u.shape == v.shape:
                    diff = max(diff, float(np.max(np.abs(u.astype(float) - v.astype(float)))))
                else:
                    diff = float("inf")
    res.update({"pf_error": None, "equal": bool(equal), "maxdiff": diff, "ntensors": len(pa),
                "moved": len(digests) >= 2 and all(digests[i] != digests[i + 1] for i in range(len(digests) - 1)),
                "finite": bool(all(np.all(np.isfinite(u)) for _, u in pa))})
    return res


def impl(case):
    kind = case["kind"]
    if kind == "sched":
        n = case["n"]
        return {"runs": [_run_fake_fit(n, case["bs"], case["ep"], mi, stops, case["est"], (n + j) % 2 == 1)
                         for j, (mi, stops) in enumerate(case["grp"])]}
    if kind == "predict":
        return _impl_predict(case)
    if kind == "torch":
        return _impl_torch(case)
    raise ValueError(kind)


# ---------------------------------------------------------------------------------------------
# model side
# ---------------------------------------------------------------------------------------------
def _gstops(stops):
    return glist([glist(s, gz) for s in (stops or [])])


def _fit_term(n, bs, ep, mi, stops):
    return f"enc_fit (fit_events {gz(n)} {gz(bs)} {gz(ep)} {gz(mi)} (cbs_of {_gstops(stops)}))"


def term(case, out):
    kind = case["kind"]
    if kind == "sched":
        return " ++ ".join(_fit_term(case["n"], case["bs"], case["ep"], mi, stops) for mi, stops in case["grp"])
    if kind == "torch":
        return _fit_term(case["n"], case["bs"], case["ep"], case["mi"], case["stops"])
    if kind == "predict":
        outs = [[_frac(v) for v in row] for row in case["outs"]]
        if case["target"] == "cont":
            return f"enc_list enc_q (map predict_cont {glist([gq(r[0]) for r in outs])})"
        ys = glist([_label_code(v) for v in case["ytrain"]], gz)
        if case["target"] == "binary":
            return (f"enc_list enc_z (classes_of {ys}) ++ "
                    f"enc_list enc_z (map (predict_label_bin {ys}) {glist([gq(r[0]) for r in outs])})")
        rows = glist([glist(r, gq) for r in outs])
        return (f"enc_list enc_z (classes_of {ys}) ++ "
                f"enc_list enc_z (map (predict_label_multi {ys}) {rows})")
    raise ValueError(kind)


def _dec_fit(d):
    if d.z() == 0:
        return None
    nit = d.z()
    m = d.z()
    ev = [[d.z(), d.z(), d.z()] for _ in range(m)]
    return {"n_iter": nit, "events": ev}


def decode(case, zs):
    d = Dec(zs)
    kind = case["kind"]
    if kind == "sched":
        res = [_dec_fit(d) for _ in case["grp"]]
    elif kind == "torch":
        res = _dec_fit(d)
    elif case["target"] == "cont":
        res = {"pred": d.list(d.q)}
    else:
        res = {"classes": d.list(d.z), "pred": d.list(d.z)}
    d.done()
    return res


# ---------------------------------------------------------------------------------------------
def _cmp_fit(entry, run, mod, cfg):
    """compare one fit run with the model's schedule"""
    v = []
    if run["raised"] != (mod is None):
        v.append((f"{PID}/{entry}/validation/differs-from-model",
                  f"{cfg}: implementation {'rejects' if run['raised'] else 'accepts'} the configuration, the model "
                  f"{'rejects' if mod is None else 'accepts'} it", "fit raises ValueError iff config_ok is false",
                  "correspondence"))
        return v
    if mod is None:
        if run.get("partial_log"):
            v.append((f"{PID}/{entry}/validation/steps-before-rejection", f"{cfg}: train_step ran before the "
                      "configuration was rejected", "no training on a rejected configuration", "property"))
        return v
    isl = [e for e in run["events"] if e[0] == 0]
    msl = [e for e in mod["events"] if e[0] == 0]
    icb = [e for e in run["events"] if e[0] == 1]
    mcb = [e for e in mod["events"] if e[0] == 1]
    if isl != msl:
        v.append((f"{PID}/{entry}/slices/differs-from-model",
                  f"{cfg}: train_step received rows {[(a, b) for _, a, b in isl]}, documented schedule "
                  f"{[(a, b) for _, a, b in msl]}", "logged slices = steps_of (schedule ...)", "property"))
    elif run["n_iter"] != mod["n_iter"]:
        v.append((f"{PID}/{entry}/n_iter_/differs-from-model", f"{cfg}: n_iter_ = {run['n_iter']}, number of "
                  f"completed steps {mod['n_iter']}", "n_iter_ = n_steps (schedule ...)", "property"))
    if icb != mcb:
        v.append((f"{PID}/{entry}/callbacks/differs-from-model",
                  f"{cfg}: callbacks invoked as (j, step) {[(a, b) for _, a, b in icb]}, documented "
                  f"{[(a, b) for _, a, b in mcb]}", "callback invocations = those of schedule ...", "property"))
    elif isl == msl and run["events"] != mod["events"]:
        v.append((f"{PID}/{entry}/callbacks/order-differs-from-model",
                  f"{cfg}: interleaving of steps and callbacks {run['events']} differs from {mod['events']}",
                  "event log = schedule ...", "property"))
    if not run["ok"]:
        v.append((f"{PID}/{entry}/callbacks/n_iter_-or-rows", f"{cfg}: a callback saw n_iter_ != step or a batch "
                  "was not a consecutive row range", "step = n_iter_ at callback time; batches are row ranges",
                  "property"))
    if not run["rows_ok"]:
        v.append((f"{PID}/{entry}/train_step-rows/misaligned", f"{cfg}: y / sensitive rows given to train_step are "
                  "not the transformed rows of the same indices", "X, y, A sliced with the same bounds", "property"))
    return v


def compare(case, out, model):
    kind = case["kind"]
    v = []
    if kind == "sched":
        for (mi, stops), run, mod in zip(case["grp"], out["runs"], model):
            cfg = f"n={case['n']} batch_size={case['bs']} epochs={case['ep']} max_iter={mi} stops={stops}"
            v += _cmp_fit("fit", run, mod, cfg)
        # one finding per signature is enough
        seen, uniq = set(), []
        for item in v:
            if item[0] not in seen:
                seen.add(item[0]); uniq.append(item)
        return uniq
    if kind == "torch":
        cfg = (f"n={case['n']} batch_size={case['bs']} epochs={case['ep']} max_iter={case['mi']} "
               f"stops={case['stops']}")
        v += _cmp_fit("fit-torch", out, model, cfg)
        if any("/slices/" in item[0] or "/validation/" in item[0] for item in v):
            return v          # partial_fit's acceptance was only predicted for the documented slices
        if out.get("pf_error"):
            v.append((f"{PID}/partial_fit/accepts/raised", f"{cfg}: partial_fit raised on a slice sequence it should "
                      f"accept: {out['pf_error']}", "partial_fit accepts slices with the target type of the whole",
                      "property"))
        elif not out["equal"]:
            v.append((f"{PID}/fit-vs-partial_fit/parameters/differ",
                      f"{cfg}: parameters after fit differ from those after the same slices through partial_fit "
                      f"(max abs diff {out['maxdiff']})", "all network parameters bit-identical", "property"))
        return v
    # predict
    outs = [[_frac(x) for x in row] for row in case["outs"]]
    if not out["raw_ok"]:
        v.append((f"{PID}/_raw_predict/output/not-engine-output", "_raw_predict differs from the engine's output",
                  "_raw_predict = backend.evaluate", "correspondence"))
    if case["target"] == "cont":
        want = [float(r[0]) for r in outs]
        if out["pred"] != want or [float(q) for q in model["pred"]] != want:
            v.append((f"{PID}/predict/regression/not-raw", f"predict returned {out['pred']} for raw outputs {want}",
                      "regression predict = raw output", "property"))
        return v
    codes = [_label_code(p) for p in out["pred"]]
    train = sorted({_label_code(x) for x in case["ytrain"]})
    if any(c not in train for c in codes):
        v.append((f"{PID}/predict/labels/outside-training-set", f"predict returned {out['pred']} for training labels "
                  f"{sorted(set(case['ytrain']))}", "predictions are members of the training label set", "property"))
    elif codes != model["pred"]:
        i = next(i for i, (a, b) in enumerate(zip(codes, model["pred"])) if a != b)
        what = "binary-threshold" if case["target"] == "binary" else "multiclass-argmax"
        v.append((f"{PID}/predict/{what}/differs-from-model",
                  f"row {i} with output {[str(x) for x in outs[i]]}: predicted {out['pred'][i]!r}, documented class "
                  f"code {model['pred'][i]} (classes {train})",
                  "positive class iff out >= 1/2; first arg-max class" , "property"))
    if model["classes"] != train:
        v.append((f"{PID}/model/classes/not-sorted-set", "model classes differ from sorted training labels",
                  "classes_of = sorted distinct labels", "correspondence"))
    return v


def tags(case, out, model):
    kind = case["kind"]
    t = [f"kind:{kind}"]
    if kind == "sched":
        t += [f"n:{case['n']}", f"batch_size:{case['bs']}", f"epochs:{case['ep']}", f"est:{case['est']}"]
        nr = sum(1 for r in out["runs"] if r["raised"])
        t.append(f"rejected-in-group:{nr}")
        t.append(f"schedules:{len(case['grp'])}")
    elif kind == "predict":
        t += [f"target:{case['target']}", f"labels:{'str' if isinstance(case['ytrain'][0], str) and case['target'] != 'cont' else 'num'}"]
    else:
        t += [f"target:{case['target']}", f"sf:{case['sf']}", f"constraint:{case['constraint']}",
              f"hidden:{len([h for h in case['hidden'] if isinstance(h, int)])}",
              f"steps:{min(out.get('n_iter', 0), 8)}", "restricted:slices-accepted-by-partial_fit",
              f"stops:{'none' if case['stops'] is None else 'cb'}", f"max_iter:{'set' if case['mi'] != -1 else 'unset'}"]
    return t


def nontrivial(case, out, model):
    kind = case["kind"]
    if kind == "sched":
        n, bs = case["n"], case["bs"]
        b = n if bs == -1 else bs
        if b <= 0:
            return any(r["raised"] for r in out["runs"])
        partial = n % b != 0 and b < n
        early = False
        for (mi, stops), run in zip(case["grp"], out["runs"]):
            full = _ref_slices(n, bs, case["ep"], -1 if case["ep"] != -1 else mi, None)
            if not run["raised"] and full is not None and run["n_iter"] < len(full):
                early = True
        return partial or early
    if kind == "predict":
        if case["target"] == "cont":
            return True
        outs = [[_frac(x) for x in row] for row in case["outs"]]
        if case["target"] == "binary":
            return any(r[0] == Fraction(1, 2) for r in outs)
        return any(sum(1 for x in r if x == max(r)) > 1 for r in outs)
    return bool(out.get("moved")) and out.get("n_iter", 0) >= 2 and bool(out.get("finite"))


def canon(case):
    return {k: v for k, v in case.items() if not k.startswith("_")}


def shrink(case):
    kind = case["kind"]
    if kind == "sched" and len(case["grp"]) > 1:
        g = case["grp"]
        if len(g) > 4:
            h = len(g) // 2
            yield dict(case, grp=g[:h])
            yield dict(case, grp=g[h:])
        else:
            for x in g:
                yield dict(case, grp=[x])
    elif kind == "predict" and len(case["outs"]) > 1:
        for i in range(len(case["outs"])):
            yield dict(case, outs=[case["outs"][i]])
