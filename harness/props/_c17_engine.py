"""Test doubles for C17, passed to fairlearn through its public `backend=` extension point
(a BackendEngine subclass) and its `callbacks=` parameter.  Imported lazily inside worker processes."""
from __future__ import annotations

ID_SCALE = 16.0      # row id is stored in feature column 0 as id / ID_SCALE (exact in float32)


class _Dummy:
    pass


def make_recording_engine(events):
    """Instantaneous engine: train_step logs the rows it receives, evaluate returns feature columns 1.. ."""
    import numpy as np
    from fairlearn.adversarial._backend_engine import BackendEngine

    class RecordingEngine(BackendEngine):
        model_class = _Dummy
        optim_class = _Dummy

        def get_model(self, list_nodes):
            return _Dummy()

        def get_loss(self, dist_type):
            return lambda a, b: 0.0

        def get_optimizer(self, optim_param, model):
            return _Dummy()

        def train_step(self, X, Y, A):
            ids = [int(round(float(v) * ID_SCALE)) for v in np.asarray(X)[:, 0]]
            events.append(("S", ids, np.array(Y, dtype=float).tolist(), np.array(A, dtype=float).tolist()))
            return (0.0, 0.0)

        def evaluate(self, X):
            return np.asarray(X)[:, 1:]

    return RecordingEngine


def make_torch_engine(events):
    """The real PyTorch engine; train_step additionally logs the row ids of the batch it was given."""
    from fairlearn.adversarial._pytorch_engine import PytorchEngine

    class LoggingTorchEngine(PytorchEngine):
        def train_step(self, X, Y, A):
            ids = [int(round(float(v) * ID_SCALE)) for v in X[:, 0]]
            events.append(("S", ids, None, None))
            return super().train_step(X, Y, A)

    return LoggingTorchEngine


def make_callbacks(events, stops, none_for_false=False):
    """stops: None (no callbacks) or list of lists of step numbers at which the j-th callback returns True."""
    if stops is None:
        return None

    def mk(j, s):
        s = set(s)

        def cb(est, step=None, **kw):
            events.append(("C", j, step, getattr(est, "n_iter_", None), sorted(kw)))
            if step in s:
                return True
            return None if none_for_false else False
        return cb

    return [mk(j, s) for j, s in enumerate(stops)]


def flatten_events(events):
    """-> (list of [0, lo, hi] / [1, j, k], ok flag: rows consecutive & callbacks saw n_iter_ == step)."""
    out, ok = [], True
    for e in events:
        if e[0] == "S":
            ids = e[1]
            if not ids or ids != list(range(ids[0], ids[0] + len(ids))):
                ok = False
                out.append([0, -1, -1])
            else:
                out.append([0, ids[0], ids[-1] + 1])
        else:
            _, j, step, nit, kws = e
            if nit != step:
                ok = False
            out.append([1, j, -1 if step is None else int(step)])
    return out, ok
