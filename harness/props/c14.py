"""C14 -- base rate metrics are weighted confusion-matrix ratios for any binary encoding."""
from __future__ import annotations
import itertools
import math
from fractions import Fraction
from harness.core import Rng, gz, gq, glist, gopt, gnat, Dec, num_close

PID = "C14"
VO = ["theories/Metrics/BaseRates.vo", "theories/Metrics/BaseRates_proofs.vo", "theories/Metrics/BaseRatesSrc.vo",
      "theories/Metrics/BaseRatesSrc_proofs.vo", "theories/Base/Flat.vo"]
PROPS_FILES = ["props/C14.v"]
TRANSLATORS = ["t_labels"]
REQUIRES = ["From FL Require Import Num Flat BaseRates."]
SHARD = 6
CHUNK = 1
CASE_TIMEOUT = 600

LEVEL_TEXT = ("Proof (Coq): for the label function and the confusion-matrix unpacking order regenerated from "
              "_base_metrics.py on every run: full case characterisation of _get_labels_for_confusion_matrix, the four "
              "rates equal the weighted ratios, lie in [0,1], TPR+FNR = 1 / TNR+FPR = 1 when the class is present and "
              "both are 0 otherwise, pos_label switch exchanges TPR<->TNR and FPR<->FNR, injective recodings change "
              "nothing (accepted iff accepted), {0,1} / {-1,1} default to pos_label 1, selection_rate / "
              "mean_prediction / count equal their definitions; the bodies of all seven functions, regenerated as "
              "source-shape terms (which arrays feed np.unique, the confusion_matrix call with sample_weight / labels / "
              "normalize='true' / ravel and the returned cell; the statement trees of selection_rate and "
              "mean_prediction; count's check_consistent_length + len), evaluate to the model functions "
              "(C14_source_bodies). Tie to the code: translator t_labels (fail closed) + "
              "exhaustive differential run of the model against the seven functions over all label/prediction vectors "
              "up to length 3 (quick) / 5 (thorough) in four encodings, every pos_label, unweighted and weighted, "
              "plus rejected inputs; observables: value, scalar-ness, exception or not.")
LEVEL_NOTE = ("Trusted: Coq kernel + vm_compute; translator t_labels (Python ast -> Gallina decision term and body "
              "terms; their interpretation BaseRatesSrc.eval_rate / eval_stm / eval_count; "
              "_convert_to_ndarray_and_squeeze = identity on 1-D data); sklearn "
              "confusion_matrix(labels, sample_weight, normalize='true') and numpy dot / unique are modelled, not "
              "verified (weights >= 0); scalar-ness of the returned object is checked by the correspondence run only.")
TECHNIQUE = "Coq proofs on the source-regenerated label function + exhaustive differential model/implementation run"
TRUSTED = ["Coq 8.16.1 kernel and vm_compute", "translators/t_labels.py", "harness/props/c14.py (enumeration, "
           "comparison)", "sklearn.metrics.confusion_matrix, numpy.unique / dot (modelled)",
           "no axioms (Print Assumptions: closed)"]
ASSUMPTIONS = ["labels are compared through order-preserving integer codes ('a' -> 97, 'b' -> 98)",
               "weights are non-negative (the property says positive); the int64 placeholder is not itself a label",
               "floats: inputs are small integers, results compared with atol = rtol = 1e-9"]
RULE = ("cases: one block per (encoding, length n, function[, part]) holding every (y_true, y_pred) in {a,b}^n x {a,b}^n, "
        "every pos_label in (a, b, omitted) and weight options (omitted; all of {1,2,3}^n for n <= 2, two sampled "
        "vectors otherwise); plus blocks of rejected / degenerate inputs (3 values, absent pos_label, length "
        "mismatches, empty input, single-valued vectors); non-trivial = the block contains a call accepted by the "
        "model")
EXHAUSTIVE = {"quick": True, "thorough": True}

FUNCS = ["true_positive_rate", "false_negative_rate", "false_positive_rate", "true_negative_rate",
         "selection_rate", "mean_prediction", "count"]
ENCODINGS = {"01": [0, 1], "m11": [-1, 1], "25": [2, 5], "ab": ["a", "b"], "bool": [False, True]}
MAXN = {"quick": 3, "thorough": 5}
PART = 256          # (y_true, y_pred) pairs per case


def _code(v):
    if isinstance(v, str):
        if len(v) != 1:
            raise ValueError("string labels are single characters")
        return ord(v)
    return int(v)


def _gen_items(case):
    """deterministic from the case description"""
    a, b = ENCODINGS[case["enc"]]
    n, fn = case["n"], case["fn"]
    vecs = [list(v) for v in itertools.product([a, b], repeat=n)]
    pairs = [(t, p) for t in vecs for p in vecs]
    lo = case.get("part", 0) * PART
    pairs = pairs[lo:lo + PART]
    items = []
    for k, (t, p) in enumerate(pairs):
        if fn == 6:
            wopts = [None]
        elif n <= 2:
            wopts = [None] + [list(w) for w in itertools.product([1, 2, 3], repeat=n)]
            # real-valued (dyadic, exactly representable) weights whose totals stay below 1
            wopts += [list(w) for w in itertools.product([0.25, 0.125], repeat=n)]
        else:
            r = Rng(case["wseed"], PID, case["enc"], n, lo + k)
            wopts = [None, [r.randint(1, 3) for _ in range(n)],
                     [r.choice([0.125, 0.25, 0.125, 0.5, 1.5]) for _ in range(n)]]
        items.append([t, p, wopts])
    return items


def _items(case):
    return case["items"] if case.get("items") is not None else _gen_items(case)


def _poss(case):
    if case.get("poss") is not None:
        return case["poss"]
    if case["fn"] >= 5:
        return [None]
    a, b = ENCODINGS[case["enc"]]
    return [a, b, None]


# degenerate / rejected inputs.  Only rejections the source spells out are demanded: the ValueErrors of
# _get_labels_for_confusion_matrix, check_consistent_length in count, the empty-y_pred error of
# selection_rate.  (Weight vectors of the wrong length are outside the property and not generated.)
NUM_REJECT = [
    [[0, 1, 2], [0, 1, 2]], [[0, 1], [2, 2]], [[0, 1, 1], [1, 0, 2]], [[-1, 1], [0, 1]], [[0, -1], [0, -1]],
    [[5], [5]], [[2], [2]], [[2, 2], [2, 2]], [[2, 2], [5, 5]], [[0, 0], [0, 0]], [[1, 1], [1, 1]], [[-1], [-1]],
    [[1], [1]], [[0], [1]], [[1, 0], [1, 1]], [[7, 5], [5, 7]], [[3, 3, 4], [4, 3, 3]],
]
NUM_LEN = [[[0, 1], [1]], [[1], [0, 1]], [[0], []]]          # count only
NUM_EMPTY = [[[], []]]                                        # all but mean_prediction (numpy: nan + warning)
STR_REJECT = [
    [["a", "b", "c"], ["a", "b", "c"]], [["a", "b"], ["c", "c"]], [["a"], ["a"]], [["b", "b"], ["b", "b"]],
    [["a", "b"], ["b", "a"]], [["a", "a"], ["b", "b"]],
]
STR_LEN = [[["a", "b"], ["a"]]]                              # count only


def _wopts_for(t, p, fn):
    if fn == 6 or len(t) != len(p):
        return [None]
    n = len(p)
    return [None, [2] * n, [1, 2, 3, 1, 2][:n]]


def _reject_items(fn, base, length, empty):
    items = list(base) + (list(length) if fn == 6 else []) + (list(empty) if fn != 5 else [])
    return [[t, p, _wopts_for(t, p, fn)] for t, p in items]


def cases(tier, seed):
    out = []
    for enc in ENCODINGS:
        for n in range(1, MAXN[tier] + 1):
            for fn in range(7):
                if fn == 5 and enc == "ab":
                    continue          # mean_prediction of strings: not a numeric prediction (np.dot raises)
                nparts = max(1, (4 ** n + PART - 1) // PART)
                for part in range(nparts):
                    out.append({"kind": "block", "enc": enc, "n": n, "fn": fn, "part": part, "wseed": seed})
    for fn in range(7):
        out.append({"kind": "reject", "enc": "num", "fn": fn, "poss": [None, 1, 0, 5, 7, -1] if fn < 5 else [None],
                    "items": _reject_items(fn, NUM_REJECT, NUM_LEN, NUM_EMPTY)})
        if fn != 5:
            out.append({"kind": "reject", "enc": "str", "fn": fn, "poss": [None, "a", "b", "z"] if fn < 5 else [None],
                        "items": _reject_items(fn, STR_REJECT, STR_LEN, [])})
    # weights whose length disagrees with the predictions (length 1 against n >= 2 included: it must not be
    # broadcast silently) -- selection_rate and mean_prediction, every weight container
    for fn in (4, 5):
        out.append({"kind": "wlen", "enc": "num", "fn": fn,
                    "calls": [[[0, 1, 1], [1, 0, 1], [2.0]], [[0, 1], [1, 1], [1.0, 2.0, 3.0]],
                              [[1, 1, 0, 0, 1, 0], [1, 0, 1, 1, 0, 1], [0.5]], [[0, 1, 1, 0], [1, 1, 0, 0], [1.0, 1.0]]]})
    return out


def _calls(case):
    for k, (t, p, wopts) in enumerate(_items(case)):
        for pos in _poss(case):
            for j, w in enumerate(wopts):
                yield k, t, p, pos, j, w


def impl(case):
    import numpy as np
    import fairlearn.metrics as fm
    fn = case["fn"]
    f = getattr(fm, FUNCS[fn])
    res = []
    if case["kind"] == "wlen":
        import pandas as pd
        for t, p, w in case["calls"]:
            for cont in ("list", "ndarray", "series", "column"):
                sw = {"list": list(w), "ndarray": np.array(w), "series": pd.Series(w),
                      "column": np.array(w).reshape(-1, 1)}[cont]
                try:
                    r = f(list(t), list(p), sample_weight=sw)
                    res.append(["ok", [float(x) for x in np.asarray(r, dtype=float).reshape(-1)], cont])
                except Exception as e:  # noqa
                    res.append(["exc", type(e).__name__, cont])
        return res
    for k, t, p, pos, j, w in _calls(case):
        as_array = (k + j) % 2 == 1
        yt = np.array(t) if as_array and len(t) else list(t)
        yp = np.array(p) if as_array and len(p) else list(p)
        # weights in every accepted container: list, 1-D array, (n,1) column array, pandas Series with
        # non-default index labels, one-column DataFrame
        if w is None:
            sw = None
        else:
            kind = (k + 2 * j) % 5
            if fn <= 3 and kind in (2, 4):
                # the four rates hand the weights to sklearn's confusion_matrix as they are, and sklearn rejects
                # 2-D weights (a rejection, not a wrong value; the property does not quantify over weight
                # shapes): column-shaped weights are generated for selection_rate / mean_prediction only,
                # which squeeze them explicitly
                kind = 3 if kind == 2 else 0
            if kind == 0:
                sw = np.array(w, dtype=float)
            elif kind == 1:
                sw = list(w)
            elif kind == 2:
                sw = np.array(w, dtype=float).reshape(-1, 1)
            elif kind == 3:
                import pandas as pd
                sw = pd.Series([float(x) for x in w], index=[f"r{len(w) - i}" for i in range(len(w))])
            else:
                import pandas as pd
                sw = pd.DataFrame({"w": [float(x) for x in w]}, index=range(100, 100 + len(w)))
        try:
            if fn <= 3:
                r = f(yt, yp, sample_weight=sw, pos_label=pos)
            elif fn == 4:
                r = f(yt, yp, sample_weight=sw) if pos is None else f(yt, yp, pos_label=pos, sample_weight=sw)
            elif fn == 5:
                r = f(yt, yp, sample_weight=sw)
            else:
                r = f(yt, yp)
        except Exception as e:  # noqa
            res.append(["exc", type(e).__name__])
            continue
        nd = int(np.ndim(r))
        vals = [float(x) for x in np.asarray(r, dtype=float).reshape(-1)]
        if (k + j) % 5 == 0:
            # the very same argument objects a second time: same answer, arguments left as they were
            try:
                snap = (list(np.asarray(yt).reshape(-1)), list(np.asarray(yp).reshape(-1)),
                        None if sw is None else [float(x) for x in np.asarray(sw, dtype=float).reshape(-1)])
                if fn <= 3:
                    r2 = f(yt, yp, sample_weight=sw, pos_label=pos)
                elif fn == 4:
                    r2 = f(yt, yp, sample_weight=sw) if pos is None else f(yt, yp, pos_label=pos, sample_weight=sw)
                elif fn == 5:
                    r2 = f(yt, yp, sample_weight=sw)
                else:
                    r2 = f(yt, yp)
                v2 = [float(x) for x in np.asarray(r2, dtype=float).reshape(-1)]
                snap2 = (list(np.asarray(yt).reshape(-1)), list(np.asarray(yp).reshape(-1)),
                         None if sw is None else [float(x) for x in np.asarray(sw, dtype=float).reshape(-1)])
                same = (len(v2) == len(vals) and all((a == b) or (a != a and b != b) for a, b in zip(vals, v2))
                        and str(snap) == str(snap2))
            except Exception:
                same = False
            if not same:
                res.append(["other", "second call with the same argument objects differs or arguments were modified"])
                continue
        res.append(["ok", vals, nd])
    return res


def _gitem(it):
    t, p, wopts = it
    ws = glist([gopt(w, lambda w_: glist(w_, gq)) for w in wopts])
    return f"({glist(map(_code, t), gz)}, {glist(map(_code, p), gz)}, {ws})"


def term(case, out):
    if case["kind"] == "wlen":
        return None
    poss = glist([gopt(None if x is None else _code(x), gz) for x in _poss(case)])
    return f"run_block {gnat(case['fn'])} {poss} {glist(map(_gitem, _items(case)))}"


def decode(case, zs):
    d = Dec(zs)
    fn = case["fn"]
    res = []
    for _ in _calls(case):
        if fn <= 3:
            res.append(d.opt(d.q))
        elif fn <= 5:
            res.append(d.opt(d.ext))
        else:
            res.append(d.opt(d.nat))
    d.done()
    return res


def compare(case, out, model):
    fn = case["fn"]
    name = FUNCS[fn]
    v = []
    seen = set()
    if case["kind"] == "wlen":
        k = 0
        for t, p, w in case["calls"]:
            for cont in ("list", "ndarray", "series", "column"):
                o = out[k]; k += 1
                if o[0] != "exc":
                    return [(f"{PID}/{name}/exception/accepts-mismatched-weight-length",
                             f"{name}({t}, {p}, sample_weight=<{cont} of length {len(w)}>) returned {o[1]} instead of raising",
                             "weights whose length disagrees with the predictions are rejected, never broadcast",
                             "property")]
        return []

    def add(sig, what, oracle):
        if sig not in seen:
            seen.add(sig)
            v.append((sig, what, oracle, "property"))

    calls = list(_calls(case))
    if len(out) != len(calls) or len(model) != len(calls):
        return [(f"{PID}/harness/call-count", f"{len(calls)} calls, {len(out)} results, {len(model)} model values",
                 "one result per call", "correspondence")]
    for (k, t, p, pos, j, w), o, m in zip(calls, out, model):
        call = f"{name}({t}, {p}, sample_weight={w}, pos_label={'<omitted>' if pos is None else repr(pos)})"
        if o[0] == "other":
            add(f"{PID}/{name}/purity/not-a-function-of-its-arguments", f"{call}: {o[1]}",
                "a second call with the same argument objects gives the same value and leaves them untouched")
            continue
        if o[0] == "exc":
            if m is not None:
                add(f"{PID}/{name}/exception/raises-where-defined",
                    f"{call} raised {o[1]}; the definition gives {m}", "no exception on an input the definition accepts")
            continue
        if m is None:
            add(f"{PID}/{name}/exception/accepts-rejected-input",
                f"{call} returned {o[1]} but the definition rejects this input", "exception iff the model rejects")
            continue
        if o[2] != 0:
            add(f"{PID}/{name}/scalar/non-scalar-result",
                f"{call} returned an array of ndim {o[2]} ({o[1]}) instead of a scalar", "np.ndim(result) == 0")
        if len(o[1]) != 1 or not num_close(o[1][0], m):
            add(f"{PID}/{name}/value/differs-from-definition",
                f"{call} returned {o[1]}; the definition gives {m}", "value equals the weighted ratio / mean / count")
    return v


def tags(case, out, model):
    t = [f"kind:{case['kind']}", f"enc:{case['enc']}", f"fn:{FUNCS[case['fn']]}"]
    if case["kind"] == "block":
        t.append(f"n:{case['n']}")
    if case["kind"] == "wlen":
        return t
    if model is not None:
        acc = sum(1 for m in model if m is not None)
        t += ["calls-accepted"] * acc + ["calls-rejected"] * (len(model) - acc)
    return t


def nontrivial(case, out, model):
    if case["kind"] == "wlen":
        return True
    return model is not None and any(m is not None for m in model)


def canon(case):
    return {k: v for k, v in case.items() if not k.startswith("_")}


def shrink(case):
    if case["kind"] == "wlen":
        for c_ in case["calls"]:
            if len(case["calls"]) > 1:
                yield dict(case, calls=[c_])
        return
    items = _items(case)
    poss = _poss(case)
    base = dict(case, items=items, poss=poss)
    if len(items) > 1:
        h = len(items) // 2
        yield dict(base, items=items[:h])
        yield dict(base, items=items[h:])
        if len(items) <= 8:
            for i in range(len(items)):
                yield dict(base, items=items[:i] + items[i + 1:])
        return
    if len(poss) > 1:
        for x in poss:
            yield dict(base, poss=[x])
        return
    t, p, wopts = items[0]
    if len(wopts) > 1:
        for w in wopts:
            yield dict(base, items=[[t, p, [w]]])
        return
    if len(t) > 1 and len(t) == len(p):
        for i in range(len(t)):
            w = wopts[0]
            w2 = None if w is None else (w[:i] + w[i + 1:] if len(w) == len(t) else w)
            yield dict(base, items=[[t[:i] + t[i + 1:], p[:i] + p[i + 1:], [w2]]])
