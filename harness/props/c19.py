"""C19 -- estimator life cycle: fit depends on parameters and data, not on call history."""
from __future__ import annotations

import itertools

from harness.core import Rng, gz, glist, gbool, Dec

PID = "C19"
VO = ["theories/Misc/Lifecycle.vo", "theories/Misc/Lifecycle_proofs.vo", "theories/Base/Flat.vo",
      "theories/Misc/LifecycleSrc.vo", "theories/Misc/LifecycleSrc_proofs.vo"]
PROPS_FILES = ["props/C19.v"]
TRANSLATORS = ["t_lifecycle"]
REQUIRES = ["From FL Require Import Num Flat Lifecycle."]
SHARD = 40
CHUNK = 1
CASE_TIMEOUT = 900

KNOWN_NU = "C19/ExponentiatedGradient/get_params.nu/param-overwritten-by-fit"

LEVEL_TEXT = ("Proof (Coq): one state machine per estimator family carrying exactly the hidden state of the code "
              "(Moment.data_loaded, ExponentiatedGradient.nu, CorrelationRemover._n_features_in_, adversarial "
              "classes_/backendEngine_/warm_start); for every history of any length and every deterministic training "
              "function: Fit D after the history observes what Fit D observes on a fresh estimator, returns the "
              "estimator, never changes get_params, raises only NotFitted on unfitted objects (ThresholdOptimizer, "
              "GridSearch, CorrelationRemover under the same-schema premise, adversarial with warm_start=False, "
              "ExponentiatedGradient with nu given); predict is pure, pickle is faithful, clone is fresh. "
              "ExponentiatedGradient with nu=None: _partial (everything but nu; model equal when the first fit "
              "computed the same nu) + _refuted (fit overwrites nu; the model becomes history dependent). "
              "Tie to the code: (a) translators/t_lifecycle.py regenerates the life-cycle switches from the source "
              "(per estimator: every path of fit returns self, constructor attributes written, attributes read "
              "before this call assigned them, in-place mutated containers; Moment.load_data latch; who loads the "
              "moments; adversarial re-initialisation tables; user module used itself; .eval()/.train() before the "
              "forward passes) and C19_source_tie states they equal the values the model was written from, "
              "C19_source_step_* that the machines determined by them are the machines of the theorems, "
              "C19_*_characterised that the property holds for exactly these switch values; (b) the same step "
              "functions evaluated on the free training function against the real estimators on ALL call "
              "histories up to length 3 (quick) / 4 (thorough) + Fit D; Predict.")
LEVEL_NOTE = ("Trusted: Coq kernel + vm_compute; the harness (history runner, fingerprints, reference fits); the "
              "state machines are hand-written models of fit/predict/clone/pickle; their switches are regenerated "
              "from the source by translators/t_lifecycle.py (an abstract execution of fit: definite assignment, "
              "branches intersected, loops may run zero times, helper methods of the same class entered at the "
              "point of reference; calls into sklearn / other classes are opaque), the rest is tied by the "
              "exhaustive correspondence run. Training itself is "
              "abstract: determinism of the learners used (ExactLearner, LogisticRegression/lbfgs, torch CPU with "
              "one thread and a fixed random_state) is an assumption that the run checks (fresh fit == fresh fit).")
TECHNIQUE = "Coq proof over life-cycle state machines + exhaustive differential run over call histories"
TRUSTED = ["Coq 8.16.1 kernel and vm_compute", "harness/props/c19.py, harness/props/_c19_run.py (history runner, "
           "fingerprints, comparison)", "hand-written state machines in Lifecycle.v (switches tied by translators/t_lifecycle.py + "
           "C19_source_tie, behaviour by correspondence)", "translators/t_lifecycle.py (ast decoding)",
           "sklearn.base.clone / pickle semantics (modelled)", "no axioms (Print Assumptions: closed)"]
ASSUMPTIONS = ["the wrapped learner is deterministic (ExactLearner, LogisticRegression, seeded torch on one thread)",
               "D1, D2 have the same schema (CorrelationRemover rejects a refit with another width: modelled, "
               "theorem C19_CorrelationRemover_width_latch)",
               "adversarial estimators: backend='torch', warm_start=False for the property; warm_start=True is "
               "modelled as continuing and checked on a few histories",
               "KNOWN FINDING F7a: ExponentiatedGradient.fit overwrites the constructor parameter nu when it is None",
               "KNOWN FINDING: a torch.nn.Module passed as predictor_model / adversary_model is trained IN PLACE "
               "(refit and clone-after-fit start from trained weights); history independence of the adversarial "
               "estimators is proved for networks given as lists (premise user_net p = None) and refuted otherwise",
               "D2 differs from D1 structurally in rotation: other set of sensitive groups (subset / superset), "
               "same columns in another order, same rows with other labels; probes are presented in the column "
               "order of the last fit",
               "GridSearch has no objective parameter (it always builds constraints.default_objective()): the "
               "user-supplied objective object is exercised on ExponentiatedGradient only"]
RULE = ("cases: per (family, configuration, history prefix) ALL histories over {Fit D1, Fit D2, Predict, "
        "PickleRoundTrip, Clone} up to length 3 (quick) / 4 (thorough), each followed by Fit D; Predict, random small "
        "data sets per case; observables per operation: exception class, fit(...) is est, get_params(deep=False) by "
        "identity and public configuration, fingerprint equal to that of a fresh estimator fitted once, predict "
        "repeatable and pure, pickle round trip, clone unfitted; non-trivial = the reference fits on D1 and D2 are "
        "distinguishable and the case contains a refit; D2 vs D1 rotates through 7 structural variants (group "
        "sets, column order, same rows / other labels); extra configurations with shorter histories: EG with a "
        "user-supplied ErrorRate objective object, CorrelationRemover on named DataFrame columns in another order, "
        "adversarial predictor given as a torch Module with BatchNorm1d + Dropout (state_dict bit-identical across "
        "predict, consecutive predictions equal, equal to a never-predicted twin)")
EXHAUSTIVE = {"quick": True, "thorough": True}
PARTIAL = ["C19_history_independent_ExponentiatedGradient_partial", "C19_params_constant_ExponentiatedGradient_partial",
           "C19_clone_fresh_ExponentiatedGradient_partial", "C19_nu_overwritten_refuted",
           "C19_ExponentiatedGradient_model_refuted", "C19_Adversarial_user_module_refuted"]

STD_OPS = ["F1", "F2", "P", "K", "C"]
ADV_OPS = ["F1", "F2", "P", "C"]
CONFIGS = [
    ("to", {"variant": "dp_lr"}), ("to", {"variant": "eo_prefit"}),
    ("eg", {"lp": 1, "nu": "none"}), ("eg", {"lp": 1, "nu": "given"}),
    ("eg", {"lp": 0, "nu": "none"}), ("eg", {"lp": 0, "nu": "given"}),
    ("gs", {}), ("cr", {}), ("advc", {}), ("advr", {}),
]
EXC_CODE = {"NotFittedError": 1, "AssertionError": 2, "ValueError": 3}
OPNAME = {"F": "fit", "P": "predict", "K": "pickle", "C": "clone"}


# ------------------------------------------------------------------ data
# structural variants of D2 relative to D1: (sensitive groups, column order, same X with other labels)
VARIANTS = [("same", "same", False), ("sub", "same", False), ("super", "swap", False), ("same", "swap", False),
            ("same", "same", True), ("sub", "swap", False), ("super", "same", False)]


def _tab_data(r, which, groups=("g", "h"), cols=("a", "b"), base=None):
    n = 6 * len(groups) + 2
    if base is not None:            # the SAME rows as D1 (same length, features, groups), other labels
        a, b, sf = list(base["a"]), list(base["b"]), list(base["sf"])
    else:
        a = [r.randint(0, 2) for _ in range(n)]
        b = [r.randint(0, 1) for _ in range(n)]
        sf = [groups[i % len(groups)] for i in range(n)]
        r.shuffle(sf)
    y = []
    for i in range(n):
        lab = (a[i] >= 1) if which == 1 else (a[i] == 0)
        if r.chance(1, 6):
            lab = not lab
        y.append(int(lab))
    for g in groups:
        idx = [i for i in range(n) if sf[i] == g]
        if len({y[i] for i in idx}) < 2:
            y[idx[0]] = 1 - y[idx[0]]
    return {"a": a, "b": b, "sf": sf, "y": y, "cols": list(cols)}


def _tab_pair(r, variant):
    grp, order, xsame = variant
    g1, g2 = {"same": (("g", "h"), ("g", "h")), "sub": (("g", "h", "k"), ("g", "h")),
              "super": (("g", "h"), ("g", "h", "k"))}[grp]
    d1 = _tab_data(r, 1, groups=g1)
    d2 = _tab_data(r, 2, groups=g2, cols=("b", "a") if order == "swap" else ("a", "b"),
                   base=d1 if xsame else None)
    return {"D1": d1, "D2": d2}


def _mat_data(r, which, n, width, kind):
    X = [[r.randint(0, 3) for _ in range(width)] for _ in range(n)]
    if len({row[0] for row in X}) < 2:
        X[0][0] = (X[0][0] + 1) % 4
    d = {"X": X}
    if kind == "cr":
        return d
    sf = [i % 2 for i in range(n)]
    r.shuffle(sf)
    if kind == "advc":
        y = [int((row[0] >= 2) if which == 1 else (row[0] <= 1)) for row in X]
        y = [1 - v if r.chance(1, 6) else v for v in y]
        if len(set(y)) < 2:
            y[0] = 1 - y[0]
    else:
        y = [((row[0] if which == 1 else 3 - row[0]) * 4 + 2 * s + r.randint(0, 3)) / 4.0 for row, s in zip(X, sf)]
    d["y"] = y
    d["sf"] = sf
    return d


def _make_data(fam, r, extra_width=False, variant=VARIANTS[0], named=False):
    if fam in ("to", "eg", "gs"):
        return _tab_pair(r, variant)
    if fam == "cr":
        d = {"D1": _mat_data(r, 1, 10, 3, "cr"), "D2": _mat_data(r, 2, 10, 3, "cr")}
        if extra_width:
            d["D3"] = _mat_data(r, 1, 10, 4, "cr")
        if named:       # DataFrames, sensitive column given by NAME; D2 has the same columns in another order
            d["D1"]["cols"] = ["s", "u", "v"]
            d["D2"]["cols"] = r.choice([["v", "s", "u"], ["u", "v", "s"], ["v", "u", "s"], ["s", "v", "u"]])
        return d
    return {"D1": _mat_data(r, 1, 12, 3, fam), "D2": _mat_data(r, 2, 12, 3, fam)}


def _tweak(fam, cfg, r):
    cfg = dict(cfg)
    if fam == "to":
        if cfg["variant"] == "dp_lr":
            cfg["constraints"] = r.choice(["demographic_parity", "true_positive_rate_parity",
                                           "false_negative_rate_parity", "selection_rate_parity"])
            cfg["grid_size"] = r.choice([10, 16, 20])
        else:
            cfg["grid_size"] = r.choice([9, 15])
    elif fam in ("eg", "gs"):
        cfg["moment"] = r.choice(["DemographicParity", "TruePositiveRateParity", "EqualizedOdds"])
        cfg["difference_bound"] = r.choice([0.05, 0.125])
        if fam == "eg":
            cfg["max_iter"] = r.choice([3, 4])
        else:
            cfg["grid_size"] = r.choice([4, 5])
    elif fam == "cr":
        cfg["alpha"] = r.choice([1.0, 0.5, 0.25])
    else:
        cfg["constraints"] = r.choice(["demographic_parity", "equalized_odds"])
        cfg["random_state"] = r.randint(1, 50)
        if cfg.get("module"):
            cfg["module_seed"] = r.randint(1, 50)
    return cfg


# ------------------------------------------------------------------ histories
def _finals(prefix, idx, L, tier, ds=("F1", "F2")):
    if tier == "thorough" or len(prefix) < L:
        return list(ds)
    fits = [o for o in prefix if o[0] == "F"]
    if fits:
        return [d for d in ds if d != fits[-1]][:1]
    return [ds[idx % 2]]


def _groups(ops, L, tier, ds=("F1", "F2")):
    """-> dict group key -> list of full histories (prefix + [Fit D, Predict])"""
    G = max(L - 1, 1)
    groups = {}
    idx = 0
    for n in range(0, L + 1):
        for prefix in itertools.product(ops, repeat=n):
            prefix = list(prefix)
            idx += 1
            key = tuple(prefix[:G]) if len(prefix) >= G else ("short",) + tuple(prefix[:1])
            for f in _finals(prefix, idx, L, tier, ds):
                groups.setdefault(key, []).append(prefix + [f, "P"])
    return groups


def cases(tier, seed):
    out = []
    L = {"quick": 3, "thorough": 4}[tier]
    for ci, (fam, cfg0) in enumerate(CONFIGS):
        ops = ADV_OPS if fam.startswith("adv") else STD_OPS
        for gi, (key, hists) in enumerate(sorted(_groups(ops, L, tier).items())):
            r = Rng(seed, PID, fam, ci, gi)
            var = VARIANTS[(gi + ci) % len(VARIANTS)]
            c = {"fam": fam, "cfg": _tweak(fam, cfg0, r), "pcode": 100 * (ci + 1) + gi % 100,
                 "data": _make_data(fam, r, variant=var), "hists": hists, "group": "/".join(key),
                 "variant": "/".join(map(str, var)) if fam in ("to", "eg", "gs") else "values"}
            if fam == "eg" and cfg0["nu"] == "none" and key[0] == "short":
                c["check_nu_equiv"] = True
            out.append(c)
    # CorrelationRemover with a data set of another width (hidden _n_features_in_): model only
    for gi, (key, hists) in enumerate(sorted(_groups(["F1", "F3", "P", "K", "C"], 2, "thorough",
                                                     ds=("F1", "F3")).items())):
        r = Rng(seed, PID, "cr-schema", gi)
        out.append({"fam": "cr", "cfg": _tweak("cr", {"schema": 1}, r), "pcode": 1100 + gi,
                    "data": _make_data("cr", r, extra_width=True), "hists": hists, "group": "schema/" + "/".join(key)})
    # shorter histories (length <= 2, thorough: <= 3) for the configurations added for the review:
    #  - ExponentiatedGradient with a user-supplied objective OBJECT (nu given: F7a does not interfere)
    #  - CorrelationRemover fed DataFrames, sensitive column by NAME, D2 = same columns in another order
    #  - adversarial estimators whose predictor is a user torch Module with BatchNorm1d + Dropout
    L2 = 2 if tier == "quick" else 3
    extra = [("eg", {"lp": 1, "nu": "given", "objective": 1}), ("eg", {"lp": 0, "nu": "given", "objective": 1}),
             ("cr", {"named": 1}), ("advc", {"module": 1}), ("advr", {"module": 1}),
             # a callback that stops training early: every exit path of fit must hand back the estimator
             ("advc", {"stop_after": 2}), ("advr", {"stop_after": 3})]
    for xi, (fam, cfg0) in enumerate(extra):
        ops = ADV_OPS if fam.startswith("adv") else STD_OPS
        for gi, (key, hists) in enumerate(sorted(_groups(ops, L2, tier).items())):
            r = Rng(seed, PID, "extra", fam, xi, gi)
            var = VARIANTS[(gi + xi) % len(VARIANTS)]
            out.append({"fam": fam, "cfg": _tweak(fam, cfg0, r), "pcode": 2000 + 100 * xi + gi,
                        "data": _make_data(fam, r, variant=var, named=bool(cfg0.get("named"))), "hists": hists,
                        "group": "extra/" + "/".join(key),
                        "variant": "/".join(map(str, var)) if fam == "eg" else "values"})
    # warm_start=True continues training (model clause; outside the property's scope)
    for fi, fam in enumerate(("advc", "advr")):
        for gi, (key, hists) in enumerate(sorted(_groups(ADV_OPS, 2 if tier == "quick" else 3, "thorough").items())):
            r = Rng(seed, PID, "warm", fam, gi)
            cfg = _tweak(fam, {"warm_start": True}, r)
            out.append({"fam": fam, "cfg": cfg, "pcode": 1200 + 100 * fi + gi, "data": _make_data(fam, r),
                        "hists": hists, "group": "warm/" + "/".join(key)})
    return out


# ------------------------------------------------------------------ implementation side
def impl(case):
    from harness.props import _c19_run
    return _c19_run.run_case(case)


# ------------------------------------------------------------------ model side
def _gop(o):
    if o[0] == "F":
        return f"(Fit {gz(int(o[1:]))})"
    return {"P": "Predict", "K": "Pickle", "C": "Clone"}[o]


def _widths(case):
    ws = [0]
    for j in (1, 2, 3):
        d = case["data"].get(f"D{j}")
        ws.append(len(d["X"][0]) if d else 0)
    return ws


def term(case, out):
    hs = glist([glist([_gop(o) for o in h]) for h in case["hists"]])
    fam, p = case["fam"], gz(case["pcode"])
    if fam == "to":
        return f"run_simple {p} {hs}"
    if fam == "gs":
        return f"run_grid {p} {hs}"
    if fam == "eg":
        nu = "(Some (0%Z, 1%Z))" if case["cfg"]["nu"] == "given" else "None"
        return f"run_eg {p} {nu} {hs}"
    if fam == "cr":
        return f"run_corr {p} {glist(_widths(case), gz)} {hs}"
    return (f"run_adv ({p}, ({gbool(case['cfg'].get('warm_start', False))}, "
            f"{gbool(case['cfg'].get('module', False))})) {hs}")


def decode(case, zs):
    d = Dec(zs)
    fam = case["fam"]

    def obs():
        o = {"self": d.bool()}
        if fam == "eg":
            o["p"] = d.z()
            o["nu"] = d.opt(lambda: (d.z(), d.z()))
            o["model"] = d.opt(lambda: (d.z(), d.z(), d.z(), d.z()))
        elif fam.startswith("adv"):
            o["p"] = d.z()
            o["ws"] = d.bool()
            o["um"] = d.bool()
            o["mod"] = d.opt(lambda: (d.z(), d.list(d.z)))      # state of the user module (None: lists)
            o["model"] = d.opt(lambda: (d.z(), d.list(d.z)))
        else:
            o["p"] = d.z()
            o["model"] = d.opt(lambda: (d.z(), d.z()))
        o["exc"] = d.opt(d.z)
        return o

    res = d.list(lambda: d.list(obs))
    d.done()
    return res


def _model_ref(case, m):
    """reference id named by the model's symbolic fitted state"""
    fam = case["fam"]
    if m is None:
        return None
    if fam == "eg":
        p, tag, val, dd = m
        return f"g|{dd}" if tag == 0 else f"{val}|{dd}"
    if fam.startswith("adv"):
        init, seq = m
        if case["cfg"].get("module"):       # the user module (initial state 0) trained on seq, in place
            return ("m:" if init == 0 else f"?init{init}:") + ">".join(map(str, seq))
        if not seq or seq[0] != init:
            return f"?init{init}:" + ">".join(map(str, seq))
        return ">".join(map(str, seq))
    return str(m[1])


def _fresh_ref(case, j):
    if case["fam"] == "eg":
        return f"g|{j}" if case["cfg"]["nu"] == "given" else f"{j}|{j}"
    if case["cfg"].get("module"):
        return f"m:{j}"
    return str(j)


def _known_sig(case, E):
    """signature of the recorded finding 'fit overwrites a constructor parameter' for this configuration"""
    if E == "ExponentiatedGradient":
        return KNOWN_NU
    if case["cfg"].get("module"):
        return f"{PID}/{E}/get_params.predictor_model/param-overwritten-by-fit"
    return None


def _in_scope(case, hist, i):
    """is operation i of the history covered by the PROPERTY (same schema, warm_start=False)?"""
    if case["cfg"].get("warm_start"):
        return False
    return "F3" not in hist[:i + 1]


def compare(case, out, model):
    v = []
    E = out["est"]
    seen = set()

    def add(sig, what, oracle, kind):
        if (sig, kind) not in seen:
            seen.add((sig, kind))
            v.append((sig, what, oracle, kind))

    if out.get("ref_error"):
        add(f"{PID}/{E}/exception/fresh-fit-raises-{out['ref_error']}",
            f"a fresh estimator could not be fitted and fingerprinted: {out['ref_error']}: {out.get('ref_msg')}",
            "fit on a new estimator succeeds and the result predicts", "property")
        return v
    if out.get("info", {}).get("nu_equiv") is False:
        add(f"{PID}/{E}/nu/none-differs-from-computed-value", "a fresh fit with nu=None differs from a fresh fit "
            "given the value it computes", "model clause: fit uses nu_of p D when nu is None", "correspondence")
    for hi, (hist, obs) in enumerate(zip(case["hists"], out["hists"])):
        mobs = model[hi] if model is not None else None
        fitted = None           # the PROPERTY's expectation: data of the last fit of the current object
        prev_p, prev_i = set(), set()
        for i, (op, o) in enumerate(zip(hist, obs)):
            kind = op[0]
            where = f"history {hist} op #{i} ({op})"
            prop_bad = False
            scope = _in_scope(case, hist, i)
            exp_exc = None
            if kind == "F":
                fitted = int(op[1:])
            elif kind == "C":
                fitted = None
            elif kind == "P" and fitted is None:
                exp_exc = "NotFittedError"
            m = mobs[i] if mobs is not None and i < len(mobs) else None
            if scope:
                # ---- exception
                if o["exc"] != exp_exc:
                    prop_bad = True
                    if exp_exc is None:
                        add(f"{PID}/{E}/exception/{OPNAME[kind]}-raises-{o['exc']}",
                            f"{where}: raised {o['exc']}: {o.get('msg', '')}", "the call raises nothing", "property")
                    elif o["exc"] is None:
                        add(f"{PID}/{E}/exception/predict-on-unfitted-does-not-raise",
                            f"{where}: no exception from an unfitted object", "NotFittedError", "property")
                    else:
                        add(f"{PID}/{E}/exception/predict-on-unfitted-raises-{o['exc']}",
                            f"{where}: raised {o['exc']}", "NotFittedError", "property")
                elif o["exc"] is None:
                    if kind == "F" and not o.get("self"):
                        prop_bad = True
                        add(f"{PID}/{E}/fit-return/not-self", f"{where}: fit(...) did not return the estimator",
                            "fit(...) is est", "property")
                    if kind == "P":
                        if not o.get("rep"):
                            prop_bad = True
                            add(f"{PID}/{E}/predict/not-repeatable", f"{where}: two identical predict calls differ",
                                "same arguments and seed, same answer", "property")
                        adv = o.get("adv") or {}
                        if adv and not adv.get("state_dict_same"):
                            prop_bad = True
                            add(f"{PID}/{E}/fitted-model/state_dict-changed-by-predict",
                                f"{where}: predict / _raw_predict changed the networks' state_dict",
                                "predictor and adversary state_dict bit-identical across predict", "property")
                        if adv and not (adv.get("raw_same") and adv.get("pred_same")):
                            prop_bad = True
                            add(f"{PID}/{E}/predict/not-repeatable",
                                f"{where}: two consecutive predict / _raw_predict calls differ ({adv})",
                                "same arguments, same answer", "property")
                        if not o.get("pure"):
                            prop_bad = True
                            add(f"{PID}/{E}/fitted-model/changed-by-predict",
                                f"{where}: the fingerprint changed across predict", "predict does not alter fitted "
                                "state", "property")
                    if kind == "K" and not o.get("pk"):
                        prop_bad = True
                        add(f"{PID}/{E}/pickle/predicts-differently",
                            f"{where}: the restored object predicts differently", "pickle round trip is faithful",
                            "property")
                    if kind == "C":
                        if o.get("cl_attrs"):
                            prop_bad = True
                            add(f"{PID}/{E}/clone/carries-fitted-state", f"{where}: clone has {o['cl_attrs']}",
                                "a clone is unfitted", "property")
                        for k in o.get("cl_shared", []):
                            prop_bad = True
                            add(f"{PID}/{E}/clone/shares-{k}-object", f"{where}: clone shares the {k} object",
                                "a clone shares no mutable state", "property")
                # ---- parameters
                for k in o["pdiff"]:
                    if k not in prev_p:
                        prop_bad = True
                        sig = f"{PID}/{E}/get_params.{k}/param-overwritten-by-{OPNAME[kind]}"
                        note = ""
                        if (E, k) == ("ExponentiatedGradient", "nu") or \
                                (case["cfg"].get("module") and k in ("predictor_model", "adversary_model")):
                            # the two recorded findings: only as far as the model's account explains them
                            if m is None:
                                explained = mobs is None
                            elif k == "nu":
                                explained = (m["nu"] is not None and m["nu"][0] == 1
                                             and str(m["nu"][1]) in o.get("nu", []))
                            else:
                                explained = kind == "F" and m.get("mod") is not None and len(m["mod"][1]) > 0
                            if explained:
                                sig = _known_sig(case, E)
                                note = " (exactly as Lifecycle.v says: fit writes this constructor parameter)"
                            else:
                                sig += "-not-as-modelled"
                        add(sig, f"{where}: get_params()[{k!r}] no longer has the constructor value" + note,
                            "get_params equals the constructor arguments", "property")
                for k in o["idiff"]:
                    if k not in prev_i:
                        prop_bad = True
                        add(f"{PID}/{E}/get_params.{k}/object-replaced-by-{OPNAME[kind]}",
                            f"{where}: get_params()[{k!r}] is another object", "parameters are kept by identity",
                            "property")
                # ---- fitted state
                if o["exc"] == exp_exc:
                    f = o["fit"]
                    if isinstance(f, str) and f.startswith("X:"):
                        prop_bad = True
                        add(f"{PID}/{E}/fitted-model/fingerprint-raises-{f[2:]}", f"{where}: predicting raised {f[2:]}",
                            "a fitted estimator predicts", "property")
                    elif fitted is None:
                        if f != "U":
                            prop_bad = True
                            add(f"{PID}/{E}/{'clone' if kind == 'C' else 'fitted-model'}/carries-fitted-state",
                                f"{where}: object predicts although never fitted", "NotFittedError", "property")
                    elif f == "U":
                        prop_bad = True
                        add(f"{PID}/{E}/fitted-model/not-fitted-after-{OPNAME[kind]}",
                            f"{where}: object is not fitted", f"fitted like a fresh estimator on D{fitted}",
                            "property")
                    elif kind == "F":
                        # (Predict / Pickle are judged by their own before/after comparison above)
                        want = _fresh_ref(case, fitted)
                        if want not in f:
                            prop_bad = True
                            mref = _model_ref(case, m["model"]) if m is not None else None
                            if _known_sig(case, E) and mref is not None and mref != want and mref in f:
                                add(_known_sig(case, E), f"{where}: the refit started from the constructor "
                                    f"parameter overwritten by an earlier fit (equals the fresh estimator the "
                                    f"model names: {mref}), not from the constructor's value",
                                    f"fingerprint of a fresh estimator fitted once on D{fitted}", "property")
                            else:
                                cls = "refit-differs-from-fresh" if i > 0 else "fresh-fit-not-reproducible"
                                add(f"{PID}/{E}/fitted-model/{cls}",
                                    f"{where}: fingerprint matches {f}, expected {want}",
                                    f"fingerprint of a fresh estimator fitted once on D{fitted}", "property")
            prev_p, prev_i = set(o["pdiff"]), set(o["idiff"])
            # ---- model vs implementation
            if m is None:
                if mobs is not None:
                    add(f"{PID}/{E}/trace/shorter-than-history", f"{where}: model trace too short", "one observation "
                        "per operation", "correspondence")
                continue
            diffs = []
            ecode = 0 if o["exc"] is None else EXC_CODE.get(o["exc"], 9)
            if ecode != (m["exc"] or 0):
                diffs.append(("exception", f"implementation {o['exc']} model code {m['exc']}"))
            else:
                if kind == "F" and o["exc"] is None and bool(o.get("self")) != m["self"]:
                    diffs.append(("fit-return", f"implementation {o.get('self')} model {m['self']}"))
                if m["p"] != case["pcode"]:
                    diffs.append(("get_params", "model parameters differ from the constructor's"))
                mod_cfg = bool(case["cfg"].get("module"))
                others = [k for k in o["pdiff"] if not (E == "ExponentiatedGradient" and k == "nu")
                          and not (mod_cfg and k == "predictor_model")]
                if others:
                    diffs.append(("get_params", f"implementation changed {others}, model none"))
                if case["fam"].startswith("adv"):
                    trained = m.get("mod") is not None and len(m["mod"][1]) > 0
                    if ("predictor_model" in o["pdiff"]) != trained:
                        diffs.append(("get_params.predictor_model",
                                      f"implementation changed: {'predictor_model' in o['pdiff']}, model: {trained}"))
                if E == "ExponentiatedGradient":
                    lab = "none" if m["nu"] is None else ("given" if m["nu"][0] == 0 else str(m["nu"][1]))
                    if lab not in o.get("nu", []):
                        diffs.append(("get_params.nu", f"implementation {o.get('nu')} model {lab}"))
                mref = _model_ref(case, m["model"])
                f = o["fit"]
                if mref is None:
                    if f != "U":
                        diffs.append(("fitted-model", f"implementation fitted ({f}), model unfitted"))
                elif f == "U" or isinstance(f, str) or mref not in f:
                    diffs.append(("fitted-model", f"implementation matches {f}, model says {mref}"))
            if diffs and not prop_bad:
                for obs_name, what in diffs:
                    add(f"{PID}/{E}/{obs_name}/differs-from-model", f"{where}: {what}",
                        "observation predicted by Lifecycle.v", "correspondence")
    return v


def tags(case, out, model):
    t = [f"family:{case['fam']}", f"cfg:{case['fam']}:" + ",".join(f"{k}={case['cfg'][k]}" for k in
                                                                  ("variant", "lp", "nu", "objective", "named", "module", "warm_start", "schema")
                                                                  if k in case["cfg"]),
         f"histories:{len(case['hists'])}", f"refs-distinct:{out.get('distinct')}",
         f"D2-vs-D1:{case.get('variant', 'values')}"]
    n_ops = sum(len(h) for h in case["hists"])
    t.append(f"ops:{n_ops // 10 * 10}+")
    return t


def nontrivial(case, out, model):
    return bool(out.get("distinct")) and any(sum(1 for o in h if o[0] == "F") >= 2 for h in case["hists"])


def canon(case):
    return {k: v for k, v in case.items() if not k.startswith("_")}


def shrink(case):
    hs = case["hists"]
    if len(hs) > 1:
        for h in sorted(hs, key=len):
            yield dict(case, hists=[h])
        return
    h = hs[0]
    if len(h) > 1:
        for i in range(len(h)):
            yield dict(case, hists=[h[:i] + h[i + 1:]])
