"""C04 -- ThresholdOptimizer equalises the constrained metric exactly on the training data."""
from __future__ import annotations
from harness.props import _c04_common as K

PID = "C04"
VO = list(K.VO)
PROPS_FILES = ["props/C04.v"]
TRANSLATORS = list(K.TRANSLATORS)
REQUIRES = list(K.REQUIRES)
SHARD = 60
CHUNK = 8
CASE_TIMEOUT = 120
PARTIAL = []

LEVEL_TEXT = ""
LEVEL_NOTE = ""
TECHNIQUE = "Coq proof about the executable model of fit + pmf; differential model/implementation run"
TRUSTED = ["Coq 8.16.1 kernel and vm_compute", "harness/props/_c04_common.py (generators, comparison)"]
ASSUMPTIONS = []
RULE = ""
EXHAUSTIVE = {"quick": False, "thorough": False}


def cases(tier, seed):
    return K.cases(PID, tier, seed)


impl = K.impl
term = K.term
decode = K.decode
tags = K.tags
nontrivial = K.nontrivial
canon = K.canon
shrink = K.shrink


def compare(case, out, model):
    return K.compare_c04(PID, case, out, model)
