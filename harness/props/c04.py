"""C04 -- ThresholdOptimizer equalises the constrained metric exactly on the training data."""
from __future__ import annotations
from harness.props import _c04_common as K

PID = "C04"
VO = list(K.VO)
PROPS_FILES = ["props/C04.v"]
TRANSLATORS = list(K.TRANSLATORS)
REQUIRES = list(K.REQUIRES)
SHARD = 30
CHUNK = 8
CASE_TIMEOUT = 900
LEVEL_TEXT = ("Proof (Coq): for the executable model of ThresholdOptimizer.fit (tradeoff points with ties / +-inf / flipped "
              "operations, (x,y) sort, monotone-chain hull, interpolation indices, arg-max, p_ignore) and of "
              "InterpolatedThresholder._pmf_predict: for EVERY list of groups each containing both labels, every constraint, "
              "objective, flip and grid size the expected constrained metric of the fitted rule on each group's training rows "
              "equals the chosen grid value (simple constraints: C04_simple_parity; equalized odds: FPR = x_best and "
              "TPR = y_best, C04_eo_parity_fpr / C04_eo_parity_tpr, the latter using the proved hull correctness). Tie to "
              "the code: translators t_metricdict / t_hull / t_threshopt (fail closed; t_threshopt regenerates the optimisation "
              "step -- group weight len(group)/n, overall += p*y, idxmax, one common row index, np.amin, objective counts, "
              "p_ignore, prediction_constant -- and the tradeoff-point construction -- midpoint, '>' / flipped '<' only when "
              "flip, degenerate-label guard, (x,y) sort keys -- as tags and expressions that C04_optimisation_is_source, "
              "C04_accumulation_is_source, C04_eo_optimisation_is_source, C04_tradeoff_points_are_source prove equal to the "
              "model definitions) + differential run of the same Gallina functions against the real fit/_pmf_predict.")
LEVEL_NOTE = ("Trusted: Coq kernel + vm_compute; the three translators; the harness. The estimator run is correspondence, not "
              "proof; float rounding is outside the model (compared within 1e-9).")
TECHNIQUE = "Coq proof about the executable model of fit + pmf; source translators; differential model/implementation run"
TRUSTED = ["Coq 8.16.1 kernel and vm_compute", "translators/t_metricdict.py, translators/t_hull.py, translators/t_threshopt.py (Python ast -> Gallina)",
           "harness/props/_c04_common.py (generators, prefit multi-method scorer, oracles computed from the implementation's own _pmf_predict)",
           "numpy/pandas float arithmetic, groupby and stable multi-key sort (modelled, compared by correspondence)",
           "no axioms (Print Assumptions: closed)"]
ASSUMPTIONS = ["scores are finite; the model uses integer score levels (any finite set of rational scores is one after a "
               "positive rescaling, which commutes with thresholding); correspondence cases use dyadic affine images of the levels",
               "every group contains both labels (the guard of _calculate_tradeoff_points)",
               "exact rational arithmetic in the model; the implementation is compared within 1e-9"]
RULE = ("cases: every multiset (up to group swap and order-preserving relabelling of score levels) of (group,label,level) rows "
        "with 2 groups, <=3 levels, <=5 rows (thorough <=6) in which each group has both labels, each with 3 (thorough 6) "
        "configurations taken in rotation from the 378 = constraints x admissible objectives x flip x grid{1,2,3,4,5,7,10}; "
        "plus random tables (2..5 groups, 2..8 rows each, <=5 levels, grid sizes up to 1000); plus four structured streams "
        "(45 each, thorough 250): flip=False with one anti-correlated group (3/4 equalized odds), a single-distinct-score "
        "group beside heavily tied groups, a 2-row group beside a 10..18-row group / 1 row of one label against many, "
        "grid_size 1 and 2 (frequencies: tags shape:*, eo:*). Every case draws predict_method (5/8 predict, 1/8 each "
        "decision_function / predict_proba / auto) and a prefit scorer whose three methods give different exact images of "
        "the feature (s, 2s-3, (16-s)/16 | s/16 | |s-1|/16) and which has only some of them (what auto resolves to); the "
        "model gets the scores of the named method (tags predict_method:*). non-trivial = the chosen grid "
        "value is interior, or some group's rule is a genuine mixture (0<p0<1), or p_ignore>0")
EXHAUSTIVE = {"quick": False, "thorough": False}
PARTIAL = []


def cases(tier, seed):
    return K.cases(PID, tier, seed)


impl = K.impl
term = K.term
decode = K.decode
tags = K.tags
nontrivial = K.nontrivial
canon = K.canon
shrink = K.shrink


def compare(case, out, model):
    return K.compare_c04(PID, case, out, model)
