"""C19 helper: runs call histories against the REAL estimators and classifies every observation.

Imported inside worker processes only (imports fairlearn / torch lazily per family).
A history is a list of op codes: "F1" / "F2" / "F3" (fit on data set 1/2/3), "P" (predict twice),
"K" (pickle round trip, continue with the restored object), "C" (sklearn.clone, continue with the clone).
"""
from __future__ import annotations

import pickle

import numpy as np

TOL = 1e-9
PRIM = (type(None), bool, int, float, str)


# ------------------------------------------------------------------ data
def _tab(d):
    import pandas as pd
    X = pd.DataFrame({"a": [float(v) for v in d["a"]], "b": [float(v) for v in d["b"]]})
    y = pd.Series([int(v) for v in d["y"]])
    sf = pd.Series([str(v) for v in d["sf"]])
    return X, y, sf


def _mat(d):
    return np.array(d["X"], dtype=float)


# ------------------------------------------------------------------ public configuration of a parameter value
def pub(v, keys=None):
    from sklearn.base import BaseEstimator
    if isinstance(v, PRIM):
        return [type(v).__name__, v]
    if isinstance(v, (list, tuple)):
        return [type(v).__name__, [pub(x) for x in v]]
    if isinstance(v, dict):
        return ["dict", {str(k): pub(x) for k, x in sorted(v.items(), key=lambda kv: str(kv[0]))}]
    if isinstance(v, BaseEstimator):
        fitted = sorted(k for k in vars(v) if k.endswith("_") and not k.startswith("__"))
        return ["estimator", type(v).__name__, {k: pub(x) for k, x in sorted(v.get_params(deep=False).items())},
                fitted]
    # Moment and other plain objects: the primitive attributes they had when constructed
    ks = keys if keys is not None else _ctor_keys(v)
    return ["object", type(v).__name__, {k: pub(getattr(v, k, "<missing>")) for k in ks}]


def _ctor_keys(v):
    try:
        return sorted(k for k, x in vars(v).items() if isinstance(x, PRIM) and k != "data_loaded")
    except TypeError:
        return []


# ------------------------------------------------------------------ families
class Family:
    name = "?"
    picklable = True

    def __init__(self, case):
        self.case = case
        self.cfg = case["cfg"]
        self.data = {}
        for k, d in case["data"].items():
            self.data[int(k[1:])] = self.load(d)
        self.query = self.make_query()

    # -- to override
    def load(self, d):
        raise NotImplementedError

    def make_query(self):
        raise NotImplementedError

    def make(self, **over):
        raise NotImplementedError

    def fit(self, est, j):
        raise NotImplementedError

    def predict(self, est):
        raise NotImplementedError

    def fingerprint(self, est):
        raise NotImplementedError

    def ref_ids(self):
        return [str(j) for j in sorted(self.data)]

    def build_refs(self):
        refs = {}
        for j in sorted(self.data):
            refs[str(j)] = self.fresh(j)
        return refs, {}

    def fresh(self, j, **over):
        """fingerprint of a new estimator fitted once on D_j (fit's return value is not used)"""
        e = self.make(**over)
        self.fit(e, j)
        return self.fingerprint(e)


def _flat(*parts):
    out = []
    for p in parts:
        a = np.asarray(p, dtype=float).ravel()
        out.append(float(len(a)))
        out.extend(float(x) for x in a)
    return out


class TOFam(Family):
    name = "ThresholdOptimizer"

    def load(self, d):
        return _tab(d)

    def make_query(self):
        import pandas as pd
        X = pd.concat([self.data[j][0] for j in sorted(self.data)], ignore_index=True)
        sf = pd.concat([self.data[j][2] for j in sorted(self.data)], ignore_index=True)
        return X, sf

    def make(self, **over):
        from fairlearn.postprocessing import ThresholdOptimizer
        from sklearn.linear_model import LogisticRegression
        from harness.learners import PassThrough
        c = self.cfg
        if c["variant"] == "dp_lr":
            kw = dict(estimator=LogisticRegression(C=1.0), constraints=c.get("constraints", "demographic_parity"),
                      objective="accuracy_score", grid_size=c.get("grid_size", 20), flip=False, prefit=False,
                      predict_method="auto")
        else:
            kw = dict(estimator=PassThrough(), constraints="equalized_odds", objective="accuracy_score",
                      grid_size=c.get("grid_size", 15), flip=True, prefit=True, predict_method="predict")
        kw.update(over)
        return ThresholdOptimizer(**kw)

    def fit(self, est, j):
        X, y, sf = self.data[j]
        return est.fit(X, y, sensitive_features=sf)

    def predict(self, est):
        X, sf = self.query
        return est.predict(X, sensitive_features=sf, random_state=3)

    def fingerprint(self, est):
        X, sf = self.query
        pm = est._pmf_predict(X, sensitive_features=sf)[:, 1]
        pr = est.predict(X, sensitive_features=sf, random_state=5)
        return _flat(pm, pr)


class _RedFam(Family):
    def load(self, d):
        return _tab(d)

    def make_query(self):
        import pandas as pd
        return pd.concat([self.data[j][0] for j in sorted(self.data)], ignore_index=True)

    def moment(self):
        import fairlearn.reductions as red
        m = self.cfg.get("moment", "DemographicParity")
        return getattr(red, m)(difference_bound=self.cfg.get("difference_bound", 0.05))

    def fit(self, est, j):
        X, y, sf = self.data[j]
        return est.fit(X, y, sensitive_features=sf)


class EGFam(_RedFam):
    name = "ExponentiatedGradient"
    NU_GIVEN = 0.0625

    def make(self, **over):
        import fairlearn.reductions as red
        from harness.learners import ExactLearner
        c = self.cfg
        kw = dict(estimator=ExactLearner(), constraints=self.moment(), eps=c.get("eps", 0.05),
                  max_iter=c.get("max_iter", 4), nu=(self.NU_GIVEN if c["nu"] == "given" else None), eta0=2.0,
                  run_linprog_step=bool(c["lp"]))
        kw.update(over)
        return red.ExponentiatedGradient(**kw)

    def predict(self, est):
        return est.predict(self.query, random_state=3)

    def fingerprint(self, est):
        pm = est._pmf_predict(self.query)[:, 1]
        pr = est.predict(self.query, random_state=5)
        w = est.weights_.sort_index()
        return _flat(pm, pr, w.values, [est.best_gap_, est.best_iter_, est.last_iter_, est.n_oracle_calls_,
                                        est.n_oracle_calls_dummy_returned_, len(est.predictors_)],
                     est.lambda_vecs_EG_.values, est.lambda_vecs_.values)

    def ref_ids(self):
        if self.cfg["nu"] == "given":
            return [f"g|{j}" for j in (1, 2)]
        return [f"{k}|{j}" for k in (1, 2) for j in (1, 2)]

    def build_refs(self):
        refs, info = {}, {}
        if self.cfg["nu"] == "given":
            for j in (1, 2):
                refs[f"g|{j}"] = self.fresh(j)
            info["nus"] = {"given": self.NU_GIVEN}
            return refs, info
        nus = {}
        for j in (1, 2):
            e = self.make()                     # fresh, nu=None: the property's reference
            self.fit(e, j)
            refs[f"{j}|{j}"] = self.fingerprint(e)
            nus[str(j)] = float(e.get_params(deep=False)["nu"]) if e.get_params(deep=False)["nu"] is not None else None
        for k in (1, 2):
            for j in (1, 2):
                if k != j and nus[str(k)] is not None:
                    # what the model says a refit after a first fit on D_k is: the stale nu of D_k
                    refs[f"{k}|{j}"] = self.fresh(j, nu=nus[str(k)])
        if self.case.get("check_nu_equiv"):
            # model clause "fit with nu=None behaves as fit with nu=<the value it computes>"
            info["nu_equiv"] = all(
                nus[str(j)] is not None and
                _match(self.fresh(j, nu=nus[str(j)]), refs[f"{j}|{j}"])
                for j in (1, 2))
        info["nus"] = nus
        return refs, info


class GSFam(_RedFam):
    name = "GridSearch"

    def make(self, **over):
        import fairlearn.reductions as red
        from harness.learners import ExactLearner
        c = self.cfg
        kw = dict(estimator=ExactLearner(), constraints=self.moment(), constraint_weight=c.get("cw", 0.5),
                  grid_size=c.get("grid_size", 5), grid_limit=2.0)
        kw.update(over)
        return red.GridSearch(**kw)

    def predict(self, est):
        return est.predict(self.query)

    def fingerprint(self, est):
        pr = est.predict(self.query)
        return _flat(pr, [est.best_idx_, len(est.predictors_)], est.objectives_, est.gammas_.values,
                     est.lambda_vecs_.values)


class CRFam(Family):
    name = "CorrelationRemover"

    def load(self, d):
        return _mat(d)

    def make_query(self):
        q = {}
        for j in sorted(self.data):
            w = self.data[j].shape[1]
            q.setdefault(w, []).append(self.data[j])
        return {w: np.vstack(v) for w, v in q.items()}

    def make(self, **over):
        from fairlearn.preprocessing import CorrelationRemover
        kw = dict(sensitive_feature_ids=list(self.cfg.get("ids", [0])), alpha=self.cfg.get("alpha", 0.5))
        kw.update(over)
        return CorrelationRemover(**kw)

    def fit(self, est, j):
        return est.fit(self.data[j])

    def _q(self, est):
        w = getattr(est, "_n_features_in_", None)
        if w is None:
            w = sorted(self.query)[0]
        return self.query[w]

    def predict(self, est):
        return est.transform(self._q(est))

    def fingerprint(self, est):
        t = est.transform(self._q(est))
        return _flat(t, est.beta_, est.sensitive_mean_)


class AdvFam(Family):
    picklable = False
    regress = False

    @property
    def name(self):
        return "AdversarialFairnessRegressor" if self.regress else "AdversarialFairnessClassifier"

    def load(self, d):
        return _mat(d), np.array(d["y"], dtype=float if self.regress else int), np.array(d["sf"], dtype=int)

    def make_query(self):
        return np.vstack([self.data[j][0] for j in sorted(self.data)])

    def make(self, **over):
        import torch  # noqa: F401
        from fairlearn.adversarial import AdversarialFairnessClassifier, AdversarialFairnessRegressor
        c = self.cfg
        kw = dict(backend="torch", predictor_model=[3], adversary_model=[2], epochs=c.get("epochs", 2),
                  batch_size=c.get("batch_size", 4), shuffle=True, random_state=c.get("random_state", 11),
                  learning_rate=0.05, alpha=1.0, warm_start=bool(c.get("warm_start", False)),
                  constraints=c.get("constraints", "demographic_parity"))
        kw.update(over)
        return (AdversarialFairnessRegressor if self.regress else AdversarialFairnessClassifier)(**kw)

    def fit(self, est, j):
        X, y, sf = self.data[j]
        return est.fit(X, y, sensitive_features=sf)

    def predict(self, est):
        return est.predict(self.query)

    def fingerprint(self, est):
        pr = est.predict(self.query)          # raises NotFittedError on an unfitted object
        e = est.backendEngine_
        ws = []
        for net in (e.predictor_model, e.adversary_model):
            for _, v in sorted(net.state_dict().items()):
                ws.extend(float(x) for x in v.detach().cpu().numpy().ravel())
        return _flat(pr, ws, est._raw_predict(self.query), [est.n_iter_])

    def build_refs(self):
        if not self.cfg.get("warm_start"):
            return Family.build_refs(self)
        import itertools
        depth = max(sum(1 for o in h if o[0] == "F") for h in self.case["hists"])
        refs = {}
        for n in range(1, depth + 1):
            for seq in itertools.product("12", repeat=n):
                e = self.make()
                for j in seq:
                    self.fit(e, int(j))
                refs[">".join(seq)] = self.fingerprint(e)
        return refs, {}


class AdvRegFam(AdvFam):
    regress = True


FAMILIES = {"to": TOFam, "eg": EGFam, "gs": GSFam, "cr": CRFam, "advc": AdvFam, "advr": AdvRegFam}


# ------------------------------------------------------------------ running a history
def _match(a, b):
    if a is None or b is None or len(a) != len(b):
        return False
    if not a:
        return True
    return float(np.max(np.abs(np.asarray(a) - np.asarray(b)))) <= TOL


def _exc_name(e):
    return type(e).__name__


class Tracker:
    """constructor values (public configuration) + identities of the CURRENT object's parameter values"""

    def __init__(self, est):
        p = est.get_params(deep=False)
        self.keys = {k: (None if isinstance(v, PRIM) else _ctor_keys(v)) for k, v in p.items()}
        self.base_pub = {k: pub(v, self.keys[k]) for k, v in p.items()}
        self.rebase(est)

    def rebase(self, est):
        self.ids = {k: v for k, v in est.get_params(deep=False).items() if not isinstance(v, PRIM)}

    def pdiff(self, est):
        p = est.get_params(deep=False)
        out = [k for k in sorted(set(p) | set(self.base_pub))
               if k not in p or k not in self.base_pub or pub(p[k], self.keys.get(k)) != self.base_pub[k]]
        return out

    def idiff(self, est):
        p = est.get_params(deep=False)
        return sorted(k for k, v in self.ids.items() if p.get(k, None) is not v)


def _fitted(F, est, refs):
    """'U' (NotFittedError), list of matching reference ids, or 'X:<exception>'"""
    from sklearn.exceptions import NotFittedError
    try:
        fp = F.fingerprint(est)
    except NotFittedError:
        return "U", None
    except Exception as e:  # noqa
        return f"X:{_exc_name(e)}", None
    return [rid for rid, r in refs.items() if _match(fp, r)], fp


def _nu_labels(est, info):
    nu = est.get_params(deep=False).get("nu", "<absent>")
    if nu is None:
        return ["none"]
    if isinstance(nu, str):
        return [nu]
    out = []
    for lab, v in (info.get("nus") or {}).items():
        if v is not None and abs(float(nu) - v) <= 1e-12:
            out.append(lab)
    return out or [f"other:{float(nu)!r}"]


def run_history(F, hist, refs, info):
    from sklearn.base import clone
    est = F.make()
    tr = Tracker(est)
    obs = []
    for op in hist:
        o = {"op": op}
        try:
            if op[0] == "F":
                r = F.fit(est, int(op[1:]))
                o["self"] = r is est
            elif op == "P":
                before, fpb = _fitted(F, est, refs)
                a = F.predict(est)
                b = F.predict(est)
                o["rep"] = bool(np.array_equal(np.asarray(a), np.asarray(b)))
                after, fpa = _fitted(F, est, refs)
                o["pure"] = bool(before == after and (fpb is None or _match(fpb, fpa)))
            elif op == "K":
                before, fpb = _fitted(F, est, refs)
                new = pickle.loads(pickle.dumps(est))
                after, fpa = _fitted(F, new, refs)
                o["pk"] = bool(before == after and (fpb is None or _match(fpb, fpa)))
                o["pk_new"] = new is not est
                est = new
                tr.rebase(est)
            elif op == "C":
                new = clone(est)
                shared = sorted(k for k, v in new.get_params(deep=False).items()
                                if not isinstance(v, PRIM) and est.get_params(deep=False).get(k) is v)
                o["cl_new"] = new is not est
                o["cl_shared"] = shared
                o["cl_attrs"] = sorted(k for k in vars(new) if k.endswith("_") and not k.startswith("__"))
                est = new
                tr.rebase(est)
            else:
                raise ValueError(op)
            o["exc"] = None
        except Exception as e:  # noqa
            o["exc"] = _exc_name(e)
            o["msg"] = str(e)[:120]
        o["pdiff"] = tr.pdiff(est)
        o["idiff"] = tr.idiff(est)
        o["fit"], _ = _fitted(F, est, refs)
        if F.name == "ExponentiatedGradient":
            o["nu"] = _nu_labels(est, info)
        obs.append(o)
    return obs


def run_case(case):
    F = FAMILIES[case["fam"]](case)
    try:
        refs, info = F.build_refs()
    except Exception as e:  # noqa  -- a FRESH estimator cannot be fitted / does not predict
        import traceback
        return {"est": F.name, "ref_error": _exc_name(e), "ref_msg": str(e)[:200],
                "ref_tb": traceback.format_exc()[-800:], "refs": [], "distinct": False, "info": {}, "hists": []}
    ids = list(refs)
    distinct = all(not _match(refs[a], refs[b]) for i, a in enumerate(ids) for b in ids[i + 1:]
                   if a.split("|")[-1] != b.split("|")[-1] or "|" not in a)
    out = {"est": F.name, "refs": ids, "distinct": bool(distinct), "info": info,
           "ref_equal": [[a, b] for i, a in enumerate(ids) for b in ids[i + 1:] if _match(refs[a], refs[b])],
           "hists": [run_history(F, h, refs, info) for h in case["hists"]]}
    return out
