"""C19 helper: runs call histories against the REAL estimators and classifies every observation.

Imported inside worker processes only (imports fairlearn / torch lazily per family).
A history is a list of op codes: "F1" / "F2" / "F3" (fit on data set 1/2/3), "P" (predict twice),
"K" (pickle round trip, continue with the restored object), "C" (sklearn.clone, continue with the clone).
"""
from __future__ import annotations

import pickle

import numpy as np

TOL = 1e-9
PRIM = (type(None), bool, int, float, str)


# ------------------------------------------------------------------ data
def _tab(d):
    import pandas as pd
    X = pd.DataFrame({"a": [float(v) for v in d["a"]], "b": [float(v) for v in d["b"]]})
    X = X[list(d.get("cols", ["a", "b"]))]           # the same columns, possibly in another ORDER
    y = pd.Series([int(v) for v in d["y"]])
    sf = pd.Series([str(v) for v in d["sf"]])
    return X, y, sf


def _mat(d):
    return np.array(d["X"], dtype=float)


# ------------------------------------------------------------------ public configuration of a parameter value
def pub(v, keys=None):
    from sklearn.base import BaseEstimator
    if isinstance(v, PRIM):
        return [type(v).__name__, v]
    if isinstance(v, (list, tuple)):
        return [type(v).__name__, [pub(x) for x in v]]
    if isinstance(v, dict):
        return ["dict", {str(k): pub(x) for k, x in sorted(v.items(), key=lambda kv: str(kv[0]))}]
    if isinstance(v, BaseEstimator):
        fitted = sorted(k for k in vars(v) if k.endswith("_") and not k.startswith("__"))
        return ["estimator", type(v).__name__, {k: pub(x) for k, x in sorted(v.get_params(deep=False).items())},
                fitted]
    if type(v).__module__.startswith("torch") or hasattr(v, "state_dict"):
        import hashlib
        h = hashlib.sha1()
        for k, t in sorted(v.state_dict().items()):
            h.update(k.encode())
            h.update(np.asarray(t.detach().cpu().numpy(), dtype=np.float64).tobytes())
        return ["module", type(v).__name__, h.hexdigest()]
    # Moment and other plain objects: the primitive attributes they had when constructed
    ks = keys if keys is not None else _ctor_keys(v)
    return ["object", type(v).__name__, {k: pub(getattr(v, k, "<missing>")) for k in ks}]


def _ctor_keys(v):
    try:
        return sorted(k for k, x in vars(v).items() if isinstance(x, PRIM) and k != "data_loaded")
    except TypeError:
        return []


# ------------------------------------------------------------------ families
class _StopAfter:
    """picklable callback: asks the adversarial fit to stop once `k` steps are done"""

    def __init__(self, k):
        self.k = k

    def __call__(self, est, step=None, **kw):
        return (est.n_iter_ if step is None else step) >= self.k

    def __eq__(self, other):
        return isinstance(other, _StopAfter) and other.k == self.k

    def __hash__(self):
        return hash(("_StopAfter", self.k))

    def __repr__(self):
        return f"_StopAfter({self.k})"


class Family:
    name = "?"
    picklable = True

    def __init__(self, case):
        self.case = case
        self.cfg = case["cfg"]
        self.data = {}
        for k, d in case["data"].items():
            self.data[int(k[1:])] = self.load(d)
        self.query = self.make_query()

    # -- to override
    def load(self, d):
        raise NotImplementedError

    def make_query(self):
        raise NotImplementedError

    def make(self, **over):
        raise NotImplementedError

    def fit(self, est, j):
        raise NotImplementedError

    def predict(self, est, last=None):
        raise NotImplementedError

    def fingerprint(self, est, last=None):
        """`last` = data set of the most recent fit of this object (None: never fitted): probes are
        presented in THAT data set's column order, as a user would"""
        raise NotImplementedError

    def ref_ids(self):
        return [str(j) for j in sorted(self.data)]

    def build_refs(self):
        refs = {}
        for j in sorted(self.data):
            refs[str(j)] = self.fresh(j)
        return refs, {}

    def fresh(self, j, **over):
        """fingerprint of a new estimator fitted once on D_j (fit's return value is not used)"""
        e = self.make(**over)
        self.fit(e, j)
        return self.fingerprint(e, j)


def _flat(*parts):
    out = []
    for p in parts:
        a = np.asarray(p, dtype=float).ravel()
        out.append(float(len(a)))
        out.extend(float(x) for x in a)
    return out


def _sflat(strings):
    """strings as numbers (length-prefixed code points) so that keys / index labels are compared too"""
    out = []
    for t in strings:
        t = str(t)
        out.append(float(len(t)))
        out.extend(float(ord(c)) for c in t)
    return [float(len(out))] + out


def _cols(F, last):
    """column order of the data set the object was last fitted on (default: D1's)"""
    X = F.data[last if last in F.data else sorted(F.data)[0]][0]
    return list(X.columns)


class TOFam(Family):
    name = "ThresholdOptimizer"

    def load(self, d):
        return _tab(d)

    def make_query(self):
        # rows of EVERY data set, hence of every group seen in any fit
        import pandas as pd
        cols = sorted(self.data[sorted(self.data)[0]][0].columns)
        X = pd.concat([self.data[j][0][cols] for j in sorted(self.data)], ignore_index=True)
        sf = pd.concat([self.data[j][2] for j in sorted(self.data)], ignore_index=True)
        return X, sf

    def make(self, **over):
        from fairlearn.postprocessing import ThresholdOptimizer
        from sklearn.linear_model import LogisticRegression
        from harness.learners import PassThrough
        c = self.cfg
        if c["variant"] == "dp_lr":
            kw = dict(estimator=LogisticRegression(C=1.0), constraints=c.get("constraints", "demographic_parity"),
                      objective="accuracy_score", grid_size=c.get("grid_size", 20), flip=False, prefit=False,
                      predict_method="auto")
        else:
            kw = dict(estimator=PassThrough(), constraints="equalized_odds", objective="accuracy_score",
                      grid_size=c.get("grid_size", 15), flip=True, prefit=True, predict_method="predict")
        kw.update(over)
        return ThresholdOptimizer(**kw)

    def fit(self, est, j):
        X, y, sf = self.data[j]
        return est.fit(X, y, sensitive_features=sf)

    def predict(self, est, last=None):
        X, sf = self.query
        return est.predict(X[_cols(self, last)], sensitive_features=sf, random_state=3)

    def fingerprint(self, est, last=None):
        X, sf = self.query
        X = X[_cols(self, last)]
        pm = est._pmf_predict(X, sensitive_features=sf)[:, 1]
        pr = est.predict(X, sensitive_features=sf, random_state=5)
        # the learned rule itself: keys and values of the interpolation dictionary
        d = est.interpolated_thresholder_.interpolation_dict
        keys = sorted(d, key=str)
        vals = []
        for k in keys:
            b = d[k]
            for f in ("p_ignore", "prediction_constant", "p0", "p1"):
                vals.append(float(b[f]) if f in b else -7.0)
            for f in ("operation0", "operation1"):
                vals.append(float(b[f].threshold))
                vals.append(float(ord(b[f].operator[0])))
        return _flat(pm, pr, vals) + _sflat(keys) + _sflat([est.x_metric_, est.y_metric_])


class _RedFam(Family):
    def load(self, d):
        return _tab(d)

    def make_query(self):
        import pandas as pd
        cols = sorted(self.data[sorted(self.data)[0]][0].columns)
        return pd.concat([self.data[j][0][cols] for j in sorted(self.data)], ignore_index=True)

    def q(self, last):
        return self.query[_cols(self, last)]

    def moment(self):
        import fairlearn.reductions as red
        m = self.cfg.get("moment", "DemographicParity")
        return getattr(red, m)(difference_bound=self.cfg.get("difference_bound", 0.05))

    def fit(self, est, j):
        X, y, sf = self.data[j]
        return est.fit(X, y, sensitive_features=sf)


class EGFam(_RedFam):
    name = "ExponentiatedGradient"
    NU_GIVEN = 0.0625

    def make(self, **over):
        import fairlearn.reductions as red
        from harness.learners import ExactLearner
        c = self.cfg
        kw = dict(estimator=ExactLearner(), constraints=self.moment(), eps=c.get("eps", 0.05),
                  max_iter=c.get("max_iter", 4), nu=(self.NU_GIVEN if c["nu"] == "given" else None), eta0=2.0,
                  run_linprog_step=bool(c["lp"]))
        if c.get("objective"):
            # a user-supplied, stateful objective object next to the user-supplied constraints object
            kw["objective"] = red.ErrorRate(costs={"fp": 0.4, "fn": 0.6})
        kw.update(over)
        return red.ExponentiatedGradient(**kw)

    def predict(self, est, last=None):
        return est.predict(self.q(last), random_state=3)

    def fingerprint(self, est, last=None):
        pm = est._pmf_predict(self.q(last))[:, 1]
        pr = est.predict(self.q(last), random_state=5)
        w = est.weights_.sort_index()
        return _flat(pm, pr, w.values, [est.best_gap_, est.best_iter_, est.last_iter_, est.n_oracle_calls_,
                                        est.n_oracle_calls_dummy_returned_, len(est.predictors_)],
                     est.lambda_vecs_EG_.values, est.lambda_vecs_.values) + \
            _sflat(map(str, est.lambda_vecs_EG_.index))

    def build_refs(self):
        refs, info = {}, {}
        if self.cfg["nu"] == "given":
            for j in (1, 2):
                refs[f"g|{j}"] = self.fresh(j)
            info["nus"] = {"given": self.NU_GIVEN}
            return refs, info
        nus = {}
        for j in (1, 2):
            e = self.make()                     # fresh, nu=None: the property's reference
            self.fit(e, j)
            refs[f"{j}|{j}"] = self.fingerprint(e, j)
            nus[str(j)] = float(e.get_params(deep=False)["nu"]) if e.get_params(deep=False)["nu"] is not None else None
        for k in (1, 2):
            for j in (1, 2):
                if k != j and nus[str(k)] is not None:
                    # what the model says a refit after a first fit on D_k is: the stale nu of D_k
                    refs[f"{k}|{j}"] = self.fresh(j, nu=nus[str(k)])
        if self.case.get("check_nu_equiv"):
            # model clause "fit with nu=None behaves as fit with nu=<the value it computes>"
            info["nu_equiv"] = all(
                nus[str(j)] is not None and
                _match(self.fresh(j, nu=nus[str(j)]), refs[f"{j}|{j}"])
                for j in (1, 2))
        info["nus"] = nus
        return refs, info


class GSFam(_RedFam):
    name = "GridSearch"

    def make(self, **over):
        import fairlearn.reductions as red
        from harness.learners import ExactLearner
        c = self.cfg
        kw = dict(estimator=ExactLearner(), constraints=self.moment(), constraint_weight=c.get("cw", 0.5),
                  grid_size=c.get("grid_size", 5), grid_limit=2.0)
        kw.update(over)
        return red.GridSearch(**kw)

    def predict(self, est, last=None):
        return est.predict(self.q(last))

    def fingerprint(self, est, last=None):
        pr = est.predict(self.q(last))
        return _flat(pr, [est.best_idx_, len(est.predictors_)], est.objectives_, est.gammas_.values,
                     est.lambda_vecs_.values) + _sflat(map(str, est.lambda_vecs_.index)) + \
            _sflat(map(str, est.gammas_.index))


class CRFam(Family):
    name = "CorrelationRemover"

    def load(self, d):
        X = _mat(d)
        if self.cfg.get("named"):
            import pandas as pd
            return pd.DataFrame(X, columns=list(d["cols"]))
        return X

    def make_query(self):
        q = {}
        for j in sorted(self.data):
            w = self.data[j].shape[1]
            if self.cfg.get("named"):
                q.setdefault(w, []).append(self.data[j][sorted(self.data[j].columns)])
            else:
                q.setdefault(w, []).append(self.data[j])
        if self.cfg.get("named"):
            import pandas as pd
            return {w: pd.concat(v, ignore_index=True) for w, v in q.items()}
        return {w: np.vstack(v) for w, v in q.items()}

    def make(self, **over):
        from fairlearn.preprocessing import CorrelationRemover
        ids = ["s"] if self.cfg.get("named") else list(self.cfg.get("ids", [0]))
        kw = dict(sensitive_feature_ids=ids, alpha=self.cfg.get("alpha", 0.5))
        kw.update(over)
        return CorrelationRemover(**kw)

    def fit(self, est, j):
        return est.fit(self.data[j])

    def _q(self, est, last):
        w = getattr(est, "_n_features_in_", None)
        if w is None:
            w = sorted(self.query)[0]
        q = self.query[w]
        if self.cfg.get("named"):
            # probe frame with the column order of the data set of the last fit
            q = q[list(self.data[last if last in self.data else sorted(self.data)[0]].columns)]
        return q

    def predict(self, est, last=None):
        return est.transform(self._q(est, last))

    def fingerprint(self, est, last=None):
        t = est.transform(self._q(est, last))
        fp = _flat(t, est.beta_, est.sensitive_mean_)
        if self.cfg.get("named"):
            # name -> position map learned by fit (for ndarray input it is the identity; a REJECTED refit with
            # another width has already overwritten it -- partial mutation outside the property, not modelled)
            fp += _sflat(sorted(map(str, est.lookup_.items())))
        return fp


class AdvFam(Family):
    picklable = False
    regress = False
    exact = True            # same seed, same arithmetic: bit-identical or different

    @property
    def name(self):
        return "AdversarialFairnessRegressor" if self.regress else "AdversarialFairnessClassifier"

    def load(self, d):
        return _mat(d), np.array(d["y"], dtype=float if self.regress else int), np.array(d["sf"], dtype=int)

    def make_query(self):
        return np.vstack([self.data[j][0] for j in sorted(self.data)])

    def module(self):
        """user-supplied predictor with mode-dependent layers, built under a fixed torch seed"""
        import torch
        torch.manual_seed(int(self.cfg.get("module_seed", 5)))
        layers = [torch.nn.Linear(3, 4), torch.nn.BatchNorm1d(4), torch.nn.ReLU(), torch.nn.Dropout(0.5),
                  torch.nn.Linear(4, 1)]
        if not self.regress:
            layers.append(torch.nn.Sigmoid())
        return torch.nn.Sequential(*layers)

    def make(self, **over):
        import torch  # noqa: F401
        from fairlearn.adversarial import AdversarialFairnessClassifier, AdversarialFairnessRegressor
        c = self.cfg
        kw = dict(backend="torch", predictor_model=(self.module() if c.get("module") else [3]),
                  adversary_model=[2], epochs=c.get("epochs", 2),
                  batch_size=c.get("batch_size", 4), shuffle=True, random_state=c.get("random_state", 11),
                  learning_rate=0.05, alpha=1.0, warm_start=bool(c.get("warm_start", False)),
                  constraints=c.get("constraints", "demographic_parity"))
        if c.get("stop_after"):
            kw["callbacks"] = [_StopAfter(int(c["stop_after"]))]
        kw.update(over)
        return (AdversarialFairnessRegressor if self.regress else AdversarialFairnessClassifier)(**kw)

    def fit(self, est, j):
        X, y, sf = self.data[j]
        return est.fit(X, y, sensitive_features=sf)

    def predict(self, est, last=None):
        return est.predict(self.query)

    def weights(self, est):
        e = est.backendEngine_
        ws = []
        for net in (e.predictor_model, e.adversary_model):
            for _, v in sorted(net.state_dict().items()):
                ws.extend(float(x) for x in np.asarray(v.detach().cpu().numpy(), dtype=float).ravel())
        return ws

    def fingerprint(self, est, last=None):
        from sklearn.utils.validation import check_is_fitted
        check_is_fitted(est)                  # NotFittedError on an unfitted object
        ws = self.weights(est)                # BEFORE any evaluation (a never-predicted twin has exactly these)
        pr = est.predict(self.query)
        raw = est._raw_predict(self.query)
        return _flat(ws, pr, raw, self.weights(est), [est.n_iter_])

    def predict_checks(self, est):
        """Predict must not touch either network; consecutive predict / _raw_predict agree (bitwise)"""
        w0 = self.weights(est)
        r1, r2 = est._raw_predict(self.query), est._raw_predict(self.query)
        p1, p2 = est.predict(self.query), est.predict(self.query)
        return {"state_dict_same": bool(np.array_equal(np.asarray(w0), np.asarray(self.weights(est)))),
                "raw_same": bool(np.array_equal(np.asarray(r1), np.asarray(r2))),
                "pred_same": bool(np.array_equal(np.asarray(p1), np.asarray(p2)))}

    def build_refs(self):
        c = self.cfg
        if not c.get("warm_start") and not c.get("module"):
            return Family.build_refs(self)
        import itertools
        depth = max(sum(1 for o in h if o[0] == "F") for h in self.case["hists"])
        refs = {}
        pre = "m:" if c.get("module") else ""
        for n in range(1, depth + 1):
            for seq in itertools.product("12", repeat=n):
                e = self.make()
                for j in seq:
                    self.fit(e, int(j))
                refs[pre + ">".join(seq)] = self.fingerprint(e, int(seq[-1]))
        return refs, {}


class AdvRegFam(AdvFam):
    regress = True


FAMILIES = {"to": TOFam, "eg": EGFam, "gs": GSFam, "cr": CRFam, "advc": AdvFam, "advr": AdvRegFam}


# ------------------------------------------------------------------ running a history
def _match(a, b, exact=False):
    if a is None or b is None or len(a) != len(b):
        return False
    if not a:
        return True
    x, y = np.asarray(a, dtype=float), np.asarray(b, dtype=float)
    if exact:
        return bool(np.array_equal(x, y, equal_nan=True))
    fx, fy = np.isfinite(x), np.isfinite(y)
    if not np.array_equal(fx, fy):
        return False
    if not np.array_equal(x[~fx], y[~fy], equal_nan=True):
        return False
    return bool(fx.sum() == 0 or float(np.max(np.abs(x[fx] - y[fy]))) <= TOL)


def _exc_name(e):
    return type(e).__name__


class Tracker:
    """constructor values (public configuration) + identities of the CURRENT object's parameter values"""

    def __init__(self, est):
        p = est.get_params(deep=False)
        self.keys = {k: (None if isinstance(v, PRIM) else _ctor_keys(v)) for k, v in p.items()}
        self.base_pub = {k: pub(v, self.keys[k]) for k, v in p.items()}
        self.rebase(est)

    def rebase(self, est):
        self.ids = {k: v for k, v in est.get_params(deep=False).items() if not isinstance(v, PRIM)}

    def pdiff(self, est):
        p = est.get_params(deep=False)
        out = [k for k in sorted(set(p) | set(self.base_pub))
               if k not in p or k not in self.base_pub or pub(p[k], self.keys.get(k)) != self.base_pub[k]]
        return out

    def idiff(self, est):
        p = est.get_params(deep=False)
        return sorted(k for k, v in self.ids.items() if p.get(k, None) is not v)


def _fitted(F, est, refs, last=None):
    """'U' (NotFittedError), list of matching reference ids, or 'X:<exception>'"""
    from sklearn.exceptions import NotFittedError
    try:
        fp = F.fingerprint(est, last)
    except NotFittedError:
        return "U", None
    except Exception as e:  # noqa
        return f"X:{_exc_name(e)}", None
    ex = getattr(F, "exact", False)
    return [rid for rid, r in refs.items() if _match(fp, r, ex)], fp


def _nu_labels(est, info):
    nu = est.get_params(deep=False).get("nu", "<absent>")
    if nu is None:
        return ["none"]
    if isinstance(nu, str):
        return [nu]
    out = []
    for lab, v in (info.get("nus") or {}).items():
        if v is not None and abs(float(nu) - v) <= 1e-12:
            out.append(lab)
    return out or [f"other:{float(nu)!r}"]


def run_history(F, hist, refs, info):
    from sklearn.base import clone
    est = F.make()
    tr = Tracker(est)
    obs = []
    last = None            # data set of the last successful fit of the CURRENT object
    ex = getattr(F, "exact", False)
    for op in hist:
        o = {"op": op}
        try:
            if op[0] == "F":
                r = F.fit(est, int(op[1:]))
                last = int(op[1:])
                o["self"] = r is est
            elif op == "P":
                before, fpb = _fitted(F, est, refs, last)
                a = F.predict(est, last)
                b = F.predict(est, last)
                o["rep"] = bool(np.array_equal(np.asarray(a), np.asarray(b)))
                if hasattr(F, "predict_checks"):
                    o["adv"] = F.predict_checks(est)
                after, fpa = _fitted(F, est, refs, last)
                o["pure"] = bool(before == after and (fpb is None or _match(fpb, fpa, ex)))
            elif op == "K":
                before, fpb = _fitted(F, est, refs, last)
                new = pickle.loads(pickle.dumps(est))
                after, fpa = _fitted(F, new, refs, last)
                o["pk"] = bool(before == after and (fpb is None or _match(fpb, fpa, ex)))
                o["pk_new"] = new is not est
                est = new
                tr.rebase(est)
            elif op == "C":
                new = clone(est)
                shared = sorted(k for k, v in new.get_params(deep=False).items()
                                if not isinstance(v, PRIM) and est.get_params(deep=False).get(k) is v)
                o["cl_new"] = new is not est
                o["cl_shared"] = shared
                o["cl_attrs"] = sorted(k for k in vars(new) if k.endswith("_") and not k.startswith("__"))
                est = new
                last = None
                tr.rebase(est)
            else:
                raise ValueError(op)
            o["exc"] = None
        except Exception as e:  # noqa
            o["exc"] = _exc_name(e)
            o["msg"] = str(e)[:120]
        o["pdiff"] = tr.pdiff(est)
        o["idiff"] = tr.idiff(est)
        o["fit"], _ = _fitted(F, est, refs, last)
        if F.name == "ExponentiatedGradient":
            o["nu"] = _nu_labels(est, info)
        obs.append(o)
    return obs


def run_case(case):
    F = FAMILIES[case["fam"]](case)
    try:
        refs, info = F.build_refs()
    except Exception as e:  # noqa  -- a FRESH estimator cannot be fitted / does not predict
        import traceback
        return {"est": F.name, "ref_error": _exc_name(e), "ref_msg": str(e)[:200],
                "ref_tb": traceback.format_exc()[-800:], "refs": [], "distinct": False, "info": {}, "hists": []}
    ids = list(refs)
    ex = getattr(F, "exact", False)
    distinct = all(not _match(refs[a], refs[b], ex) for i, a in enumerate(ids) for b in ids[i + 1:]
                   if a.split("|")[-1] != b.split("|")[-1] or "|" not in a)
    out = {"est": F.name, "refs": ids, "distinct": bool(distinct), "info": info,
           "ref_equal": [[a, b] for i, a in enumerate(ids) for b in ids[i + 1:] if _match(refs[a], refs[b], ex)],
           "hists": [run_history(F, h, refs, info) for h in case["hists"]]}
    return out
