"""C13 -- several sensitive / control columns group rows by tuple equality, collision-free."""
from __future__ import annotations
import itertools
from harness.core import Rng, gz, glist, Dec

PID = "C13"
VO = ["theories/Misc/Merge.vo", "theories/Misc/Merge_proofs.vo", "theories/Misc/MergeGen.vo", "theories/Misc/MergeNecessity.vo",
      "theories/Misc/MergeSrc.vo", "theories/Misc/MergeSrc_proofs.vo", "theories/Base/Flat.vo"]
PROPS_FILES = ["props/C13.v"]
TRANSLATORS = ["t_merge"]
REQUIRES = ["From FL Require Import Num Flat Merge."]
SHARD = 200
CHUNK = 2
CASE_TIMEOUT = 300

LEVEL_TEXT = ("Proof (Coq): for the escape chain and separator regenerated from _merge_columns on every run, "
              "merge is injective on non-empty rows over any alphabet (via a decoder, unmerge(merge r) = r) and the "
              "partition by merged string equals the partition by tuple equality; for the two feature blocks of "
              "_validate_and_reformat_input, the row pipeline of _merge_columns and the ThresholdOptimizer / "
              "InterpolatedThresholder key paths regenerated on every run: both blocks merge exactly the checked array "
              "exactly when it has several columns, every row goes through astype(str) -> escape -> join with nothing "
              "in between, the produced column partitions the rows by tuple equality, and the key computed at predict "
              "time equals the key stored at fit time iff the tuples are equal (same function, keyword and slot). "
              "Necessity, for every pair of distinct escape / separator characters: a chain that escapes nothing, "
              "only one of the two, both in the other order, or the separator by another character merges two "
              "different non-empty rows into one key (explicit witnesses), and the acceptance test chain_ok rejects "
              "each of them. "
              "Tie to the code: translator "
              "t_merge (fail closed) + differential run of the Gallina merge against _merge_columns on all 2-column "
              "and sampled 3-column tuples over a 12-string adversarial alphabet, and partition checks through "
              "_validate_and_reformat_input, the parity moments, MetricFrame, ThresholdOptimizer fit/predict, "
              "ExponentiatedGradient and GridSearch against single-column relabelled twins.")
LEVEL_NOTE = ("Trusted: Coq kernel + vm_compute; translator t_merge (Python ast -> (pattern, replacement) list and "
              "call-site records; single-character str.replace semantics as written in Merge.replace1; the "
              "interpretation MergeSrc.column_of of a feature block; check_array / pd.Series(.squeeze()) / "
              "_reformat_data_into_dict keep the values as they are); numpy astype(str) and pandas "
              "group-by are modelled, not verified; the end-to-end estimator runs are correspondence, not proof.")
TECHNIQUE = "Coq proof of injectivity on the source-regenerated escape chain + differential model/implementation run"
TRUSTED = ["Coq 8.16.1 kernel and vm_compute", "translators/t_merge.py", "harness/props/c13.py (generators, "
           "comparison)", "numpy astype(str), pandas groupby (modelled)", "no axioms (Print Assumptions: closed)"]
ASSUMPTIONS = ["values are compared after numpy's astype(str), as the property states ('compared as strings')",
               "str.replace with a one-character pattern = per-character substitution (Merge.replace1)"]
RULE = ("cases: (merge) every row over the adversarial alphabet fed to _merge_columns in one table; (partition) "
        "random tables of 2..3 string columns fed to _validate_and_reformat_input / moments / MetricFrame / "
        "ThresholdOptimizer / EG / GridSearch; non-trivial = the table contains a value with a separator or "
        "backslash and at least two distinct tuples whose naive (unescaped) join coincides or share a column value")
EXHAUSTIVE = {"quick": True, "thorough": True}

def _sys_alpha():
    import itertools as it
    base = ["a", ",", "\\"]
    out = [""]
    for k in (1, 2, 3):
        out += ["".join(t) for t in it.product(base, repeat=k)]
    return out + ["1", "1.0", "2.50", "2.5", "v1.0", "v1", " a", "a "]


# every string of length <= 3 over {a, separator, escape} plus numeric / whitespace look-alikes
ALPHA = _sys_alpha()
ALPHA_SMALL = ["", ",", "\\", "a", "a,", ",a", "\\,", "1", "1.0", "a\\", "\\\\", ",,", "\\,\\", ",\\"]
# tuples whose unescaped joins collide pairwise: the adversarial core of every random table
COLLIDE_SETS = [[("a,", "a"), ("a", ",a")], [(",", ""), ("", ",")], [("\\", ","), ("\\,", "")],
                [(",,", ""), (",", ","), ("", ",,")], [("a\\", ",a"), ("a", "\\,a")], [("1", ",1"), ("1,", "1")],
                [("\\\\", ","), ("\\", "\\,")]]
COLLIDERS2 = [("a,", "a"), ("a", ",a"), ("a\\", ",a"), ("a", "\\,a"), (",", ""), ("", ","), ("\\", ","), ("\\,", ""),
              (",,", ""), (",", ","), ("", ",,"), ("\\\\", ","), ("\\", "\\,")]


def _cp(s):
    return [ord(c) for c in s]


def _grow(rows):
    return glist([glist([glist(_cp(v), gz) for v in r]) for r in rows])


def _source_specials():
    """characters the CURRENT source treats specially (separator, escape patterns / replacements)"""
    try:
        import re
        from harness import core
        from translators import t_merge
        txt = t_merge.translate(core.REPO)["Gen_merge.v"]
        chain = txt.split("Definition steps")[1].split("(* ---- call sites")[0]     # steps and sep only
        return sorted({chr(int(x)) for x in re.findall(r"\d+", chain)})
    except Exception:
        return [",", "\\"]


def cases(tier, seed):
    out = []
    extra = [c for c in _source_specials() if c not in (",", "\\")]
    global ALPHA
    if extra:      # adapt the adversarial alphabet to what the source now uses as separator / escape
        ALPHA = ALPHA + [e for c in extra for e in (c, "a" + c, c + "a", "\\" + c, c + c)]
    # exhaustive 2-column stream (one table), sampled / exhaustive 3-column stream
    t2 = [list(p) for p in itertools.product(ALPHA, repeat=2)]
    out.append({"kind": "merge", "rows": t2})
    t3 = [list(p) for p in itertools.product(ALPHA_SMALL, repeat=3)]
    if tier == "quick" or extra:
        t3 = Rng(seed, PID, "t3").sample(t3, 400)
    for k in range(0, len(t3), 432):
        out.append({"kind": "merge", "rows": t3[k:k + 432]})
    # numeric look-alikes through astype(str)
    out.append({"kind": "merge_obj", "rows": [[1, "1"], ["1", 1], [1.0, "1.0"], ["a,", 2], ["a", ",2"], [True, "x"]]})
    n = {"quick": 40, "thorough": 400}[tier]
    kinds = ["validate", "moment", "metricframe", "to", "to", "gs", "eg"]
    for i in range(n):
        r = Rng(seed, PID, "part", i)
        kind = kinds[i % len(kinds)]
        ncol = r.choice([2, 2, 3])
        ng = r.randint(2, 4)
        tuples = [list(t) + ([","] if ncol == 3 else []) for t in r.choice(COLLIDE_SETS)][:ng]
        pool2 = [list(t) for t in COLLIDERS2] + [[r.choice(ALPHA), r.choice(ALPHA)] for _ in range(6)]
        while len(tuples) < ng:
            t = list(r.choice(pool2))
            if ncol == 3:
                t = t + [r.choice(["", ",", "z"])]
            if t not in tuples:
                tuples.append(t)
        rows, y, score = [], [], []
        for t in tuples:           # every tuple gets both labels (ThresholdOptimizer's guard)
            m = r.randint(2, 4)
            labs = [0, 1] + [r.randint(0, 1) for _ in range(m - 2)]
            for l in labs:
                rows.append(list(t)); y.append(l); score.append(r.randint(0, 4))
        perm = list(range(len(rows))); r.shuffle(perm)
        c = {"kind": kind, "rows": [rows[p] for p in perm], "y": [y[p] for p in perm],
             "score": [score[p] for p in perm], "as_control": kind in ("moment", "validate") and r.chance(1, 3),
             "moment": r.choice(["DemographicParity", "TruePositiveRateParity", "EqualizedOdds", "ErrorRateParity"]),
             "constraint": r.choice(["demographic_parity", "equalized_odds", "true_positive_rate_parity"]),
             "container": r.choice(["ndarray", "DataFrame", "list"])}
        out.append(c)
    return out


def _ids(keys):
    first = {}
    out = []
    for i, k in enumerate(keys):
        first.setdefault(k, i)
        out.append(first[k])
    return out


def impl(case):
    import numpy as np, pandas as pd
    from fairlearn.utils._input_validation import _merge_columns, _validate_and_reformat_input
    kind = case["kind"]
    rows = case["rows"]
    if kind in ("merge", "merge_obj"):
        arr = np.array(rows, dtype=object)
        merged = _merge_columns(arr)
        res = {"merged": [[ord(ch) for ch in str(s)] for s in merged]}
        # the key of a tuple must be a function of the tuple alone: merge a sample of the rows one at a time
        # and in small batches and compare with the key they got inside the whole table
        step = max(1, len(rows) // 150)
        single = {}
        for i in range(0, len(rows), step):
            one = _merge_columns(np.array([rows[i]], dtype=object))
            single[i] = [ord(ch) for ch in str(one[0])]
        res["single"] = [[i, v] for i, v in single.items()]
        if kind == "merge_obj":
            res["strs"] = [[str(v) for v in r] for r in arr.astype(str)]
        return res
    n = len(rows)
    y = np.array(case["y"])
    score = np.array(case["score"], dtype=float)
    X = pd.DataFrame({"s": score, "c": np.arange(n) % 2})
    tab = np.array(rows, dtype=object)
    cont = case["container"]
    sf = tab if cont == "ndarray" else (pd.DataFrame(tab, columns=[f"f{j}" for j in range(tab.shape[1])])
                                        if cont == "DataFrame" else [list(r) for r in rows])
    # relabelled single-column twin: tuple -> 'g<k>' in order of first appearance (independent of the merge)
    tkeys = [tuple(r) for r in rows]
    # twin names keep the sort order of the implementation's own merged strings (so both runs sum and
    # iterate groups in the same order: bitwise-equal results, no tie-breaking noise) but stay distinct
    # for distinct tuples whatever the merge does
    dist = sorted(set(tkeys))
    mstr = [str(s) for s in _merge_columns(np.array([list(t) for t in dist], dtype=object))]
    order = sorted(range(len(dist)), key=lambda i: (mstr[i], dist[i]))
    t2g = {dist[i]: f"g{rank:03d}" for rank, i in enumerate(order)}
    twin = np.array([t2g[t] for t in tkeys])
    res = {}
    if kind == "validate":
        if case["as_control"]:
            _, _, s1, c1 = _validate_and_reformat_input(X, y, sensitive_features=twin, control_features=sf)
            col = c1
        else:
            _, _, col, _ = _validate_and_reformat_input(X, y, sensitive_features=sf)
        res["ids"] = _ids(list(col.values))
        return res
    if kind == "moment":
        import fairlearn.reductions as red
        M = getattr(red, case["moment"])
        m = M()
        if case["as_control"]:
            m.load_data(X, pd.Series(y), sensitive_features=twin, control_features=sf)
            m2 = M(); m2.load_data(X, pd.Series(y), sensitive_features=twin, control_features=twin)
            ev = list(m.tags["event"].astype(str).values)
            res["ids"] = None
            res["event_ids"] = _ids(ev); res["twin_event_ids"] = _ids(list(m2.tags["event"].astype(str).values))
        else:
            m.load_data(X, pd.Series(y), sensitive_features=sf)
            m2 = M(); m2.load_data(X, pd.Series(y), sensitive_features=twin)
            res["ids"] = _ids(list(m.tags["group_id"].values))
        h = lambda X_: (X_["s"].values >= 2).astype(float)
        g1, g2 = m.gamma(h), m2.gamma(h)
        res["n_index"], res["n_index_twin"] = len(m.index), len(m2.index)
        res["gamma"] = sorted(round(float(v), 12) for v in g1.values)
        res["gamma_twin"] = sorted(round(float(v), 12) for v in g2.values)
        return res
    if kind == "metricframe":
        from fairlearn.metrics import MetricFrame, count
        dfsf = pd.DataFrame(tab, columns=[f"f{j}" for j in range(tab.shape[1])])
        mf = MetricFrame(metrics=count, y_true=y, y_pred=y, sensitive_features=dfsf)
        bg = mf.by_group
        nonempty = {tuple(k): int(v) for k, v in bg.items() if v == v and v > 0}
        import fairlearn.reductions as red
        m = red.DemographicParity(); m.load_data(X, pd.Series(y), sensitive_features=dfsf)
        sizes = {}
        for g in m.tags["group_id"].values:
            sizes[g] = sizes.get(g, 0) + 1
        res["ids"] = _ids(list(m.tags["group_id"].values))
        res["mf_sizes"] = sorted(nonempty.values())
        res["moment_sizes"] = sorted(sizes.values())
        return res
    if kind == "to":
        from fairlearn.postprocessing import ThresholdOptimizer
        from harness.learners import PassThrough
        def mk():
            return ThresholdOptimizer(estimator=PassThrough(), constraints=case["constraint"], prefit=True,
                                      predict_method="predict", grid_size=7)
        a = mk().fit(X, y, sensitive_features=sf)
        b = mk().fit(X, y, sensitive_features=twin)
        res["n_keys"] = len(a.interpolated_thresholder_.interpolation_dict)
        res["n_keys_twin"] = len(b.interpolated_thresholder_.interpolation_dict)
        # predict time: query rows = every training tuple x every score level incl. unseen ones, shuffled order
        q = [(t, s) for t in sorted(set(tkeys)) for s in (-1.0, 0.0, 1.5, 2.0, 3.0, 5.0)]
        qX = pd.DataFrame({"s": [s for _, s in q], "c": 0})
        qsf = np.array([list(t) for t, _ in q], dtype=object)
        qtw = np.array([t2g[t] for t, _ in q])
        if cont == "DataFrame":
            qsf = pd.DataFrame(qsf, columns=[f"f{j}" for j in range(qsf.shape[1])])
        elif cont == "list":
            qsf = [list(r) for r in qsf]
        pa = a._pmf_predict(qX, sensitive_features=qsf)[:, 1]
        pb = b._pmf_predict(qX, sensitive_features=qtw)[:, 1]
        res["pmf"] = [float(v) for v in pa]
        res["pmf_twin"] = [float(v) for v in pb]
        # predict-time batches that contain ONE tuple only must give the same rows as the full batch
        alone = []
        for t in sorted(set(tkeys)):
            idxs = [i for i, (tt, _) in enumerate(q) if tt == t]
            qsf_t = np.array([list(t)] * len(idxs), dtype=object)
            if cont == "DataFrame":
                qsf_t = pd.DataFrame(qsf_t, columns=[f"f{j}" for j in range(qsf_t.shape[1])])
            elif cont == "list":
                qsf_t = [list(r) for r in qsf_t]
            try:
                pt = a._pmf_predict(qX.iloc[idxs].reset_index(drop=True), sensitive_features=qsf_t)[:, 1]
                alone += [[i, float(v)] for i, v in zip(idxs, pt)]
            except Exception as e:  # noqa
                alone.append([idxs[0], f"{type(e).__name__}"])
        res["pmf_alone"] = alone
        res["ids"] = None
        return res
    if kind in ("gs", "eg"):
        import fairlearn.reductions as red
        from harness.learners import ExactLearner
        Xs = pd.DataFrame({"s": (score >= 2).astype(int), "c": np.arange(n) % 2})
        def mk():
            if kind == "gs":
                return red.GridSearch(ExactLearner(), red.DemographicParity(), grid_size=5)
            return red.ExponentiatedGradient(ExactLearner(), red.DemographicParity(), max_iter=5)
        a = mk(); a.fit(Xs, y, sensitive_features=sf)
        # the constraints object is loaded in place: its group tags show how fit partitioned the rows
        res["ids"] = _ids(list(a.constraints.tags["group_id"].values))
        res["n_index"] = len(a.constraints.index)
        return res
    raise ValueError(kind)


def term(case, out):
    if case["kind"] == "merge_obj":
        if out is None:
            return None
        rows = out["strs"]
    else:
        rows = case["rows"]
    return (f"let rows := {_grow(rows)} in enc_list (enc_list enc_z) (merge_table rows) ++ "
            f"enc_list enc_nat (merged_partition rows) ++ enc_list enc_nat (tuple_partition rows) ++ "
            f"enc_bool (forallb (fun r => row_eqb (unmerge (merge r)) r) rows)")


def decode(case, zs):
    d = Dec(zs)
    merged = d.list(lambda: d.list(d.z))
    mp = d.list(d.nat)
    tp = d.list(d.nat)
    rt = d.bool()
    d.done()
    return {"merged": merged, "merged_partition": mp, "tuple_partition": tp, "roundtrip": rt}


def compare(case, out, model):
    kind = case["kind"]
    v = []
    if model is not None and (model["merged_partition"] != model["tuple_partition"] or not model["roundtrip"]):
        v.append((f"{PID}/model/partition/theorem-contradicted", "model partition differs from tuple partition "
                  "(contradicts the proved theorem: harness or build defect)", "merged_partition = tuple_partition",
                  "correspondence"))
    if kind in ("merge", "merge_obj"):
        keys = [tuple(map(tuple, [[ord(c) for c in str(x)] for x in r])) for r in
                (out.get("strs") or case["rows"])]
        seen = {}
        for k, m in zip(keys, out["merged"]):
            m = tuple(m)
            if m in seen and seen[m] != k:
                v.append((f"{PID}/_merge_columns/partition/collision",
                          f"two distinct tuples merge to the same string: {seen[m]!r} and {k!r}",
                          "injectivity of the merged key on the implementation", "property"))
                break
            seen[m] = k
        for i, v_ in out.get("single", []):
            if v_ != out["merged"][i]:
                v.append((f"{PID}/_merge_columns/key/depends-on-the-batch",
                          f"row {i} {case['rows'][i] if kind == 'merge' else ''} merges to {out['merged'][i]} inside the "
                          f"table but to {v_} on its own", "the key of a tuple is a function of the tuple alone "
                          "(fit-time and predict-time batches differ)", "property"))
                break
        if model is not None and out["merged"] != model["merged"]:
            i = next(i for i, (a, b) in enumerate(zip(out["merged"], model["merged"])) if a != b)
            v.append((f"{PID}/_merge_columns/merged-string/differs-from-model",
                      f"row {i}: implementation {out['merged'][i]} model {model['merged'][i]}",
                      "merged string equals Merge.merge", "correspondence"))
        return v
    if out.get("ids") is not None and model is not None and out["ids"] != model["merged_partition"]:
        v.append((f"{PID}/{kind}/partition/not-tuple-equality",
                  f"rows grouped as {out['ids']} but tuple equality gives {model['tuple_partition']}",
                  "partition of rows = partition by tuple equality", "property"))
    if kind == "moment":
        if out["n_index"] != out["n_index_twin"] or out["gamma"] != out["gamma_twin"] or \
                out.get("event_ids") != out.get("twin_event_ids"):
            v.append((f"{PID}/moment/index-gamma/differs-from-relabelled-twin",
                      "moment over multi-column features differs from the single-column relabelled twin",
                      "index size, gamma multiset and event partition equal those of the twin", "property"))
    if kind == "metricframe" and out["mf_sizes"] != out["moment_sizes"]:
        v.append((f"{PID}/moment-vs-metricframe/group-sizes/differ",
                  f"MetricFrame non-empty groups {out['mf_sizes']} vs moment groups {out['moment_sizes']}",
                  "moment partition = MetricFrame non-empty intersectional groups", "property"))
    if kind == "to":
        if out["n_keys"] != out["n_keys_twin"] or any(abs(a - b) > 1e-12 for a, b in zip(out["pmf"], out["pmf_twin"])):
            v.append((f"{PID}/ThresholdOptimizer/pmf/differs-from-relabelled-twin",
                      "rule applied at predict time is not the rule learned for the same tuple",
                      "_pmf_predict equals that of the single-column relabelled twin on every (tuple, score)",
                      "property"))
    if kind == "to":
        for i, val in out.get("pmf_alone", []):
            if isinstance(val, str) or abs(val - out["pmf"][i]) > 1e-12:
                v.append((f"{PID}/ThresholdOptimizer/pmf/depends-on-the-predict-batch",
                          f"query row {i}: {out['pmf'][i]} inside the full batch, {val} when its tuple is predicted alone",
                          "the rule applied to a row depends on its own tuple only", "property"))
                break
    if kind in ("gs", "eg") and out["n_index"] != 2 * len(set(map(tuple, case["rows"]))):
        v.append((f"{PID}/{kind}/index/size", f"constraint index has {out['n_index']} entries for "
                  f"{len(set(map(tuple, case['rows'])))} distinct tuples", "one +/- pair per distinct tuple",
                  "property"))
    return v


def tags(case, out, model):
    t = [f"kind:{case['kind']}", f"rows:{min(len(case['rows']) // 10 * 10, 100)}+"]
    if case["kind"] not in ("merge", "merge_obj"):
        t.append(f"ncol:{len(case['rows'][0])}")
        t.append(f"groups:{len(set(map(tuple, case['rows'])))}")
    return t


def _special(rows):
    return any(("," in str(v) or "\\" in str(v)) for r in rows for v in r)


def nontrivial(case, out, model):
    rows = case["rows"]
    naive = {}
    for r in rows:
        naive.setdefault(",".join(map(str, r)), set()).add(tuple(map(str, r)))
    return _special(rows) and any(len(s) > 1 for s in naive.values())


def canon(case):
    return {k: v for k, v in case.items() if not k.startswith("_")}


def shrink(case):
    rows = case["rows"]
    if case["kind"] in ("merge", "merge_obj") and len(rows) > 2:
        # a collision needs two particular rows: try every union of two quarters, then single removals
        k = 4 if len(rows) >= 8 else 2
        step = (len(rows) + k - 1) // k
        chunks = [rows[i:i + step] for i in range(0, len(rows), step)]
        if k == 2:
            for part in chunks:
                yield dict(case, rows=part)
        else:
            for i in range(len(chunks)):
                for j in range(i + 1, len(chunks)):
                    yield dict(case, rows=chunks[i] + chunks[j])
        if len(rows) <= 16:
            for i in range(len(rows)):
                yield dict(case, rows=rows[:i] + rows[i + 1:])
