"""Shared by C04 (parity on the training data) and C05 (optimality on the grid) of ThresholdOptimizer.

One case = a table of (group, label, score level) rows + constraint/objective/flip/grid_size; the real
ThresholdOptimizer is fitted with a prefit pass-through scorer (score = first feature) and the Gallina
model FL.ThreshOpt.run_simple / run_eo is evaluated on the same table.
"""
from __future__ import annotations
import itertools
import math
from fractions import Fraction
from harness.core import Rng, gz, glist, gbool, Dec, num_close

VO = ["theories/Base/Num.vo", "theories/Base/Flat.vo", "theories/Post/Tradeoff.vo", "theories/Post/Hull.vo",
      "theories/Post/Interp.vo", "theories/Post/ThreshOpt.vo",
      "theories/Post/Tradeoff_proofs.vo", "theories/Post/Hull_proofs.vo", "theories/Post/Interp_proofs.vo",
      "theories/Post/ThreshOpt_proofs.vo", "theories/Post/ThreshOptSrc.vo", "theories/Post/ThreshOptSrc_proofs.vo"]
REQUIRES = ["From FL Require Import Num Flat Tradeoff Hull Interp ThreshOpt."]
TRANSLATORS = ["t_metricdict", "t_hull", "t_threshopt"]

SIMPLE = {"selection_rate_parity": "SelRate", "demographic_parity": "SelRate",
          "false_positive_rate_parity": "FPR", "false_negative_rate_parity": "FNR",
          "true_positive_rate_parity": "TPR", "true_negative_rate_parity": "TNR"}
OBJ = {"selection_rate": "SelRate", "true_positive_rate": "TPR", "true_negative_rate": "TNR",
       "accuracy_score": "Acc", "balanced_accuracy_score": "BalAcc"}
SIMPLE_OBJ = ["accuracy_score", "balanced_accuracy_score", "selection_rate", "true_positive_rate",
              "true_negative_rate"]
EO_OBJ = ["accuracy_score", "balanced_accuracy_score"]
CONSTRAINTS6 = ["demographic_parity", "false_positive_rate_parity", "false_negative_rate_parity",
                "true_positive_rate_parity", "true_negative_rate_parity", "equalized_odds"]
GRIDS = [1, 2, 3, 4, 5, 7, 10]
SCALES = [(1, 1), (1, 4), (3, 1), (1, 2), (1, 2 ** 36), (1, 2 ** 18), (1, 2 ** 17)]   # 2^-36: neighbouring scores 1.5e-11 apart; 2^-18, 2^-17: a few 1e-6 apart (all exact dyadics)
OFFSETS = [(0, 1), (-1, 1), (-5, 2), (1, 4)]
TOL = 1e-9


def all_configs():
    out = []
    for c in CONSTRAINTS6:
        for o in (EO_OBJ if c == "equalized_odds" else SIMPLE_OBJ):
            for flip in (False, True):
                for gsz in GRIDS:
                    out.append((c, o, flip, gsz))
    return out


# --------------------------------------------------------------------------------------------
# the prefit scorer: predict / decision_function / predict_proba give DIFFERENT exactly representable
# images of the first feature column s, so a rule fitted on the scores of one method and applied at
# predict time to the scores of another one is visible in _pmf_predict on the training rows.
#   predict            -> s
#   decision_function  -> 2*s - 3                      (increasing)
#   predict_proba[:,1] -> "dec": (16 - s)/16 (DEcreasing: the order of the rows is reversed)
#                         "inc": s/16        "fold": |s - 1|/16 (non-monotone: merges levels)
# `has` says which of the three methods the estimator object HAS ("p", "pd", "pf", "pdf"), which decides
# what predict_method="auto" resolves to (_get_soft_predictions: predict_proba, else decision_function,
# else predict).
# --------------------------------------------------------------------------------------------
METHODS = ["predict", "decision_function", "predict_proba", "auto"]
HAS = {"predict": ["p", "pd", "pf", "pdf"], "decision_function": ["pd", "pdf"], "predict_proba": ["pf", "pdf"],
       "auto": ["p", "pd", "pf", "pdf"]}
PROBA = ["dec", "inc", "dec", "inc", "fold"]
_SCORERS = {}


def effective_method(case):
    m = case.get("method", "predict")
    if m != "auto":
        return m
    has = case.get("has", "pdf")
    return "predict_proba" if "f" in has else ("decision_function" if "d" in has else "predict")


def method_image(method, proba, s):
    """exact image (Fraction) of the feature value s under the estimator's method"""
    if method == "predict":
        return s
    if method == "decision_function":
        return 2 * s - 3
    if proba == "dec":
        return (16 - s) / 16
    if proba == "inc":
        return s / 16
    return abs(s - 1) / 16


def scorer(has, proba):
    """the estimator class with exactly the methods in `has` (built lazily: sklearn import)"""
    key = (has, proba)
    if key in _SCORERS:
        return _SCORERS[key]()
    import numpy as np
    from sklearn.base import BaseEstimator, ClassifierMixin

    def col(X):
        return np.asarray(X)[:, 0].astype(float)

    ns = {"__init__": lambda self: None, "fit": lambda self, X, y=None, **kw: self,
          "__sklearn_is_fitted__": lambda self: True, "predict": lambda self, X: col(X)}
    if "d" in has:
        ns["decision_function"] = lambda self, X: 2 * col(X) - 3
    if "f" in has:
        def predict_proba(self, X, proba=proba):
            v = col(X)
            p1 = (16 - v) / 16 if proba == "dec" else (v / 16 if proba == "inc" else np.abs(v - 1) / 16)
            return np.stack([1 - p1, p1], axis=1)
        ns["predict_proba"] = predict_proba
    cls = type(f"Scorer_{has}_{proba}", (BaseEstimator, ClassifierMixin), ns)
    _SCORERS[key] = cls
    return cls()


def scoring(case):
    """(per-row exact scores of the method the configuration names, common denominator D):
    the model gets the integers v*D; a model threshold t (in those units) is the float t/D"""
    sc, off = Fraction(*case["scale"]), Fraction(*case["offset"])
    m, pr = effective_method(case), case.get("proba", "dec")
    vals = [method_image(m, pr, Fraction(r[2]) * sc + off) for r in case["rows"]]
    d = 1
    for v in vals:
        d = d * v.denominator // math.gcd(d, v.denominator)
    return vals, d


def assign_methods(cases_, seed):
    """about a third of the cases use a predict_method other than "predict" (both paths, every stream)"""
    for i, c in enumerate(cases_):
        r = Rng(seed, "C04C05", "method", i)
        m = r.choice(METHODS[1:]) if r.chance(3, 8) else "predict"
        c["method"] = m
        c["has"] = r.choice(HAS[m])
        c["proba"] = r.choice(PROBA)
    return cases_


# --------------------------------------------------------------------------------------------
# case generation
# --------------------------------------------------------------------------------------------
def _canon_table(rows):
    """canonical representative under group swap and order-preserving relabelling of the score levels"""
    lv = sorted({r[2] for r in rows})
    m = {v: i for i, v in enumerate(lv)}
    best = None
    gs = sorted({r[0] for r in rows})
    for perm in itertools.permutations(gs):
        gm = dict(zip(gs, perm))
        t = tuple(sorted((gm[r[0]], r[1], m[r[2]]) for r in rows))
        if best is None or t < best:
            best = t
    return best


def _guard(rows, ngroups):
    for g in range(ngroups):
        labs = {r[1] for r in rows if r[0] == g}
        if labs != {0, 1}:
            return False
    return True


def exhaustive_tables(max_rows, levels=3, ngroups=2):
    types = [(g, l, s) for g in range(ngroups) for l in (0, 1) for s in range(levels)]
    seen = set()
    out = []
    for n in range(2 * ngroups, max_rows + 1):
        for ms in itertools.combinations_with_replacement(types, n):
            if not _guard(ms, ngroups):
                continue
            c = _canon_table(ms)
            if c in seen:
                continue
            seen.add(c)
            out.append([list(r) for r in c])
    return out


def _mk(rows, cfg, scale=(1, 1), offset=(0, 1)):
    c, o, flip, gsz = cfg
    return {"rows": [list(r) for r in rows], "constraint": c, "objective": o, "flip": bool(flip), "grid": int(gsz),
            "scale": list(scale), "offset": list(offset)}


def cases(pid, tier, seed):
    out = []
    cfgs = all_configs()
    tabs = exhaustive_tables(5 if tier == "quick" else 6)
    per = 3 if tier == "quick" else 6
    r0 = Rng(seed, "C04C05", "rot")
    start = r0.randint(0, len(cfgs) - 1)
    stride = 47                      # coprime with len(cfgs) = 378: every config is visited in turn
    k = start
    for ti, t in enumerate(tabs):
        r = Rng(seed, "C04C05", "ex", ti)
        for _ in range(per):
            cfg = cfgs[k % len(cfgs)]
            k += stride
            rows = list(t)
            r.shuffle(rows)
            out.append(_mk(rows, cfg, r.choice(SCALES), r.choice(OFFSETS)))
    n = {"quick": 500, "thorough": 6000}[tier]
    for i in range(n):
        r = Rng(seed, "C04C05", "rnd", i)
        ng = r.randint(2, 5)
        nl = 1 if r.chance(1, 20) else r.randint(2, 5)
        rows = []
        for g in range(ng):
            m = r.randint(2, 8)
            labs = [0, 1] + [r.randint(0, 1) for _ in range(m - 2)]
            mode = r.randint(0, 3)      # 0: uninformative, 1-2: informative, 3: anti-informative (flip matters)
            for l in labs:
                if mode == 0 or r.chance(1, 4):
                    s = r.randint(0, nl - 1)
                else:
                    hi = (l == 1) != (mode == 3)
                    s = r.randint(nl // 2, nl - 1) if hi else r.randint(0, (nl - 1) // 2)
                rows.append([g, l, s])
        r.shuffle(rows)
        c = r.choice(CONSTRAINTS6 + ["selection_rate_parity", "equalized_odds"])
        o = r.choice(EO_OBJ if c == "equalized_odds" else SIMPLE_OBJ + ["accuracy_score", "balanced_accuracy_score"] * 2)
        if r.chance(1, 12):
            gsz = r.choice([100, 1000, r.randint(51, 1000)])
        else:
            gsz = r.choice(GRIDS + [6, 8, 9, 16, 20, 50, r.randint(1, 50)])
        out.append(_mk(rows, (c, o, r.chance(1, 2), gsz), r.choice(SCALES), r.choice(OFFSETS)))
    return assign_methods(out + structured(tier, seed), seed)


# --------------------------------------------------------------------------------------------
# structured streams (on top of the exhaustive small tables and the random tables):
#   anti   : flip=False (mostly equalized odds) with one group whose scores are ANTI-correlated with its labels
#            (strictly separated the wrong way round, or overlapping) -- its ROC hull is the diagonal, so the
#            `roc_result.y == roc_result.x` branch of p_ignore and p_ignore = 1 for the others are exercised
#   ties   : one group with a SINGLE distinct score, the others with heavy ties (many rows on <= 2 levels)
#   unbal  : very unbalanced sizes: a 2-row group (one row per label) next to a large group, and groups with
#            exactly one row of one label against many of the other
#   tinygrid: grid_size 1 and 2 on medium random tables
# --------------------------------------------------------------------------------------------
SIMPLE6 = ["demographic_parity", "selection_rate_parity", "false_positive_rate_parity", "false_negative_rate_parity",
           "true_positive_rate_parity", "true_negative_rate_parity"]


def _cfg(r, eo_num, eo_den, flip, grids):
    c = "equalized_odds" if r.chance(eo_num, eo_den) else r.choice(SIMPLE6)
    o = r.choice(EO_OBJ if c == "equalized_odds" else SIMPLE_OBJ)
    return (c, o, flip, r.choice(grids))


def _informative(r, g, npos, nneg, nl, anti=False):
    rows = []
    for l, cnt in ((1, npos), (0, nneg)):
        for _ in range(cnt):
            hi = (l == 1) != anti
            rows.append([g, l, r.randint(nl // 2, nl - 1) if hi else r.randint(0, (nl - 1) // 2)])
    return rows


def structured(tier, seed):
    out = []
    n = {"quick": 45, "thorough": 250}[tier]
    for i in range(n):
        # ---- (a) anti-correlated group, flip = False ----
        r = Rng(seed, "C04C05", "anti", i)
        ng = r.randint(2, 4)
        anti = r.randint(0, ng - 1)
        rows = []
        for g in range(ng):
            npos, nneg, nl = r.randint(1, 4), r.randint(1, 4), r.randint(2, 6)
            if g == anti and r.chance(1, 2):
                # strictly the wrong way round: every positive row scores below every negative row
                rows += [[g, 1, r.randint(0, nl - 1)] for _ in range(npos)]
                rows += [[g, 0, r.randint(nl, 2 * nl - 1)] for _ in range(nneg)]
            else:
                rows += _informative(r, g, npos, nneg, nl, anti=(g == anti))
        r.shuffle(rows)
        out.append(_mk(rows, _cfg(r, 3, 4, False, [1, 2, 3, 4, 5, 7, 10, 16]), r.choice(SCALES), r.choice(OFFSETS)))
        # ---- (b) single distinct score / heavy ties ----
        r = Rng(seed, "C04C05", "ties", i)
        ng = r.randint(2, 3)
        one = r.randint(0, ng - 1)
        rows = []
        for g in range(ng):
            m = r.randint(2, 9)
            labs = [0, 1] + [r.randint(0, 1) for _ in range(m - 2)]
            if g == one:
                lv = r.randint(0, 3)
                rows += [[g, l, lv] for l in labs]
            else:
                lo = r.randint(0, 2)
                rows += [[g, l, lo + (r.randint(0, 1) if r.chance(1, 4) else (l if r.chance(2, 3) else 1 - l))] for l in labs]
        r.shuffle(rows)
        out.append(_mk(rows, _cfg(r, 1, 3, r.chance(1, 2), [1, 2, 3, 4, 5, 10]), r.choice(SCALES), r.choice(OFFSETS)))
        # ---- (c) very unbalanced sizes ----
        r = Rng(seed, "C04C05", "unbal", i)
        rows = [[0, 0, r.randint(0, 4)], [0, 1, r.randint(0, 4)]]           # one row per label
        big = r.randint(10, 18)
        kind = r.randint(0, 2)
        if kind == 0:
            rows += _informative(r, 1, 1, big, 5)                          # 1 positive against many negatives
        elif kind == 1:
            rows += _informative(r, 1, big, 1, 5, anti=r.chance(1, 3))     # many positives against 1 negative
        else:
            rows += _informative(r, 1, big // 2, big - big // 2, 5)
        if r.chance(1, 3):
            rows += _informative(r, 2, r.randint(1, 3), r.randint(1, 3), 4)
        r.shuffle(rows)
        out.append(_mk(rows, _cfg(r, 1, 3, r.chance(1, 2), [1, 2, 3, 5, 10, 20]), r.choice(SCALES), r.choice(OFFSETS)))
        # ---- (d) grid_size 1 and 2 ----
        r = Rng(seed, "C04C05", "tinygrid", i)
        ng = r.randint(2, 4)
        rows = []
        for g in range(ng):
            rows += _informative(r, g, r.randint(1, 4), r.randint(1, 4), r.randint(2, 5), anti=r.chance(1, 4))
        r.shuffle(rows)
        out.append(_mk(rows, _cfg(r, 1, 3, r.chance(1, 2), [1, 2]), r.choice(SCALES), r.choice(OFFSETS)))
    return out


# --------------------------------------------------------------------------------------------
# implementation side
# --------------------------------------------------------------------------------------------
def _score(case, level):
    return float(Fraction(level) * Fraction(*case["scale"]) + Fraction(*case["offset"]))


def _opd(o):
    t = o.threshold
    return [o.operator, float(t)]


def impl(case):
    import numpy as np, pandas as pd
    from fairlearn.postprocessing import ThresholdOptimizer
    rows = case["rows"]
    g = np.array([r[0] for r in rows])
    y = np.array([r[1] for r in rows])
    s = np.array([_score(case, r[2]) for r in rows], dtype=float)
    X = pd.DataFrame({"s": s, "c": np.arange(len(rows)) % 2})
    if "method" in case:
        est, method = scorer(case["has"], case["proba"]), case["method"]
    else:                                   # corpus files written before the scorer existed
        from harness.learners import PassThrough
        est, method = PassThrough(), "predict"
    import hashlib as _h, json as _j
    hv = int(_h.sha1(_j.dumps({k_: v_ for k_, v_ in case.items() if not str(k_).startswith("_")},
                                sort_keys=True, default=str).encode()).hexdigest(), 16)
    if hv % 4 == 0:
        # the same estimator object first configured with another grid size / flip and fitted, then
        # re-configured through set_params: the fitted rule must describe the last configuration only
        to = ThresholdOptimizer(estimator=est, constraints=case["constraint"], objective=case["objective"],
                                grid_size=(3 if case["grid"] != 3 else 7), flip=not case["flip"], prefit=True,
                                predict_method=method)
        try:
            to.fit(X, y, sensitive_features=g)
        except Exception:
            pass
        to.set_params(grid_size=case["grid"], flip=case["flip"])
    else:
        to = ThresholdOptimizer(estimator=est, constraints=case["constraint"], objective=case["objective"],
                                grid_size=case["grid"], flip=case["flip"], prefit=True, predict_method=method)
    to.fit(X, y, sensitive_features=g)
    d = to.interpolated_thresholder_.interpolation_dict
    rules = {}
    for k, v in d.items():
        rules[str(int(k))] = {"p0": float(v.p0), "op0": _opd(v.operation0), "p1": float(v.p1), "op1": _opd(v.operation1),
                              "p_ignore": float(v.p_ignore) if "p_ignore" in v else None,
                              "const": float(v.prediction_constant) if "prediction_constant" in v else None}
    pm = to._pmf_predict(X, sensitive_features=g)
    return {"x_best": float(to._x_best), "y_best": float(getattr(to, "_y_best", float("nan"))),
            "rules": rules, "pmf": [float(v) for v in pm[:, 1]], "pmf0": [float(v) for v in pm[:, 0]]}


# --------------------------------------------------------------------------------------------
# model side
# --------------------------------------------------------------------------------------------
def _groups(case):
    gs = sorted({r[0] for r in case["rows"]})
    vals, d = scoring(case)
    return gs, [[(int(v * d), r[1]) for v, r in zip(vals, case["rows"]) if r[0] == g] for g in gs]


def term(case, out):
    _, groups = _groups(case)
    gl = glist([glist([f"({gz(s)}, {gbool(l)})" for s, l in grp]) for grp in groups])
    flip = gbool(case["flip"])
    n = f"{int(case['grid'])}%positive"
    if case["constraint"] == "equalized_odds":
        return f"run_eo {flip} {OBJ[case['objective']]} {n} {gl}"
    return f"run_simple {flip} {SIMPLE[case['constraint']]} {OBJ[case['objective']]} {n} {gl}"


def _dthr(d):
    t = d.z()
    if t == 1:
        return math.inf
    if t == 2:
        return -math.inf
    return Fraction(d.z(), 2)


def _dop(d):
    k = ">" if d.z() == 1 else "<"
    return [k, _dthr(d)]


def _drule(d):
    r = {"p0": d.q(), "op0": _dop(d), "p1": d.q(), "op1": _dop(d)}
    ig = d.opt(lambda: (d.q(), d.q()))
    r["p_ignore"], r["const"] = (ig if ig else (None, None))
    return r


def decode(case, zs):
    d = Dec(zs)
    m = {"i_best": d.nat(), "x_best": d.q(), "best_value": d.q(), "count_max": d.nat(), "gap": d.q()}
    ng = d.z()
    groups = []
    for _ in range(ng):
        r = _drule(d)
        g = {"rule": r, "y": d.q(), "exp": d.list(d.q), "upper": d.bool(), "hull_tie": d.bool(), "dup": d.bool(),
             "pmf": d.list(d.q)}
        groups.append(g)
    m["groups"] = groups
    if case["constraint"] == "equalized_odds":
        m["y_best"] = d.q()
    d.done()
    m["tie"] = m["count_max"] > 1 or m["gap"] < Fraction(1, 10 ** 9) or any(g["hull_tie"] for g in groups)
    m["argmax_tie"] = m["count_max"] > 1 or m["gap"] < Fraction(1, 10 ** 9)
    return m


# --------------------------------------------------------------------------------------------
# observables computed from the implementation's own pmf
# --------------------------------------------------------------------------------------------
def _mean(v):
    return math.fsum(v) / len(v)


def group_metrics(case, pmf):
    """per group (sorted key order): dict metric -> expected value under the pmf on the training rows"""
    gs, _ = _groups(case)
    res = []
    for g in gs:
        idx = [i for i, r in enumerate(case["rows"]) if r[0] == g]
        pos = [pmf[i] for i in idx if case["rows"][i][1] == 1]
        neg = [pmf[i] for i in idx if case["rows"][i][1] == 0]
        allp = [pmf[i] for i in idx]
        tpr, fpr = _mean(pos), _mean(neg)
        res.append({"SelRate": _mean(allp), "TPR": tpr, "FPR": fpr, "FNR": 1 - tpr, "TNR": 1 - fpr,
                    "Acc": (math.fsum(pos) + math.fsum(1 - v for v in neg)) / len(idx),
                    "BalAcc": 0.5 * tpr + 0.5 * (1 - fpr), "n": len(idx)})
    return res


def achieved_objective(case, pmf):
    """the objective ThresholdOptimizer maximises, evaluated on the implementation's rule"""
    gm = group_metrics(case, pmf)
    n = len(case["rows"])
    o = OBJ[case["objective"]]
    if case["constraint"] != "equalized_odds":
        return math.fsum(m["n"] / n * m[o] for m in gm)
    pos = [pmf[i] for i, r in enumerate(case["rows"]) if r[1] == 1]
    neg = [pmf[i] for i, r in enumerate(case["rows"]) if r[1] == 0]
    if o == "Acc":
        return (math.fsum(pos) + math.fsum(1 - v for v in neg)) / n
    return 0.5 * _mean(pos) + 0.5 * (1 - _mean(neg))


def constrained_metrics(case):
    return ["FPR", "TPR"] if case["constraint"] == "equalized_odds" else [SIMPLE[case["constraint"]]]


def _thr_float(case, t):
    if isinstance(t, float):
        return t
    return float(t / scoring(case)[1])


def _canon_rule(p0, op0, p1, op1):
    s = {}
    for p, o in ((p0, op0), (p1, op1)):
        if abs(float(p)) > 1e-12:
            k = (o[0], float(o[1]))
            s[k] = s.get(k, 0.0) + float(p)
    return s


def compare_c04(pid, case, out, model):
    v = []
    pm = out["pmf"]
    if any((not (p == p)) or p < -1e-12 or p > 1 + 1e-12 for p in pm) or \
            any(abs(a + b - 1) > 1e-12 for a, b in zip(pm, out["pmf0"])):
        v.append((f"{pid}/_pmf_predict/pmf/out-of-range", f"pmf not a probability: {pm}",
                  "0 <= pmf <= 1 and the two columns sum to 1", "property"))
        return v
    gm = group_metrics(case, pm)
    for m in constrained_metrics(case):
        vals = [g[m] for g in gm]
        if max(vals) - min(vals) > TOL:
            v.append((f"{pid}/fit/{m}/not-equal-across-groups",
                      f"expected {m} of the fitted rule on the training rows differs between groups: {vals}",
                      "spread of the constrained metric over groups <= 1e-9", "property"))
    if model is None:
        return v
    cms = constrained_metrics(case)
    # the model's own rule satisfies the theorem (sanity of harness + build)
    for g in model["groups"]:
        want = [model["x_best"], model["y_best"]] if len(cms) == 2 else [model["x_best"]]
        if g["exp"][:len(want)] != want:
            v.append((f"{pid}/model/parity/theorem-contradicted", f"model rule gives {g['exp']} expected {want}",
                      "model parity (proved)", "correspondence"))
    if not model["argmax_tie"]:
        want = {cms[0]: model["x_best"]}
        if len(cms) == 2:
            want[cms[1]] = model["y_best"]
        for m, w in want.items():
            for gi, g in enumerate(gm):
                if not num_close(g[m], w, TOL, TOL):
                    v.append((f"{pid}/fit/{m}/differs-from-model-grid-value",
                              f"group {gi}: implementation {g[m]} model {float(w)}",
                              "expected constrained metric equals the model's chosen grid value", "correspondence"))
                    break
    if not model["tie"]:
        gs, _ = _groups(case)
        for gi, gk in enumerate(gs):
            ir = out["rules"].get(str(gk))
            mr = model["groups"][gi]["rule"]
            if ir is None:
                v.append((f"{pid}/fit/interpolation_dict/missing-group", f"no rule for group {gk}", "one rule per group",
                          "correspondence"))
                continue
            a = _canon_rule(ir["p0"], ir["op0"], ir["p1"], ir["op1"])
            b = _canon_rule(mr["p0"], [mr["op0"][0], _thr_float(case, mr["op0"][1])],
                            mr["p1"], [mr["op1"][0], _thr_float(case, mr["op1"][1])])
            if set(a) != set(b) or any(abs(a[k] - b[k]) > TOL for k in a):
                v.append((f"{pid}/fit/interpolation_dict/p0-p1-operations-differ",
                          f"group {gk}: implementation {ir} model {mr}",
                          "p0, p1, operators and thresholds equal the model's (tie-free case)", "correspondence"))
            if mr["p_ignore"] is not None:
                if ir["p_ignore"] is None or not num_close(ir["p_ignore"], mr["p_ignore"], TOL, TOL) or \
                        not num_close(ir["const"], mr["const"], TOL, TOL):
                    v.append((f"{pid}/fit/interpolation_dict/p_ignore-differs",
                              f"group {gk}: implementation p_ignore={ir['p_ignore']} const={ir['const']} model "
                              f"{mr['p_ignore']} {mr['const']}", "p_ignore and prediction_constant equal the model's",
                              "correspondence"))
            elif ir["p_ignore"] is not None:
                v.append((f"{pid}/fit/interpolation_dict/p_ignore-differs", f"group {gk}: unexpected p_ignore",
                          "no p_ignore for simple constraints", "correspondence"))
            idx = [i for i, r in enumerate(case["rows"]) if r[0] == gk]
            mp = model["groups"][gi]["pmf"]
            if any(not num_close(pm[i], q, TOL, TOL) for i, q in zip(idx, mp)):
                v.append((f"{pid}/_pmf_predict/pmf/differs-from-model",
                          f"group {gk}: implementation {[pm[i] for i in idx]} model {[float(q) for q in mp]}",
                          "pmf on every training row equals the model's (tie-free case)", "correspondence"))
    return v


def compare_c05(pid, case, out, model):
    v = []
    pm = out["pmf"]
    if any((not (p == p)) for p in pm):
        v.append((f"{pid}/_pmf_predict/pmf/nan", "pmf is NaN", "finite pmf", "property"))
        return v
    if model is None:
        return v
    got = achieved_objective(case, pm)
    best = model["best_value"]
    for gi, g in enumerate(model["groups"]):
        if not g["upper"]:
            v.append((f"{pid}/model/is_upper_hull/false", f"group {gi}: model hull is not an upper hull of its points",
                      "is_upper_hull (hull pts) pts = true (premise of the optimality theorem)", "correspondence"))
    if got < float(best) - TOL:
        v.append((f"{pid}/fit/objective/below-grid-optimum",
                  f"objective of the fitted rule on the training data is {got}, but the parity-satisfying grid rule in "
                  f"model_output (x={float(model['x_best'])}) attains {float(best)}",
                  "achieved objective >= model optimum - 1e-9", "property"))
    elif got > float(best) + TOL:
        # better than every parity-satisfying grid rule: the rule is off the grid / breaks parity, or model defect
        gm = group_metrics(case, pm)
        spread = max(max(g[m] for g in gm) - min(g[m] for g in gm) for m in constrained_metrics(case))
        v.append((f"{pid}/fit/objective/above-grid-optimum",
                  f"objective {got} exceeds the model optimum {float(best)} (parity spread {spread})",
                  "achieved objective <= model optimum + 1e-9", "property" if spread > TOL else "correspondence"))
    return v


def shape_tags(case):
    """input-shape histogram: anti-correlated groups, single-score / heavily tied groups, unbalanced sizes"""
    vals, _ = scoring(case)                  # the scores the optimiser sees (method image of the feature)
    rows = [[r[0], r[1], v] for r, v in zip(case["rows"], vals)]
    eo = case["constraint"] == "equalized_odds"
    anti = strict = single = heavy = one_many = False
    sizes = []
    for g in sorted({r[0] for r in rows}):
        pos = [r[2] for r in rows if r[0] == g and r[1] == 1]
        neg = [r[2] for r in rows if r[0] == g and r[1] == 0]
        sizes.append(len(pos) + len(neg))
        u = sum((p > q) - (p < q) for p in pos for q in neg)       # 2*AUC - 1, unnormalised
        anti = anti or u < 0
        strict = strict or max(pos) < min(neg)
        lv = set(pos + neg)
        single = single or len(lv) == 1
        heavy = heavy or (len(lv) == 2 and sizes[-1] >= 5)
        one_many = one_many or (min(len(pos), len(neg)) == 1 and max(len(pos), len(neg)) >= 5)
    t = []
    if anti:
        t.append("shape:anti-correlated-group")
        if not case["flip"]:
            t.append("shape:anti-correlated-group,flip=False," + ("equalized_odds" if eo else "simple"))
    if strict and not case["flip"] and eo:
        t.append("shape:strictly-anti-correlated-group,flip=False,equalized_odds")
    if single:
        t.append("shape:single-distinct-score-group")
    if heavy:
        t.append("shape:heavy-ties-group(>=5 rows on 2 levels)")
    if max(sizes) >= 5 * min(sizes):
        t.append("shape:group-sizes-ratio>=5")
    if min(sizes) == 2 and max(sizes) >= 10:
        t.append("shape:2-row-group-vs->=10-row-group")
    if one_many:
        t.append("shape:1-vs->=5-rows-per-label")
    if case["grid"] <= 2:
        t.append(f"shape:grid_size={case['grid']}")
    return t


def tags(case, out, model):
    t = [f"constraint:{case['constraint']}", f"objective:{case['objective']}", f"flip:{case['flip']}",
         f"grid:{case['grid'] if case['grid'] <= 10 else ('11-100' if case['grid'] <= 100 else '101-1000')}",
         f"groups:{len({r[0] for r in case['rows']})}"]
    t += shape_tags(case)
    m, eff = case.get("method", "predict"), effective_method(case)
    t.append(f"predict_method:{m}")
    if m != "predict":
        t.append("predict_method:other-than-predict")
        t.append("predict_method:other-than-predict," + ("equalized_odds" if case["constraint"] == "equalized_odds" else "simple"))
    if m == "auto":
        t.append(f"predict_method:auto->{eff}(estimator has {case.get('has', 'pdf')})")
    if eff == "predict_proba":
        t.append(f"predict_proba-image:{case.get('proba', 'dec')}")
    if model is not None:
        t.append("tie" if model["tie"] else "tie-free")
        t.append("interior-x" if 0 < model["i_best"] < case["grid"] else "endpoint-x")
        if case["constraint"] == "equalized_odds":
            if any(g["y"] == model["x_best"] for g in model["groups"]):
                t.append("eo:p_ignore-diagonal-branch(y==x)")
            if any((g["rule"]["p_ignore"] or 0) > 0 for g in model["groups"]):
                t.append("eo:p_ignore>0")
            if any((g["rule"]["p_ignore"] or 0) == 1 for g in model["groups"]):
                t.append("eo:p_ignore=1")
    return t


def nontrivial(case, out, model):
    if model is None:
        return False
    mixed = any(0 < g["rule"]["p0"] < 1 for g in model["groups"])
    ign = any((g["rule"]["p_ignore"] or 0) > 0 for g in model["groups"])
    return mixed or ign or 0 < model["i_best"] < case["grid"]


def canon(case):
    return {k: v for k, v in case.items() if not k.startswith("_")}


def shrink(case):
    rows = case["rows"]
    for i in range(len(rows)):
        rest = rows[:i] + rows[i + 1:]
        gs = sorted({r[0] for r in rest})
        if len(gs) >= 2 and all({r[1] for r in rest if r[0] == g} == {0, 1} for g in gs):
            yield dict(case, rows=rest)
    for g in (1, 2, 3, 4, 5, 7, 10):
        if g < case["grid"]:
            yield dict(case, grid=g)
    if case["scale"] != [1, 1] or case["offset"] != [0, 1]:
        yield dict(case, scale=[1, 1], offset=[0, 1])
    if case.get("method", "predict") != "predict":
        yield dict(case, method="predict", has="p")
