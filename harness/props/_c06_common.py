"""Shared by c06.py / c07.py: dataset generator, Gallina writers, implementation-side helpers."""
from __future__ import annotations
from fractions import Fraction
from harness.core import Rng, gz, gq, glist, gopt, gnat

KINDS = {"DP": "DemographicParity", "TPR": "TruePositiveRateParity", "FPR": "FalsePositiveRateParity",
         "EO": "EqualizedOdds", "ERP": "ErrorRateParity"}
GNAMES = "abcd"
CNAMES = "xyz"


def F(s):
    return None if s is None else Fraction(s)


def fs(q):
    return None if q is None else str(Fraction(q))


# --------------------------------------------------------------------------- generators
def gen_dataset(r: Rng, nmax=14):
    """binary labels, 2..4 groups, control feature absent or 1..3 strata; with probability 1/2 one
    stratum is forced to lack a label class or a group"""
    ng = r.randint(2, 4)
    n = r.randint(max(3, ng), nmax)
    ns = r.choice([0, 0, 1, 2, 2, 3, 3])
    g = [r.randint(0, ng - 1) for _ in range(n)]
    for k in range(ng):          # every group occurs
        g[k % n] = k
    r.shuffle(g)
    y = [r.randint(0, 1) for _ in range(n)]
    c = None
    if ns:
        c = [r.randint(0, ns - 1) for _ in range(n)]
        for k in range(min(ns, n)):
            c[k] = k
        r.shuffle(c)
        if r.chance(1, 2):
            s = r.randint(0, ns - 1)
            if r.chance(1, 2):
                lab = r.randint(0, 1)          # stratum s lacks label class 1-lab
                y = [lab if ci == s else yi for yi, ci in zip(y, c)]
            else:
                gg = r.randint(0, ng - 1)      # stratum s lacks group gg
                oth = (gg + 1) % ng
                g = [oth if (ci == s and gi == gg) else gi for gi, ci in zip(g, c)]
    if r.chance(1, 12):
        y = [r.randint(0, 1)] * n              # a single label class overall
    if r.chance(1, 10):                        # a single-member group
        k = r.randint(0, ng - 1)
        first = True
        for i in range(n):
            if g[i] == k:
                if not first:
                    g[i] = (k + 1) % ng
                first = False
    return {"y": y, "g": g, "c": c}


def gen_bounds(r: Rng):
    """(difference_bound, ratio_bound, ratio_bound_slack) as fraction strings / None"""
    t = r.randint(0, 11)
    if t == 0:
        return None, None, "0"
    if t <= 2:
        return r.choice(["0", "1/100", "1/8", "1/4"]), None, r.choice(["0", "1/8"])
    if t == 11:
        return r.choice([("1/8", "1/2", "0"), (None, "0", "0"), (None, "3/2", "0"), (None, "-1/2", "1/8")])
    return None, r.choice(["1", "9/10", "1/2", "1/4"]), r.choice(["0", "0", "1/8", "1/100"])


def gen_predictors(r: Rng, n, nsoft=3):
    hs = [["0"] * n, ["1"] * n]
    for i in range(n):
        hs.append(["1" if j == i else "0" for j in range(n)])
    for _ in range(nsoft):
        hs.append([fs(Fraction(r.randint(0, 8), 8)) for _ in range(n)])
    return hs


# --------------------------------------------------------------------------- Gallina writers
def g_rows(case):
    c = case["c"]
    return glist(f"(mkRow {gz(y)} {gz(g)} {gopt(None if c is None else c[i], gz)})"
                 for i, (y, g) in enumerate(zip(case["y"], case["g"])))


def g_qs(l):
    return glist([gq(F(x)) for x in l])


def g_hs(hs):
    return glist([g_qs(h) for h in hs])


def g_oq(s):
    return gopt(None if s is None else gq(F(s)))


# --------------------------------------------------------------------------- implementation side
def make_moment(case):
    import fairlearn.reductions as red
    kw = {}
    if case["db"] is not None:
        kw["difference_bound"] = float(F(case["db"]))
    if case["rb"] is not None:
        kw["ratio_bound"] = float(F(case["rb"]))
    if case["rb"] is not None or F(case["slack"]) != 0:
        kw["ratio_bound_slack"] = float(F(case["slack"]))
    return getattr(red, KINDS[case["moment"]])(**kw)


def data_kwargs(case):
    import pandas as pd
    n = len(case["y"])
    X = pd.DataFrame({"id": list(range(n))})
    y = pd.Series(case["y"])
    kw = {"sensitive_features": [GNAMES[g] for g in case["g"]]}
    if case["c"] is not None:
        kw["control_features"] = [CNAMES[c] for c in case["c"]]
    return X, y, kw


def fixed(h):
    import numpy as np
    arr = np.array([float(F(x)) for x in h], dtype=float)
    return lambda X: arr


def canon_index(m):
    """index entries as (sign, rows in the event, rows in the event and the group): no parsing of
    event-name strings"""
    import numpy as np
    ev = m.tags["event"]
    gr = m.tags["group_id"]
    out = []
    for (s, e, g) in m.index:
        sel_e = (ev == e).values
        sel_g = sel_e & (gr == g).values
        out.append([1 if s == "+" else 0, [int(i) for i in np.where(sel_e)[0]],
                    [int(i) for i in np.where(sel_g)[0]]])
    return out


def key(entry):
    return (entry[0], tuple(entry[1]), tuple(entry[2]))


def dec_index(d):
    def one():
        s = d.z()
        a = d.list(d.nat)
        b = d.list(d.nat)
        return [s, a, b]
    return d.list(one)


def shrink_rows(case, extra_lists=()):
    """drop one row (and the matching predictor entries)"""
    n = len(case["y"])
    if n <= 2:
        return
    for i in range(n):
        c = dict(case)
        c["y"] = case["y"][:i] + case["y"][i + 1:]
        c["g"] = case["g"][:i] + case["g"][i + 1:]
        c["c"] = None if case["c"] is None else case["c"][:i] + case["c"][i + 1:]
        c["hs"] = [h[:i] + h[i + 1:] for h in case["hs"]]
        yield c


class Rec:
    """recording estimator handed to _Lagrangian / GridSearch: remembers the (y', w') it is fitted on"""

    def fit(self, X, y, sample_weight=None):
        self.y_ = [float(v) for v in y]
        self.w_ = None if sample_weight is None else [float(v) for v in sample_weight]
        return self

    def predict(self, X):
        import numpy as np
        return np.zeros(len(X))


def recorded(est):
    """('rec', y', w') for the recording estimator, ('dummy', constant) for sklearn's DummyClassifier"""
    if isinstance(est, Rec):
        return {"kind": "rec", "y": est.y_, "w": est.w_}
    return {"kind": "dummy", "constant": float(getattr(est, "constant"))}


# ---------------------------------------------------------------------------------------------
# decoy load: the SAME moment / objective object is first loaded with other data of the same shape
# (labels flipped or reversed, groups rotated), exercised, and only then loaded with the case's data.
# load_data must replace every piece of loaded state, so all observables must be those of a single load.
# ---------------------------------------------------------------------------------------------
def preload_flag(case):
    import hashlib, json
    d = {k: v for k, v in case.items() if not str(k).startswith("_")}
    return int(hashlib.sha1(json.dumps(d, sort_keys=True, default=str).encode()).hexdigest(), 16) % 2 == 0


def decoy_load(m, X, y, kw):
    import numpy as np, pandas as pd
    ya = np.asarray(y)
    y2 = (1 - ya) if set(np.unique(ya).tolist()) <= {0, 1} else ya[::-1].copy()
    kw2 = {}
    for k, v in kw.items():
        lv = list(v)
        kw2[k] = lv[1:] + lv[:1]
    try:
        m.load_data(X, pd.Series(y2), **kw2)
    except Exception:
        return False
    n = len(ya)
    for call in (lambda: m.gamma(lambda X_: np.ones(n)), lambda: m.signed_weights(),
                 lambda: m.signed_weights(pd.Series(1.0, index=m.index)), lambda: m.bound(),
                 lambda: m.project_lambda(pd.Series(1.0, index=m.index))):
        try:
            call()
        except Exception:
            pass
    return True


# ---------------------------------------------------------------------------------------------
# gamma_vs_metricframe: for ratio 1 and hard predictors the '+' entries of gamma are
# MetricFrame(by_group - overall) of the matching rate (per control level), the '-' entries the negation
# ---------------------------------------------------------------------------------------------
def hard_ids(case):
    """positions in case['hs'] of the hard (0/1) predictors"""
    return [i for i, h in enumerate(case["hs"]) if all(x in ("0", "1") for x in h)]


def bridge_enabled(case):
    """the bridge block is requested only when the configured ratio is 1 and the configuration is valid"""
    if case["fam"] != "parity":
        return False
    if case["db"] is not None and case["rb"] is not None:
        return False
    return case["rb"] is None or F(case["rb"]) == 1


def metricframe_gaps(case, m):
    """MetricFrame(metrics=<matching rate>, y_true=y, y_pred=h(X), sensitive_features=g[, control_features=c]):
    for every hard predictor and every entry of m.index: by_group[(control level,) group] - overall[(control level)].
    The control level and (for EqualizedOdds) the label class of an index entry are read off the ROWS of its event
    (tags), never parsed from the event string."""
    import numpy as np, pandas as pd
    from fairlearn.metrics import MetricFrame, selection_rate, true_positive_rate, false_positive_rate
    from sklearn.metrics import zero_one_loss
    table = {"DP": {None: ("sel", selection_rate)},
             "TPR": {1: ("tpr", true_positive_rate)},
             "FPR": {0: ("fpr", false_positive_rate)},
             "EO": {1: ("tpr", true_positive_rate), 0: ("fpr", false_positive_rate)},
             "ERP": {None: ("zol", zero_one_loss)}}[case["moment"]]
    metrics = {nm: fn for nm, fn in table.values()}
    y = np.asarray(case["y"], dtype=int)
    sf = pd.Series([GNAMES[g] for g in case["g"]], name="sf")
    cf = None if case["c"] is None else pd.Series([CNAMES[c] for c in case["c"]], name="cf")
    ev = m.tags["event"]
    entries = []
    for (s, e, g) in m.index:
        rows = np.where((ev == e).values)[0]
        if len(rows) == 0:
            raise RuntimeError(f"index entry {(s, e, g)} has no rows")
        if len(table) == 1:
            nm = list(table.values())[0][0]
        else:
            labs = {int(y[i]) for i in rows}
            if len(labs) != 1:
                raise RuntimeError(f"event {e!r} mixes label classes")
            nm = table[labs.pop()][0]
        lev = None
        if cf is not None:
            levs = {cf.iloc[i] for i in rows}
            if len(levs) != 1:
                raise RuntimeError(f"event {e!r} mixes control levels")
            lev = levs.pop()
        entries.append((nm, lev, g))
    hard = hard_ids(case)
    gaps = []
    for i in hard:
        yp = np.asarray([int(x) for x in case["hs"][i]], dtype=int)
        kw = {} if cf is None else {"control_features": cf}
        mf = MetricFrame(metrics=metrics, y_true=y, y_pred=yp, sensitive_features=sf, **kw)
        bg, ov = mf.by_group, mf.overall
        row = []
        for nm, lev, g in entries:
            if cf is None:
                row.append(float(bg.loc[g, nm]) - float(ov[nm]))
            else:
                row.append(float(bg.loc[(lev, g), nm]) - float(ov.loc[lev, nm]))
        gaps.append(row)
    return {"hard": hard, "gap": gaps}
