"""C18 -- bootstrap intervals are reproducible, ordered and shaped like the estimates."""
from __future__ import annotations
import math
from fractions import Fraction
from harness.core import Rng, gz, gq, gnat, glist, Dec, num_close

PID = "C18"
VO = ["theories/Metrics/Bootstrap.vo", "theories/Metrics/Bootstrap_proofs.vo", "theories/Base/Flat.vo",
      "theories/Metrics/BootstrapSrc.vo", "theories/Metrics/BootstrapSrc_proofs.vo"]
PROPS_FILES = ["props/C18.v"]
TRANSLATORS = ["t_bootstrap"]
REQUIRES = ["From FL Require Import Num ListX Flat Bootstrap."]
SHARD = 12
CHUNK = 2
CASE_TIMEOUT = 300

LEVEL_TEXT = ("Proof (Coq) about an executable model of generate_bootstrap_samples / calculate_pandas_quantiles / "
              "_populate_results_ci: numpy's linear quantile is monotone in q on every non-empty list, equals the "
              "common value on a constant list, q<=1/(2(m-1)) and q'>=1-1/(2(m-1)) bracket the mean with positive "
              "width when two values differ; every *_ci result has one entry per quantile, the aligned (union) index "
              "and one cell per metric; cells are non-decreasing in the quantile (NaN pattern fixed); a resample of n "
              "valid positions has n rows drawn from the data so the overall count is n at every quantile; the "
              "quantiles at 0 and 1 are the minimum and the maximum. Tie to the code (1): translators/t_bootstrap.py "
              "matches every statement of _bootstrap.py and of MetricFrame's bootstrap code against templates and "
              "regenerates the decisions the model depends on (frac=1, replace=True, axis=0, the seed stream, "
              "np.quantile / np.nanquantile with q as given, axis 0, default method, dispatch on sample 0, union fold, "
              "n_boot / ci_quantiles handed on unchanged, the eight caches, their aggregates and accessors); "
              "C18_source_tie states that they are the model's constants and C18_source_semantics that their meaning "
              "is the model populate_ci; for every generator and sampler an integer seed fixes the n_boot resamples, "
              "one seed of the stream per sample. Tie to the code (2): a recording metric callable logs the row ids of every call, the harness rebuilds every resample "
              "from the log and the SAME Gallina definitions (vm_compute) re-derive all eight *_ci results from the "
              "logged resamples; they are compared with MetricFrame's to 1e-9.")
LEVEL_NOTE = ("Trusted: Coq kernel + vm_compute; pandas DataFrame.sample / groupby / reindex / union and numpy "
              "(nan)quantile are modelled (and differentially checked), not verified; the resample positions are an "
              "argument of the model (hypothesis: n positions < n), reproducibility of the seed stream is checked by "
              "running twice; metrics in the correspondence are count / mean / sum / constant / shifted mean of "
              "y_pred (theorems hold for every metric function).")
TECHNIQUE = ("Coq proof on an executable model + fail-closed translator of the source's decisions + differential run "
             "of the model on the logged resamples")
TRUSTED = ["Coq 8.16.1 kernel and vm_compute", "harness/props/c18.py (generators, log reconstruction, comparison)",
           "translators/t_bootstrap.py (template matcher; meaning of the tags: theories/Metrics/BootstrapSrc.v)",
           "pandas sample/groupby/reindex/Index.union, numpy quantile/nanquantile (modelled)",
           "no axioms (Print Assumptions: closed)"]
ASSUMPTIONS = ["a resample is a list of n row positions < n (checked on every logged resample)",
               "metric functions are deterministic functions of the rows they receive",
               "metric cells are finite or NaN for the monotonicity theorem; when a per-resample cell is infinite "
               "(x/0 of a metric taking zero or negative values) numpy's interpolation yields NaN at some quantiles "
               "only: such outputs are modelled (IEEE _lerp) and compared, except that non-finite cells are "
               "compared for shape only (float rounding of the virtual index decides between NaN and inf)"]
RULE = ("cases: MetricFrame(metrics=recording callable | dict of 1..3, y_true=row ids (or ids in a sample param), "
        "1..2 sensitive and 0..2 control features, n in 4..14, n_boot in 1..40, 1..4 ci_quantiles in (0,1) "
        "(unsorted, duplicates, wide pairs), integer random_state), run twice; non-trivial = at least 2 resamples, "
        "a metric that varies over the resamples and (for the alignment path) some group missing from a resample")
EXHAUSTIVE = {"quick": False, "thorough": False}

OUTS = ["overall_ci", "by_group_ci", "group_min_ci", "group_max_ci", "difference_ci", "ratio_ci",
        "difference_ci_to_overall", "ratio_ci_to_overall"]
POINTS = ["overall", "by_group", "group_min", "group_max", "difference", "ratio", "difference_to_overall",
          "ratio_to_overall"]
def _grp(nm):
    """observable used in signatures: overall_ci, by_group_ci, or aggregate_ci (min / max / difference / ratio)"""
    return nm if nm in ("overall_ci", "by_group_ci") else "aggregate_ci"


QPOOL = [0.025, 0.05, 0.1, 0.25, 0.5, 0.75, 0.9, 0.95, 0.975, 0.03125, 0.125, 0.375, 0.625, 0.875, 0.96875,
         0.2, 0.3, 0.7, 0.8, 0.01, 0.99]
LETTERS = "abcd"


# --------------------------------------------------------------------------------------------
# cases
# --------------------------------------------------------------------------------------------
def _feature(r, n, card):
    """codes 0..card-1, every code used at least once, skewed so that some group is rare"""
    col = [r.choice([0] * 3 + list(range(card))) for _ in range(n)]
    pos = list(range(n)); r.shuffle(pos)
    for c in range(card):
        col[pos[c]] = c
    return col


def cases(tier, seed):
    out = []
    nmf = {"quick": 150, "thorough": 1500}[tier]
    for i in range(nmf):
        r = Rng(seed, PID, "mf", i)
        n = r.randint(4, 14)
        nsf = r.choice([1, 1, 2])
        ncf = r.choice([0, 0, 0, 1, 1, 2]) if n >= 6 else r.choice([0, 0, 1])
        cols = [_feature(r, n, r.choice([2, 2, 3])) for _ in range(ncf + nsf)]
        den = r.choice([1, 1, 2, 4])
        style = r.choice(["binary", "small", "small", "wide"])
        pred = [r.randint(0, {"binary": 1, "small": 3, "wide": 12}[style]) for _ in range(n)]
        if r.chance(1, 12):
            pred = [pred[0]] * n            # data on which the metric does not vary
        mode = r.choice(["callable", "dict", "dict"])
        k = 1 if mode == "callable" else r.randint(1, 3)
        codes = []
        for _ in range(k):
            code = r.choice([0, 1, 1, 1, 2, 3, 4])
            c = Fraction(r.randint(0, 8), 4) if code in (3, 4) else Fraction(0)
            codes.append([code, [c.numerator, c.denominator]])
        nb = r.choice([1, 2, 2, 3, 3, 4, 5, 6, 8, 10, 13, 17, 21, 30, 40])
        nq = r.randint(1, 4)
        qs = [r.choice(QPOOL) for _ in range(nq)]
        if nb >= 2 and r.chance(1, 2):     # wide pair: brackets the resampling mean
            lo = 1.0 / (2 * (nb - 1))
            lo = min(lo, 0.5) * r.choice([1.0, 0.5, 0.75])
            qs = ([lo, 1.0 - lo] + qs)[:4]
            if lo <= 0.0 or lo >= 1.0 or 1.0 - lo >= 1.0:
                qs = [0.25, 0.75]
            r.shuffle(qs)
        out.append({"kind": "mf", "n": n, "nsf": nsf, "ncf": ncf, "cols": cols, "pred": pred, "den": den,
                    "mode": mode, "codes": codes, "n_boot": nb, "qs": qs, "seed": 0 if i % 7 == 3 else r.randint(0, 2 ** 31 - 1),
                    "labels": [r.choice(["int", "str"]) for _ in range(ncf + nsf)],
                    "container": r.choice(["ndarray", "DataFrame", "DataFrame", "Series", "list", "dict"]),
                    "ids_in": r.choice(["y_true", "y_true", "sample_param"])})
    return out


# --------------------------------------------------------------------------------------------
# implementation side
# --------------------------------------------------------------------------------------------
def _lab(kind, code):
    return int(code) * 2 + 1 if kind == "int" else LETTERS[code]


def _unlab(kind, v):
    return (int(v) - 1) // 2 if kind == "int" else LETTERS.index(str(v))


def _features(case, which):
    import numpy as np, pandas as pd
    ncf, nsf = case["ncf"], case["nsf"]
    rng = range(0, ncf) if which == "cf" else range(ncf, ncf + nsf)
    idx = list(rng)
    if not idx:
        return None
    kinds = case["labels"]
    cont = case["container"]
    if cont in ("ndarray",):
        kinds = [kinds[idx[0]]] * len(kinds)      # one dtype for the whole array
    cols = {f"{which}{j}": [_lab(kinds[j], c) for c in case["cols"][j]] for j in idx}
    if cont == "ndarray":
        a = np.array(list(cols.values())).T
        return (a[:, 0] if len(idx) == 1 else a), [kinds[j] for j in idx]
    if cont == "dict":
        return {k: np.array(v) for k, v in cols.items()}, [kinds[j] for j in idx]
    if cont in ("Series", "list") and len(idx) == 1:
        v = list(cols.values())[0]
        return (pd.Series(v, name=f"{which}_s") if cont == "Series" else v), [kinds[j] for j in idx]
    return pd.DataFrame(cols), [kinds[j] for j in idx]


def _metric_py(code, c):
    import numpy as np
    c = float(c)
    if code == 0:
        return lambda p: len(p)
    if code == 1:
        return lambda p: float(np.sum(p) / len(p))
    if code == 2:
        return lambda p: float(np.sum(p))
    if code == 3:
        return lambda p: c
    return lambda p: float(np.sum(p) / len(p) - c)


def _norm(obj, names, kinds_for_levels):
    """pandas object / scalar -> {"type", "columns", "index_names", "keys", "values"} (values[row][metric])"""
    import numpy as np, pandas as pd

    def keys_of(index):
        ks = []
        for t in index:
            t = t if isinstance(t, tuple) else (t,)
            ks.append([_unlab(kinds_for_levels[j], v) for j, v in enumerate(t)])
        return ks

    if isinstance(obj, pd.DataFrame):
        cols = [str(c) for c in obj.columns]
        vals = [[float(obj.iloc[i][obj.columns[cols.index(nm)]]) for nm in names] for i in range(len(obj))] \
            if sorted(cols) == sorted(names) else None
        return {"type": "DataFrame", "columns": cols, "index_names": [str(x) for x in obj.index.names],
                "keys": keys_of(obj.index), "values": vals}
    if isinstance(obj, pd.Series):
        if list(map(str, obj.index)) == list(names) or (obj.index.names == [None] and
                                                        sorted(map(str, obj.index)) == sorted(names)):
            # a Series indexed by the metric names
            d = {str(k): float(v) for k, v in obj.items()}
            return {"type": "Series[metrics]", "columns": [str(k) for k in obj.index], "index_names": [],
                    "keys": None, "values": [[d[nm] for nm in names]]}
        return {"type": "Series", "columns": [str(obj.name)], "index_names": [str(x) for x in obj.index.names],
                "keys": keys_of(obj.index), "values": [[float(v)] for v in obj.values]}
    if np.isscalar(obj):
        return {"type": "scalar", "columns": [], "index_names": [], "keys": None, "values": [[float(obj)]]}
    return {"type": type(obj).__name__, "columns": [], "index_names": [], "keys": None, "values": None}


def _run_once(case):
    import numpy as np
    from fairlearn.metrics import MetricFrame
    n = case["n"]
    ids = np.arange(n)
    pred = np.array(case["pred"], dtype=float) / case["den"]
    logs = []
    fns = {}
    use_sp = case["ids_in"] == "sample_param"
    for j, (code, c) in enumerate(case["codes"]):
        log = []
        f = _metric_py(code, Fraction(c[0], c[1]))

        def make(log=log, f=f):
            if use_sp:
                def rec(y_true, y_pred, rid):
                    log.append([int(v) for v in rid])
                    return f(np.asarray(y_pred, dtype=float))
            else:
                def rec(y_true, y_pred):
                    log.append([int(v) for v in y_true])
                    return f(np.asarray(y_pred, dtype=float))
            return rec
        fn = make()
        fn.__name__ = f"m{j}"
        fns[f"m{j}"] = fn
        logs.append(log)
    names = list(fns)
    sf, sf_kinds = _features(case, "sf")
    cfr = _features(case, "cf")
    cf, cf_kinds = cfr if cfr is not None else (None, [])
    y_true = np.zeros(n, dtype=int) if use_sp else ids
    if case["mode"] == "callable":
        metrics = fns["m0"]
        sp = {"rid": ids} if use_sp else None
    else:
        metrics = fns
        sp = {nm: {"rid": ids} for nm in names} if use_sp else None
    mf = MetricFrame(metrics=metrics, y_true=y_true, y_pred=pred, sensitive_features=sf, control_features=cf,
                     sample_params=sp, n_boot=case["n_boot"], ci_quantiles=list(case["qs"]),
                     random_state=case["seed"])
    lv_all = cf_kinds + sf_kinds
    lv_cf = cf_kinds
    res = {}
    getters = {
        "overall_ci": lambda: mf.overall_ci, "by_group_ci": lambda: mf.by_group_ci,
        "group_min_ci": lambda: mf.group_min_ci(), "group_max_ci": lambda: mf.group_max_ci(),
        "difference_ci": lambda: mf.difference_ci(), "ratio_ci": lambda: mf.ratio_ci(),
        "difference_ci_to_overall": lambda: mf.difference_ci(method="to_overall"),
        "ratio_ci_to_overall": lambda: mf.ratio_ci(method="to_overall"),
        "overall": lambda: mf.overall, "by_group": lambda: mf.by_group,
        "group_min": lambda: mf.group_min(), "group_max": lambda: mf.group_max(),
        "difference": lambda: mf.difference(), "ratio": lambda: mf.ratio(),
        "difference_to_overall": lambda: mf.difference(method="to_overall"),
        "ratio_to_overall": lambda: mf.ratio(method="to_overall"),
    }
    for nm, g in getters.items():
        v = g()
        lv = lv_all if nm.startswith("by_group") else lv_cf
        if nm in OUTS:
            res[nm] = {"is_list": isinstance(v, list), "entries": [_norm(x, names, lv) for x in v]}
        else:
            res[nm] = _norm(v, names, lv)
    return res, logs


def _blocks(log, n):
    """split the call log into consecutive blocks whose sizes add up to n; None if that is impossible"""
    blocks, cur, tot = [], [], 0
    for call in log:
        cur.append(call); tot += len(call)
        if tot == n:
            blocks.append(cur); cur, tot = [], 0
        elif tot > n:
            return None
    return blocks if not cur else None


def impl(case):
    r1, logs1 = _run_once(case)
    r2, logs2 = _run_once(case)
    n, nb = case["n"], case["n_boot"]
    out = {"res": r1, "same_logs": logs1 == logs2, "same_results": _same(r1, r2), "resamples": None,
           "log_problem": None, "calls": [len(x) for x in logs1[0]][:60]}
    per_metric = []
    for log in logs1:
        b = _blocks(log, n)
        if b is None:
            out["log_problem"] = "the logged calls cannot be split into blocks of n rows"
            return out
        if len(b) != 2 * (1 + nb):
            out["log_problem"] = f"{len(b)} blocks of n rows logged, expected 2*(1+n_boot) = {2 * (1 + nb)}"
            return out
        flat = [[i for call in blk for i in call] for blk in b]
        if any(not all(0 <= i < n for i in f) for f in flat):
            out["log_problem"] = "a logged row id is not a row of the data"
            return out
        if sorted(flat[0]) != list(range(n)) or sorted(flat[1]) != list(range(n)):
            out["log_problem"] = "the point estimate was not computed on the n data rows"
            return out
        for t in range(nb):
            if sorted(flat[2 + 2 * t]) != sorted(flat[3 + 2 * t]):
                out["log_problem"] = "overall and by_group of one resample saw different rows"
                return out
        per_metric.append([flat[2 + 2 * t] for t in range(nb)])
    for pm in per_metric[1:]:
        if [sorted(x) for x in pm] != [sorted(x) for x in per_metric[0]]:
            out["log_problem"] = "two metrics of the same frame saw different resamples"
            return out
    out["resamples"] = per_metric[0]
    return out


def _same(a, b):
    if isinstance(a, float) and isinstance(b, float):
        return a == b or (math.isnan(a) and math.isnan(b))
    if isinstance(a, dict) and isinstance(b, dict):
        return a.keys() == b.keys() and all(_same(a[k], b[k]) for k in a)
    if isinstance(a, list) and isinstance(b, list):
        return len(a) == len(b) and all(_same(x, y) for x, y in zip(a, b))
    return a == b


# --------------------------------------------------------------------------------------------
# model side
# --------------------------------------------------------------------------------------------
def term(case, out):
    if out is None or out.get("resamples") is None:
        return None
    ncf = case["ncf"]
    rows = []
    for i in range(case["n"]):
        ks = [case["cols"][j][i] for j in range(ncf + case["nsf"])]
        rows.append(f"({glist(ks[:ncf], gz)}, {glist(ks[ncf:], gz)}, {gq(Fraction(case['pred'][i], case['den']))})")
    codes = glist([f"({gz(c)}, {gq(Fraction(q[0], q[1]))})" for c, q in case["codes"]])
    qs = glist([gq(Fraction(q)) for q in case["qs"]])
    idxs = glist([glist(rs, gnat) for rs in out["resamples"]])
    return f"run_ci {codes} {gnat(ncf)} {gnat(case['nsf'])} {qs} {glist(rows)} {idxs}"


def _dec_series(d):
    return d.list(d.ext)


def _dec_frame(d):
    return d.list(lambda: (d.list(d.z), _dec_series(d)))


def _dec_result(d):
    t = d.z()
    if t == 0:
        return {"keys": None, "values": [_dec_series(d)]}
    f = _dec_frame(d)
    return {"keys": [k for k, _ in f], "values": [v for _, v in f]}


def decode(case, zs):
    d = Dec(zs)
    m = {"valid": d.bool()}
    for nm in OUTS:
        m[nm] = d.list(lambda: _dec_result(d))
    m["overall"] = _dec_result(d)
    f = _dec_frame(d)
    m["by_group"] = {"keys": [k for k, _ in f], "values": [v for _, v in f]}
    m["no_inf"] = dict(zip(OUTS, d.list(d.bool)))
    d.done()
    return m


# --------------------------------------------------------------------------------------------
# comparison
# --------------------------------------------------------------------------------------------
def _close(a, b):
    return num_close(a, b, atol=1e-9, rtol=1e-9)


def _le(a, b):
    """a <= b cell-wise with NaN only against NaN"""
    if math.isnan(a) or math.isnan(b):
        return math.isnan(a) and math.isnan(b)
    return a <= b + 1e-9 * max(1.0, abs(a), abs(b))


def _py_metric_exact(code, c, ps):
    if code == 0:
        return Fraction(len(ps))
    if code == 1:
        return sum(ps) / len(ps)
    if code == 2:
        return sum(ps, Fraction(0))
    if code == 3:
        return c
    return sum(ps) / len(ps) - c


def compare(case, out, model):
    v = []
    n, nb, qs = case["n"], case["n_boot"], case["qs"]
    ncols = len(case["codes"])

    def P(sig, what, oracle):
        v.append((f"{PID}/MetricFrame/{sig}", what, oracle, "property"))

    if out["log_problem"]:
        P("resample/not-n-rows-of-the-data", out["log_problem"],
          "every resample consists of exactly n rows drawn from the n data rows")
        return v
    rs = out["resamples"]
    if not out["same_logs"]:
        P("resample/not-reproducible", "two runs with the same integer random_state drew different resamples",
          "same seed -> same resamples")
    if not out["same_results"]:
        P("ci/not-reproducible", "two runs with the same integer random_state returned different *_ci",
          "same seed -> identical *_ci")
    if nb >= 5 and n >= 8:
        if all(sorted(x) == sorted(rs[0]) for x in rs):
            P("resample/all-equal", f"all {nb} resamples consist of the same rows", "the resamples differ")
        if all(len(set(x)) == len(x) for x in rs):
            P("resample/without-replacement", f"none of the {nb} resamples of {n} rows repeats a row",
              "rows are drawn with replacement")
    # every data row can be drawn: with B resamples of n rows a given row is missing from all of them with
    # probability (1 - 1/n)^(n*B); demanded only when that is below 1e-12 (about n_boot >= 28), so that a
    # false alarm is out of the question while a row that can never be drawn is reported
    import math
    if n >= 2 and n * nb * math.log(1 - 1.0 / n) < math.log(1e-12):
        seen = set(i for x in rs for i in x)
        missing = [i for i in range(n) if i not in seen]
        if missing:
            P("resample/row-never-drawn", f"data row(s) {missing} occur in none of the {nb} resamples of {n} rows",
              "every resample draws from ALL n data rows")
    res = out["res"]
    # ---- shape: one entry per quantile, type / columns / index names of the point estimate -------
    for nm, pnm in zip(OUTS, POINTS):
        e = res[nm]
        pt = res[pnm]
        if not e["is_list"] or len(e["entries"]) != len(qs):
            P(f"{_grp(nm)}/shape/entries", f"{nm} has {len(e['entries'])} entries for {len(qs)} quantiles",
              "one entry per requested quantile")
            continue
        for t, x in enumerate(e["entries"]):
            if x["type"] != pt["type"] or x["columns"] != pt["columns"] or x["index_names"] != pt["index_names"]:
                if x["type"] == pt["type"] and sorted(x["columns"]) == sorted(pt["columns"]) and \
                        x["index_names"] == pt["index_names"]:
                    continue            # column order is not part of the property
                P(f"{_grp(nm)}/shape/type-columns", f"{nm}[{t}] is {x['type']} columns {x['columns']} index names "
                  f"{x['index_names']}; the point estimate is {pt['type']} {pt['columns']} {pt['index_names']}",
                  "same type, columns and index names as the point estimate")
                break
            if x["values"] is None:
                P(f"{_grp(nm)}/shape/type-columns", f"{nm}[{t}] cannot be read as numbers per metric",
                  "same type and columns as the point estimate")
                break
            if x["keys"] is not None:
                pk = [tuple(k) for k in pt["keys"]]
                xk = [tuple(k) for k in x["keys"]]
                if any(k not in pk for k in xk) or len(set(xk)) != len(xk):
                    P(f"{_grp(nm)}/shape/index", f"{nm}[{t}] index {xk} is not part of the point estimate's {pk}",
                      "index = the point estimate's index restricted to groups seen in a resample")
                    break
                if nm == "by_group_ci":
                    seen = set()
                    for rsm in rs:
                        for i in rsm:
                            seen.add(tuple(case["cols"][j][i] for j in range(case["ncf"] + case["nsf"])))
                    if not seen <= set(xk):
                        P(f"{_grp(nm)}/shape/index", f"{nm}[{t}] lacks groups {sorted(seen - set(xk))} that occur in a "
                          f"resample", "every group that occurs in at least one resample is in the index")
                        break
    if v:
        return v
    # ---- monotone in the quantile --------------------------------------------------------------
    order = sorted(range(len(qs)), key=lambda t: qs[t])
    for nm in OUTS:
        ent = res[nm]["entries"]
        bad = None
        # infinite per-resample cells (x/0 of a metric that takes zero or negative values) make numpy's
        # interpolation return NaN at some quantiles only: outside the hypothesis of the theorem
        if (model is not None and not model["no_inf"][nm]) or \
                (model is None and any(code == 4 for code, _ in case["codes"])):
            continue
        for a, b in zip(order, order[1:]):
            xa, xb = ent[a], ent[b]
            if xa["keys"] != xb["keys"]:
                bad = f"entries {a} and {b} have different indices"
                break
            for ra, rb in zip(xa["values"], xb["values"]):
                for ca, cb in zip(ra, rb):
                    if not _le(ca, cb):
                        bad = f"quantile {qs[a]} gives {ca} > {cb} at quantile {qs[b]}"
            if qs[a] == qs[b] and not _same(xa["values"], xb["values"]):
                bad = f"equal quantiles {qs[a]} give different entries"
            if bad:
                break
        if bad:
            P(f"{_grp(nm)}/order/not-monotone", f"{nm}: {bad}", "entries are element-wise non-decreasing in the quantile")
    # ---- count is n at every quantile; constant metrics -------------------------------------------
    nall = case["ncf"] + case["nsf"]
    seen_full = {tuple(case["cols"][j][i] for j in range(nall)) for rsm in rs for i in rsm}
    seen_cf = {k[:case["ncf"]] for k in seen_full}
    for j, (code, c) in enumerate(case["codes"]):
        cq = Fraction(c[0], c[1])
        if code == 0 and case["ncf"] == 0:
            for t, x in enumerate(res["overall_ci"]["entries"]):
                if not _close(x["values"][0][j], n):
                    P("overall_ci/count/not-n", f"overall count at quantile {qs[t]} is {x['values'][0][j]}, n = {n}",
                      "every resample has n rows: the overall count is n at every quantile")
                    break
        const = cq if code == 3 else None
        if code in (1, 2, 4) and len(set(case["pred"])) == 1 and code != 2:
            const = _py_metric_exact(code, cq, [Fraction(case["pred"][0], case["den"])])
        if const is not None:
            expect = {"overall_ci": const, "by_group_ci": const, "group_min_ci": const, "group_max_ci": const,
                      "difference_ci": Fraction(0), "difference_ci_to_overall": Fraction(0)}
            if const != 0:
                expect["ratio_ci"] = Fraction(1); expect["ratio_ci_to_overall"] = Fraction(1)
            for nm, ex in expect.items():
                pt = res[POINTS[OUTS.index(nm)]]
                for t, x in enumerate(res[nm]["entries"]):
                    cells = [row[j] for row in x["values"]]
                    # NaN is legitimate only at an index entry that no resample shows (levels that exist
                    # only through the product of per-column values)
                    if x["keys"] is None:
                        must = [True] * len(cells)
                    elif nm == "by_group_ci":
                        must = [tuple(k) in seen_full for k in x["keys"]]
                    else:
                        must = [tuple(k) in seen_cf for k in x["keys"]]
                    if any(not (math.isnan(cl) or _close(cl, ex)) for cl in cells) or \
                            any(mu and math.isnan(cl) for mu, cl in zip(must, cells)):
                        P(f"{_grp(nm)}/constant-metric/quantile-differs", f"{nm}[{t}] column {j} = {cells} for a metric "
                          f"that is {const} on every sample (expected {ex})",
                          "a metric that is constant over the rows has all quantiles equal to the point estimate")
                        break
    # ---- a wide quantile pair brackets the resampling mean (overall, no control features) ---------
    if case["ncf"] == 0 and nb >= 2:
        lim = Fraction(1, 2 * (nb - 1))
        lows = [t for t in range(len(qs)) if Fraction(qs[t]) <= lim]
        highs = [t for t in range(len(qs)) if Fraction(qs[t]) >= 1 - lim]
        for j, (code, c) in enumerate(case["codes"]):
            cq = Fraction(c[0], c[1])
            vals = [_py_metric_exact(code, cq, [Fraction(case["pred"][i], case["den"]) for i in rsm]) for rsm in rs]
            mean = sum(vals) / len(vals)
            for a in lows:
                for b in highs:
                    lo = res["overall_ci"]["entries"][a]["values"][0][j]
                    hi = res["overall_ci"]["entries"][b]["values"][0][j]
                    tol = 1e-9 * max(1.0, abs(float(mean)))
                    if not (lo <= float(mean) + tol and float(mean) <= hi + tol):
                        P("overall_ci/bracket/mean-outside", f"quantiles {qs[a]},{qs[b]} give [{lo},{hi}] but the "
                          f"mean of the {nb} resampled values is {float(mean)}",
                          "q<=1/(2(B-1)), q'>=1-1/(2(B-1)) enclose the resampling mean")
                    elif len(set(vals)) > 1 and qs[a] < qs[b] and not hi > lo:
                        P("overall_ci/bracket/zero-width", f"quantiles {qs[a]},{qs[b]} give [{lo},{hi}] although the "
                          f"resampled values differ", "positive width when the resampled values differ")
    # ---- model: every *_ci re-derived from the logged resamples -------------------------------------
    if model is None:
        return v
    kindm = "correspondence"
    if not model["valid"]:
        v.append((f"{PID}/model/resample/invalid", "the model rejects a logged resample", "n positions < n", kindm))
    for nm in OUTS:
        me = model[nm]
        ie = res[nm]["entries"]
        if len(me) != len(ie):
            v.append((f"{PID}/MetricFrame/{_grp(nm)}/differs-from-model", f"{nm}: {len(ie)} entries, model {len(me)}",
                      f"{nm} = quantiles of the aligned per-resample results (model)", kindm))
            continue
        for t, (x, m) in enumerate(zip(ie, me)):
            why = None
            if (x["keys"] is None) != (m["keys"] is None):
                why = f"kind differs: implementation keys {x['keys']} model keys {m['keys']}"
            elif x["keys"] is not None and [list(k) for k in x["keys"]] != [list(k) for k in m["keys"]]:
                why = f"index {x['keys']} model {m['keys']}"
            elif len(x["values"]) != len(m["values"]):
                why = "row count differs"
            else:
                # with an infinite per-resample cell numpy's _lerp jumps between NaN and +-inf at gamma = 1/2
                    # (a + (b-a)*t below, b - (b-a)*(1-t) from 1/2 on): a float-rounding artefact of the virtual
                    # index decides, so non-finite cells of such outputs are compared for shape only
                lax = not model["no_inf"][nm]
                for ri, (ra, rb) in enumerate(zip(x["values"], m["values"])):
                    if len(ra) != len(rb) or any(
                            not _close(a, b) and not (lax and not (math.isfinite(float(a)) and math.isfinite(float(b))))
                            for a, b in zip(ra, rb)):
                        why = f"row {ri} (key {x['keys'][ri] if x['keys'] else None}): {ra} model " \
                              f"{[float(b) for b in rb]}"
                        break
            if why:
                v.append((f"{PID}/MetricFrame/{_grp(nm)}/differs-from-model", f"{nm}[{t}] (q={qs[t]}): {why}",
                          f"{nm} = quantiles of the aligned per-resample results (model)", kindm))
                break
    # point estimate against the same create model (sanity of the per-resample model)
    for nm in ("overall", "by_group"):
        x, m = res[nm], model[nm]
        okk = (x["keys"] is None and m["keys"] is None) or \
              (x["keys"] is not None and m["keys"] is not None and
               [list(k) for k in x["keys"]] == [list(k) for k in m["keys"]])
        okv = okk and len(x["values"]) == len(m["values"]) and all(
            len(ra) == len(rb) and all(_close(a, b) for a, b in zip(ra, rb))
            for ra, rb in zip(x["values"], m["values"]))
        if not okv:
            v.append((f"{PID}/MetricFrame/{nm}/differs-from-model", f"{nm}: {x['keys']} {x['values']} model "
                      f"{m['keys']} {[[float(b) for b in r] for r in m['values']]}",
                      "point estimate = create on the data (model)", kindm))
    return v


def _missing_group(case, out):
    if not out or not out.get("resamples"):
        return False
    allg = {tuple(case["cols"][j][i] for j in range(case["ncf"] + case["nsf"])) for i in range(case["n"])}
    return any({tuple(case["cols"][j][i] for j in range(case["ncf"] + case["nsf"])) for i in rsm} != allg
               for rsm in out["resamples"])


def tags(case, out, model):
    t = [f"layout:{case['nsf']}s{case['ncf']}c", f"mode:{case['mode']}", f"nq:{len(case['qs'])}",
         f"nboot:{'1' if case['n_boot'] == 1 else '2-5' if case['n_boot'] <= 5 else '6-20' if case['n_boot'] <= 20 else '21-40'}",
         f"n:{'4-7' if case['n'] <= 7 else '8-14'}", f"ids:{case['ids_in']}"]
    for code, _ in case["codes"]:
        t.append(f"metric:{['count', 'mean', 'sum', 'const', 'shift'][code]}")
    if _missing_group(case, out):
        t.append("some-group-missing-in-a-resample")
    if out and out.get("res"):
        cells = [c for e in out["res"]["ratio_ci"]["entries"] for r in (e["values"] or []) for c in r]
        if any(math.isinf(c) for c in cells):
            t.append("infinite-ratio-cell")
        cells = [c for e in out["res"]["by_group_ci"]["entries"] for r in (e["values"] or []) for c in r]
        if any(math.isnan(c) for c in cells):
            t.append("nan-cell-in-by_group_ci")
    return t


def nontrivial(case, out, model):
    if not out or not out.get("resamples") or case["n_boot"] < 2:
        return False
    varies = len(set(case["pred"])) > 1 and any(code in (1, 2, 4) for code, _ in case["codes"])
    return varies and _missing_group(case, out)


def canon(case):
    return {k: v for k, v in case.items() if not k.startswith("_")}


def shrink(case):
    if case["n_boot"] > 1:
        yield dict(case, n_boot=case["n_boot"] // 2)
        yield dict(case, n_boot=case["n_boot"] - 1)
    if len(case["qs"]) > 1:
        for i in range(len(case["qs"])):
            yield dict(case, qs=case["qs"][:i] + case["qs"][i + 1:])
    if case["mode"] == "dict" and len(case["codes"]) > 1:
        for i in range(len(case["codes"])):
            yield dict(case, codes=case["codes"][:i] + case["codes"][i + 1:])
    if case["n"] > 4:
        for i in (0, case["n"] // 2, case["n"] - 1):
            yield dict(case, n=case["n"] - 1, pred=case["pred"][:i] + case["pred"][i + 1:],
                       cols=[col[:i] + col[i + 1:] for col in case["cols"]])
