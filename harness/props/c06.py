"""C06 -- constraint moments measure exactly the documented parity violations."""
from __future__ import annotations
from fractions import Fraction
from harness.core import Rng, gz, gq, glist, gopt, Dec, num_close
from harness.props import _c06_common as K
from harness.props._c06_common import F, fs

PID = "C06"
VO = ["theories/Reductions/Moments.vo", "theories/Reductions/Moments_proofs.vo",
      "theories/Reductions/Reduction.vo", "theories/Reductions/MomentsIO.vo", "theories/Base/Flat.vo",
      "theories/Reductions/MomentBridge.vo", "theories/Reductions/MomentBridge_proofs.vo",
      "theories/Reductions/MomentBridgeIO.vo"]
PROPS_FILES = ["props/C06.v"]
TRANSLATORS = ["t_moments"]
REQUIRES = ["From FL Require Import Num Flat Moments Reduction MomentsIO MomentBridge MomentBridgeIO."]
SHARD = 40
CHUNK = 4
CASE_TIMEOUT = 900       # wall-clock alarm per case; a case needs < 1 s, the margin absorbs a heavily shared machine

LEVEL_TEXT = ("Proof (Coq) about the executable model Moments.v of UtilityParity.load_data/gamma/bound, the event "
              "construction of the five parity moments (merged with the control stratum), ErrorRate.gamma and "
              "BoundedGroupLoss.gamma: the index is duplicate-free and holds exactly one '+' and one '-' entry per "
              "(event, group) pair that occurs; for every ratio r, every dataset and every soft predictor the '+' "
              "entry equals r*mean_{e,g}(u) - mean_e(u) and the '-' entry r*mean_e(u) - mean_{e,g}(u); rows outside "
              "the conditioned label class are inert; entries of a control stratum depend only on that stratum; "
              "bound() is constant eps; BoundedGroupLoss.gamma is the per-group mean clipped loss within "
              "[0, loss.max]; ErrorRate.gamma is the cost-weighted error; for ratio 1 and a hard classifier the '+' entry "
              "at (event, g) equals by_group[g] - overall of the matching rate of C03's MetricFrame model "
              "(selection rate / TPR / FPR / both / zero-one loss), the '-' entry its negation, per control "
              "stratum when control features are given (gamma_vs_metricframe); MeanLoss is the single overall "
              "mean loss; ErrorRate accepts exactly non-negative, not-both-zero {fp, fn} costs. "
              "Tie to the code: translator t_moments "
              "(U-column, gamma and pred expressions, fail closed) + differential run of the same Gallina "
              "definitions against the real moments on generated datasets.")
LEVEL_NOTE = ("Trusted: Coq kernel + vm_compute; translator t_moments; pandas groupby / DataFrame.dot and float64 "
              "arithmetic are modelled over exact rationals (compared at 1e-9); event strings are never parsed: "
              "index entries are compared as (sign, rows of the event, rows of the event and the group). "
              "gamma_vs_metricframe is proved against Fairness.metric_frame (C03 model, unit weights, one "
              "sensitive column); MetricFrame's control_features are modelled as one frame per stratum; the real "
              "MetricFrame is run on every ratio-1 case and compared with both gamma() and the model.")
TECHNIQUE = "Coq proof on an executable model + source translator + differential model/implementation run"
TRUSTED = ["Coq 8.16.1 kernel and vm_compute", "translators/t_moments.py", "harness/props/c06.py, _c06_common.py "
           "(generators, canonical index, comparison)", "pandas groupby/concat/dot (modelled)",
           "no axioms (Print Assumptions: closed)"]
ASSUMPTIONS = ["labels are 0/1 (enforce_binary_labels) for the classification moments",
               "float64 results are compared with exact rationals at atol=rtol=1e-9 on small / dyadic inputs",
               "the order of index entries is not part of the property (values are compared per canonical key)"]
RULE = ("cases: datasets n<=14, 2..4 groups, control feature absent or 1..3 strata (half of them with a stratum "
        "lacking a label class or a group), five parity moments x {default, difference_bound, ratio_bound in "
        "{1, 9/10, 1/2, 1/4} with slack}, invalid bound combinations, ErrorRate with cost pairs, BoundedGroupLoss "
        "with square / absolute loss; observables index, gamma(zero, one, every unit predictor, 3 dyadic soft "
        "predictors), bound(); for ratio 1: MetricFrame(by_group - overall) of the matching rate for every hard "
        "predictor vs gamma() and vs the Coq bridge value; BoundedGroupLoss cases also load MeanLoss; ErrorRate "
        "cases include rejected cost dicts; non-trivial = the index is non-empty and some event has >= 2 groups")
EXHAUSTIVE = {"quick": False, "thorough": False}

NCASES = {"quick": 250, "thorough": 3000}


def cases(tier, seed):
    out = []
    n = NCASES[tier]
    for i in range(n):
        r = Rng(seed, PID, tier, i)
        t = i % 10
        if t == 8:
            d = K.gen_dataset(r)
            costs = r.choice([None, ("1", "1"), ("2", "1"), ("1/2", "3"), ("0", "1"), ("1", "0"), ("1/4", "1/8")])
            hs = K.gen_predictors(r, len(d["y"]))
            hs.append([fs(Fraction(r.randint(-4, 12), 8)) for _ in d["y"]])      # outside [0,1] too
            keys = "ok"
            j = i // 10
            if j % 3 == 2:                       # constructor validation, in rotation: cost dicts on the boundary
                costs, keys = [(("0", "0"), "ok"), (("-1", "1"), "ok"), (("1", "-1/2"), "ok"),
                               (("-1/4", "-1/4"), "ok"), (("1", "1"), "missing"), (("1", "2"), "extra"),
                               (("0", "1/1024"), "ok"), (("0", "0"), "extra")][(j // 3) % 8]
            out.append({"fam": "er", "fp": None if costs is None else costs[0],
                        "fn": None if costs is None else costs[1], "keys": keys, **d, "hs": hs})
        elif t == 9:
            ng = r.randint(1, 4)
            m = r.randint(max(ng, 2), 12)       # n = 1 breaks _validate_and_reformat_input (squeeze -> 0-d)
            g = [r.randint(0, ng - 1) for _ in range(m)]
            lo, hi = r.choice([("0", "1"), ("-1/2", "3/2"), ("1/4", "3/4"), ("0", "2"), ("1", "1")])
            yq = [fs(Fraction(r.randint(-4, 8), 4)) for _ in range(m)]
            hs = [["0"] * m, ["1"] * m] + [[fs(Fraction(r.randint(-8, 16), 8)) for _ in range(m)] for _ in range(4)]
            out.append({"fam": "bgl", "loss": r.choice(["sq", "abs"]), "lo": lo, "hi": hi,
                        "ub": r.choice([None, "1/4", "1"]), "yq": yq, "g": g, "hs": hs, "lams": []})
        else:
            d = K.gen_dataset(r)
            db, rb, slack = K.gen_bounds(r)
            out.append({"fam": "parity", "moment": list(K.KINDS)[(i // 10 + t) % 5], "db": db, "rb": rb,
                        "slack": slack, **d, "hs": K.gen_predictors(r, len(d["y"]))})
    return out


# --------------------------------------------------------------------------- implementation
def impl(case):
    import numpy as np, pandas as pd
    fam = case["fam"]
    if fam == "parity":
        try:
            m = K.make_moment(case)
        except ValueError:
            return {"config_error": True}
        X, y, kw = K.data_kwargs(case)
        if K.preload_flag(case):
            K.decoy_load(m, X, y, kw)
        m.load_data(X, y, **kw)
        res = {"config_error": False, "eps": float(m.eps), "ratio": float(m.ratio), "index": K.canon_index(m),
               "gamma": [], "aligned": True}
        idx = list(m.index)
        for h in case["hs"]:
            gm = m.gamma(K.fixed(h))
            if list(gm.index) != idx:
                res["aligned"] = False
            res["gamma"].append([float(v) for v in gm.values])
        b = m.bound()
        res["bound"] = [float(v) for v in b.values]
        if list(b.index) != idx:
            res["aligned"] = False
        if K.bridge_enabled(case):
            # gamma_vs_metricframe: the real MetricFrame on the same data, for every hard predictor
            try:
                res["mf"] = K.metricframe_gaps(case, m)
            except Exception as e:  # noqa
                res["mf"] = {"error": repr(e)[:300]}
        return res
    if fam == "er":
        import fairlearn.reductions as red
        if case["fp"] is None:
            m = red.ErrorRate()
        else:
            costs = {"fp": float(F(case["fp"])), "fn": float(F(case["fn"]))}
            if case.get("keys", "ok") == "missing":
                del costs["fn"]
            elif case.get("keys", "ok") == "extra":
                costs["tp"] = 1.0
            try:
                m = red.ErrorRate(costs=costs)
            except ValueError:
                return {"config_error": True}
        X, y, kw = K.data_kwargs(case)
        if K.preload_flag(case):
            K.decoy_load(m, X, y, kw)
        m.load_data(X, y, **kw)
        res = {"config_error": False, "fp": float(m.fp_cost), "fn": float(m.fn_cost), "gamma": [],
               "n_index": len(m.index)}
        for h in case["hs"]:
            gm = m.gamma(K.fixed(h))
            res["gamma"].append([float(v) for v in gm.values])
        res["sw"] = [float(v) for v in m.signed_weights().values]
        return res
    if fam == "bgl":
        return impl_bgl(case)
    raise ValueError(fam)


def impl_bgl(case):
    import numpy as np, pandas as pd
    import fairlearn.reductions as red
    L = red.SquareLoss if case["loss"] == "sq" else red.AbsoluteLoss
    loss = L(float(F(case["lo"])), float(F(case["hi"])))
    m = red.BoundedGroupLoss(loss, upper_bound=None if case["ub"] is None else float(F(case["ub"])))
    n = len(case["g"])
    X = pd.DataFrame({"id": list(range(n))})
    y = pd.Series([float(F(v)) for v in case["yq"]])
    if K.preload_flag(case):
        K.decoy_load(m, X, y, {"sensitive_features": [K.GNAMES[g] for g in case["g"]]})
    m.load_data(X, y, sensitive_features=[K.GNAMES[g] for g in case["g"]])
    res = {"index": [K.GNAMES.index(g) for g in m.index], "gamma": [], "loss_max": float(loss.max)}
    for h in case["hs"]:
        gm = m.gamma(K.fixed(h))
        res["gamma"].append({str(K.GNAMES.index(g)): float(v) for g, v in gm.items()})
    try:
        b = m.bound()
        res["bound"] = {str(K.GNAMES.index(g)): float(v) for g, v in b.items()}
    except ValueError:
        res["bound"] = None
    # MeanLoss = the same moment with no_groups=True (a fresh loss object; decoy preload as above)
    from fairlearn.reductions._moments.bounded_group_loss import MeanLoss          # not re-exported
    ml = MeanLoss(L(float(F(case["lo"])), float(F(case["hi"]))))
    if K.preload_flag(case):
        K.decoy_load(ml, X, y, {"sensitive_features": [K.GNAMES[g] for g in case["g"]]})
    ml.load_data(X, y, sensitive_features=[K.GNAMES[g] for g in case["g"]])
    res["ml_index"] = [str(v) for v in ml.index]
    res["ml_gamma"] = []
    res["ml_aligned"] = True
    for h in case["hs"]:
        gm = ml.gamma(K.fixed(h))
        if list(gm.index) != list(ml.index):
            res["ml_aligned"] = False
        res["ml_gamma"].append([float(v) for v in gm.values])
    try:
        ml.bound()
        res["ml_bound_raises"] = False
    except ValueError:
        res["ml_bound_raises"] = True
    res["sw"] = []
    res["resid"] = 0.0
    for lam in case.get("lams", []):
        lv = pd.Series([float(F(v)) for v in lam][:len(m.index)], index=m.index)
        w = m.signed_weights(lv)
        res["sw"].append([float(v) for v in w.values])
        for h in case["hs"]:
            gm = m.gamma(K.fixed(h))
            lossv = m.tags["loss"].values
            resid = float(gm.dot(lv) - np.sum(w.values * lossv) / n)
            if abs(resid) > abs(res["resid"]):
                res["resid"] = resid
    return res


# --------------------------------------------------------------------------- model
def g_loss(case):
    return f"({'Square' if case['loss'] == 'sq' else 'Absolute'} {gq(F(case['lo']))} {gq(F(case['hi']))})"


def g_lrows(case):
    return glist(f"({gq(F(y))}, {gz(g)})" for y, g in zip(case["yq"], case["g"]))


def term(case, out):
    fam = case["fam"]
    if fam == "parity":
        hb = [case["hs"][i] for i in K.hard_ids(case)] if K.bridge_enabled(case) else []
        return (f"run_parity_bridge {case['moment']} {K.g_oq(case['db'])} {K.g_oq(case['rb'])} "
                f"{gq(F(case['slack']))} {K.g_rows(case)} {K.g_hs(case['hs'])} {K.g_hs(hb)}")
    if fam == "er":
        fp = F(case["fp"]) if case["fp"] is not None else 1
        fn = F(case["fn"]) if case["fn"] is not None else 1
        if case["fp"] is None:
            costs = "None"
        else:
            costs = f"(Some ({'true' if case.get('keys', 'ok') == 'ok' else 'false'}, {gq(fp)}, {gq(fn)}))"
        return f"run_er_config {costs} ++ run_er {gq(fp)} {gq(fn)} {K.g_rows(case)} {K.g_hs(case['hs'])}"
    if fam == "bgl":
        ng = len(set(case["g"]))
        lams = [l[:ng] for l in case.get("lams", [])]
        return (f"run_bgl {g_loss(case)} {K.g_oq(case['ub'])} {g_lrows(case)} {K.g_hs(case['hs'])} "
                f"{K.g_hs(lams)} ++ run_mean_loss {g_loss(case)} {g_lrows(case)} {K.g_hs(case['hs'])}")
    raise ValueError(fam)


def decode(case, zs):
    d = Dec(zs)
    fam = case["fam"]
    if fam == "parity":
        def bridge():
            return d.list(lambda: d.list(lambda: d.opt(d.ext)))
        if d.z() == 0:
            bridge()
            d.done()
            return {"config_error": True}
        eps = d.q(); ratio = d.q()
        index = K.dec_index(d)
        gamma = d.list(lambda: d.list(d.q))
        bound = d.list(d.q)
        br = bridge()
        d.done()
        return {"config_error": False, "eps": eps, "ratio": ratio, "index": index, "gamma": gamma, "bound": bound,
                "bridge": br}
    if fam == "er":
        cfg = d.opt(lambda: [d.q(), d.q()])
        gamma = d.list(d.q)
        sw = d.list(d.q)
        d.done()
        return {"config": cfg, "gamma": gamma, "sw": sw}
    if fam == "bgl":
        index = d.list(d.z)
        gamma = d.list(lambda: d.list(d.q))
        bound = d.opt(lambda: d.list(d.q))
        lmax = d.q()
        sw = d.list(lambda: d.list(d.q))
        ml_index = d.list(d.z)
        ml_gamma = d.list(lambda: d.list(d.q))
        ml_max = d.q()
        d.done()
        return {"index": index, "gamma": gamma, "bound": bound, "loss_max": lmax, "sw": sw,
                "ml_index": ml_index, "ml_gamma": ml_gamma, "ml_max": ml_max}
    raise ValueError(fam)


# --------------------------------------------------------------------------- comparison
def compare_index(pid, name, out_index, model_index, v):
    """returns (impl key -> position, model key -> position) or None when the index differs"""
    ik = [K.key(e) for e in out_index]
    mk = [K.key(e) for e in model_index]
    if len(set(ik)) != len(ik):
        v.append((f"{pid}/{name}/index/duplicate-entry", f"index has duplicate constraints: {out_index}",
                  "one '+' and one '-' entry per (event, group) pair that occurs", "property"))
        return None
    if set(ik) != set(mk):
        extra = sorted(set(ik) - set(mk))
        miss = sorted(set(mk) - set(ik))
        what = "extra" if extra else "missing"
        v.append((f"{pid}/{name}/index/{what}-entries",
                  f"index differs from the (event, group) pairs that occur: extra {extra[:3]} missing {miss[:3]}",
                  "index = {+,-} x {(event, group) pairs that occur}; rows outside the conditioned label class "
                  "have no event", "property"))
        return None
    return {k: i for i, k in enumerate(ik)}, {k: i for i, k in enumerate(mk)}


def compare_bridge(case, name, out, model, ip, mp):
    """gamma_vs_metricframe on the implementation's own numbers (property kind) and the real MetricFrame against the
    Coq bridge value (correspondence kind)"""
    v = []
    if not K.bridge_enabled(case) or "mf" not in out:
        return v
    mf = out["mf"]
    if "error" in mf:
        v.append((f"{PID}/{name}/metricframe/raises", f"MetricFrame raised on the moment's data: {mf['error']}",
                  "MetricFrame(metrics=<matching rate>, y_true, y_pred=h(X), sensitive_features[, control_features]) "
                  "is defined on every dataset the moment accepts", "correspondence"))
        return v
    signs = {k: k[0] for k in ip}
    for t, hi in enumerate(mf["hard"]):
        gi = out["gamma"][hi]
        gap = mf["gap"][t]
        for k in ip:
            want = gap[ip[k]] if signs[k] == 1 else -gap[ip[k]]
            if not num_close(gi[ip[k]], want):
                v.append((f"{PID}/{name}/gamma/differs-from-metricframe",
                          f"hard predictor #{hi}, entry {k}: gamma = {gi[ip[k]]} but MetricFrame by_group - overall = "
                          f"{gap[ip[k]]} ('-' entries are compared with the negation)",
                          "for ratio 1 the '+' entries of gamma coincide with MetricFrame(by_group - overall) of the "
                          "matching rate (per control level), the '-' entries with its negation", "property"))
                return v
    br = model.get("bridge") or []
    if len(br) != len(mf["hard"]):
        v.append((f"{PID}/{name}/metricframe/differs-from-model", f"{len(br)} model bridge rows for "
                  f"{len(mf['hard'])} hard predictors", "one bridge row per hard predictor", "correspondence"))
        return v
    for t, hi in enumerate(mf["hard"]):
        for k in ip:
            mv = br[t][mp[k]]
            if mv is None or not num_close(mf["gap"][t][ip[k]], mv):
                v.append((f"{PID}/{name}/metricframe/differs-from-model",
                          f"hard predictor #{hi}, entry {k}: MetricFrame by_group - overall = {mf['gap'][t][ip[k]]}, "
                          f"Coq metric_frame model (mf_gap on the control stratum) = {mv}",
                          "the MetricFrame model of the bridge theorem computes what MetricFrame computes",
                          "correspondence"))
                return v
    return v


def compare(case, out, model):
    fam = case["fam"]
    v = []
    if fam == "parity":
        name = K.KINDS[case["moment"]]
        if out["config_error"] != model["config_error"]:
            v.append((f"{PID}/{name}/config/validation", f"constructor raised={out['config_error']} but the model "
                      f"says invalid={model['config_error']} for db={case['db']} rb={case['rb']}",
                      "exactly one of difference_bound / ratio_bound, ratio in (0,1]", "property"))
            return v
        if out["config_error"]:
            return v
        if not num_close(out["eps"], model["eps"]) or not num_close(out["ratio"], model["ratio"]):
            v.append((f"{PID}/{name}/config/eps-ratio", f"(eps, ratio) = ({out['eps']}, {out['ratio']}) expected "
                      f"({model['eps']}, {model['ratio']})", "eps / ratio as configured", "property"))
        if not out["aligned"]:
            v.append((f"{PID}/{name}/gamma/index-misaligned", "gamma() or bound() is not indexed by .index",
                      "gamma and bound are indexed by index", "property"))
            return v
        pos = compare_index(PID, name, out["index"], model["index"], v)
        if pos is None:
            return v
        ip, mp = pos
        for t, (gi, gm) in enumerate(zip(out["gamma"], model["gamma"])):
            bad = [k for k in ip if not num_close(gi[ip[k]], gm[mp[k]])]
            if bad or len(gi) != len(gm):
                k = bad[0] if bad else None
                ratio_cls = "ratio" if model["ratio"] != 1 else "difference"
                v.append((f"{PID}/{name}/gamma/{ratio_cls}-value",
                          f"predictor #{t}: entry {k}: implementation {gi[ip[k]] if k else gi} "
                          f"model {gm[mp[k]] if k else gm}",
                          "'+' entry = r*mean_{e,g}(u) - mean_e(u), '-' entry = r*mean_e(u) - mean_{e,g}(u)",
                          "property"))
                break
        if len(out["bound"]) != len(model["bound"]) or \
                any(not num_close(a, b) for a, b in zip(out["bound"], model["bound"])):
            v.append((f"{PID}/{name}/bound/value", f"bound() = {out['bound'][:4]} expected constant {model['eps']}",
                      "bound() is the configured slack on every entry", "property"))
        v.extend(compare_bridge(case, name, out, model, ip, mp))
        return v
    if fam == "er":
        rejected = model["config"] is None
        if out["config_error"] != rejected:
            v.append((f"{PID}/ErrorRate/config/validation",
                      f"ErrorRate(costs: fp={case['fp']} fn={case['fn']} keys={case.get('keys', 'ok')}) raised="
                      f"{out['config_error']} but the model says rejected={rejected}",
                      "costs must be a dict with exactly the keys fp, fn, both >= 0, not both 0", "property"))
            return v
        if rejected:
            return v
        if not num_close(out["fp"], model["config"][0]) or not num_close(out["fn"], model["config"][1]):
            v.append((f"{PID}/ErrorRate/config/costs", f"(fp_cost, fn_cost) = ({out['fp']}, {out['fn']}) expected "
                      f"{model['config']}", "costs as configured (1, 1 by default)", "property"))
        if out["n_index"] != 1:
            v.append((f"{PID}/ErrorRate/index/size", f"index has {out['n_index']} entries", "single entry", "property"))
        for t, (gi, gm) in enumerate(zip(out["gamma"], model["gamma"])):
            if len(gi) != 1 or not num_close(gi[0], gm):
                v.append((f"{PID}/ErrorRate/gamma/value", f"predictor #{t}: implementation {gi} model {gm}",
                          "c_fp*P[h=1,y=0] + c_fn*P[h=0,y=1] (linear extension for soft h)", "property"))
                break
        return v
    if fam == "bgl":
        if out["index"] != model["index"]:
            v.append((f"{PID}/BoundedGroupLoss/index/groups", f"index {out['index']} expected {model['index']}",
                      "one entry per group that occurs", "property"))
            return v
        for t, (gi, gm) in enumerate(zip(out["gamma"], model["gamma"])):
            if any(not num_close(gi[str(g)], q) for g, q in zip(model["index"], gm)):
                v.append((f"{PID}/BoundedGroupLoss/gamma/value", f"predictor #{t}: implementation {gi} model {gm}",
                          "per-group mean of the clipped loss", "property"))
                break
        if (out["bound"] is None) != (model["bound"] is None) or (out["bound"] is not None and any(
                not num_close(out["bound"][str(g)], q) for g, q in zip(model["index"], model["bound"]))):
            v.append((f"{PID}/BoundedGroupLoss/bound/value", f"bound() = {out['bound']} model {model['bound']}",
                      "bound() is upper_bound on every entry (ValueError without one)", "property"))
        if not num_close(out["loss_max"], model["loss_max"]):
            v.append((f"{PID}/BoundedGroupLoss/loss/max", f"loss.max {out['loss_max']} model {model['loss_max']}",
                      "loss.max bounds the clipped loss", "property"))
        if len(out["ml_index"]) != 1 or len(model["ml_index"]) != 1 or not out["ml_aligned"]:
            v.append((f"{PID}/MeanLoss/index/size", f"MeanLoss index {out['ml_index']} (model {model['ml_index']}), "
                      f"gamma aligned={out['ml_aligned']}", "MeanLoss has the single constraint 'all'", "property"))
            return v
        for t, (gi, gm) in enumerate(zip(out["ml_gamma"], model["ml_gamma"])):
            if len(gi) != 1 or len(gm) != 1 or not num_close(gi[0], gm[0]):
                v.append((f"{PID}/MeanLoss/gamma/value", f"predictor #{t}: implementation {gi} model {gm}",
                          "MeanLoss.gamma is the mean clipped loss over all rows", "property"))
                break
        if not out["ml_bound_raises"]:
            v.append((f"{PID}/MeanLoss/bound/value", "MeanLoss.bound() did not raise", "MeanLoss has no upper bound "
                      "(bound() raises ValueError)", "property"))
        return v
    return v


def tags(case, out, model):
    fam = case["fam"]
    t = [f"fam:{fam}"]
    if fam == "parity":
        t.append(f"moment:{case['moment']}")
        t.append("strata:" + ("none" if case["c"] is None else str(len(set(case["c"])))))
        t.append(f"groups:{len(set(case['g']))}")
        t.append("bound:" + ("invalid" if out.get("config_error") else "default" if case["db"] is None and
                             case["rb"] is None else "difference" if case["rb"] is None else f"ratio={case['rb']}"))
        if not out.get("config_error"):
            t.append(f"index:{len(out['index'])}")
            nev = len({e for e in case["c"]}) if case["c"] is not None else 1
        if K.bridge_enabled(case) and isinstance(out.get("mf"), dict) and "hard" in out["mf"]:
            t.append("bridge:metricframe")
    elif fam == "bgl":
        t.append(f"loss:{case['loss']}")
    elif fam == "er":
        t.append("costs:" + ("rejected" if out.get("config_error") else "default" if case["fp"] is None else "given"))
    return t


def nontrivial(case, out, model):
    if case["fam"] == "parity":
        if out.get("config_error") or not out["index"]:
            return False
        ev = {}
        for s, a, b in out["index"]:
            ev.setdefault(tuple(a), set()).add(tuple(b))
        return any(len(x) >= 2 for x in ev.values())
    if case["fam"] == "bgl":
        return len(set(case["g"])) >= 2
    return len(set(case["y"])) == 2 and not out.get("config_error")


def canon(case):
    return {k: v for k, v in case.items() if not k.startswith("_")}


def shrink(case):
    if case["fam"] in ("parity", "er"):
        if len(case["hs"]) > 1:
            for i in range(len(case["hs"])):
                yield dict(case, hs=[case["hs"][i]])
        yield from K.shrink_rows(case)
    elif case["fam"] == "bgl":
        n = len(case["g"])
        if len(case["hs"]) > 1:
            for i in range(len(case["hs"])):
                yield dict(case, hs=[case["hs"][i]])
        for i in range(n if n > 1 else 0):
            yield dict(case, g=case["g"][:i] + case["g"][i + 1:], yq=case["yq"][:i] + case["yq"][i + 1:],
                       hs=[h[:i] + h[i + 1:] for h in case["hs"]])
