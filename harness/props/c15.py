"""C15 -- CorrelationRemover output is uncorrelated with every sensitive column."""
from __future__ import annotations
from fractions import Fraction
from harness.core import Rng, gz, gq, glist, Dec

PID = "C15"
VO = ["theories/Misc/CorrRemover.vo", "theories/Misc/CorrRemover_proofs.vo", "theories/Misc/CorrExpr.vo",
      "theories/Misc/CorrRemover_gj.vo", "theories/Base/Flat.vo"]
PROPS_FILES = ["props/C15.v"]
TRANSLATORS = ["t_corr"]
REQUIRES = ["From FL Require Import Num Flat CorrRemover."]
SHARD = 20
CHUNK = 4
CASE_TIMEOUT = 120

LEVEL_TEXT = ("Proof (Coq): for every matrix (any number of rows >= 1 and of columns, collinear and constant "
              "sensitive columns included) each column of X_use - project is orthogonal to each per-column-centred "
              "sensitive column (Gram-Schmidt projection over Q, zero vectors skipped); hence for alpha = 1 every "
              "output column of fit_transform has zero sample covariance with every sensitive column; the output "
              "is alpha*residual + (1-alpha)*original; alpha = 0 returns the non-sensitive columns unchanged in "
              "their original order; any coefficients solving the normal equations give the same projection. "
              "The Gauss-Jordan elimination behind beta_ is proved correct (a pivot in every column => the "
              "coefficients solve the normal equations, and the centred columns are linearly independent), so "
              "transform(fit(X))(X) == fit_transform(X) entrywise under the full-rank guard only; transform on ANY "
              "data is, cell by cell, alpha*(u - (srow - training mean).beta[:,j]) + (1-alpha)*u: it depends on the "
              "training data only through (sensitive_mean_, beta_), output row i only on input row i, affinely. "
              "Tie to the code: (a) translator t_corr regenerates the expressions stored by fit() and returned by "
              "transform() as trees whose value is proved to be the model's fit_split / transform_split "
              "(per-COLUMN mean, lstsq(centred, X_use, rcond=None)[0], residual, alpha blend); (b) differential "
              "run of the same Gallina functions (fit_transform, fit, transform) "
              "against CorrelationRemover on integer matrices (ndarray / DataFrame, ids by position / by label, "
              "any order, rank-deficient blocks), plus the covariance / blend / affinity oracles on the "
              "implementation alone.")
LEVEL_NOTE = ("Trusted: Coq kernel + vm_compute; numpy lstsq (its result is compared with the exact rational "
              "projection, tolerance 1e-8); the generator and comparison code of this module; the reading of numpy "
              "broadcasting / .dot / lstsq given by CorrExpr.eval and translators/t_corr.py. The earlier "
              "C15_transform_is_fit_transform_partial (premise: computed beta solves the normal equations) is kept; "
              "C15_transform_is_fit_transform is the full statement. Rank-deficient sensitive blocks: lstsq returns "
              "the minimum-norm solution, the model has no beta (guard false); only the projection is compared.")
TECHNIQUE = ("Coq proof (Gram-Schmidt orthogonality, Gauss-Jordan correctness, affine form of transform) + "
             "fail-closed source translator for the fit/transform expressions + differential model/implementation run")
TRUSTED = ["Coq 8.16.1 kernel and vm_compute", "harness/props/c15.py (generators, comparison, tolerances)",
           "translators/t_corr.py + CorrExpr.eval (meaning of numpy broadcasting, .dot, lstsq(...)[0], atleast_2d)",
           "numpy.linalg.lstsq / sklearn validate_data (compared, not verified)",
           "no axioms (Print Assumptions: closed)"]
ASSUMPTIONS = ["entries are exact rationals (the float implementation is compared at tolerance 1e-8 on small integers)",
               "column labels are distinct (pandas / sklearn reject duplicate labels)",
               "every column has the same number n >= 1 of rows (n >= 2 for the sample covariance)",
               "rank-deficient sensitive block: only the projection (fit_transform on the training data) is unique; "
               "transform on new rows is compared in the full-column-rank cases only"]
RULE = ("cases: integer matrices, n in 2..7 rows, 1..4 sensitive and 1..3 other columns, one third with a constant / "
        "duplicated / affinely dependent sensitive column or a repeated id, alpha in {0,1/4,1/2,1}, ndarray, DataFrame "
        "with string labels, DataFrame with integer labels that are not positions; ids in random order; a few "
        "missing-id error cases; fit_transform always, transform on 1..3 fresh rows; non-trivial = alpha > 0 and the "
        "projection changes some non-sensitive column")
EXHAUSTIVE = {"quick": False, "thorough": False}
PARTIAL = ["C15_transform_is_fit_transform_partial"]

ALPHAS = ["0", "1/4", "1/2", "1"]
TOL = 1e-8


# ------------------------------------------------------------------ exact helpers (generator only)
def _rank(cols):
    """rank of the matrix whose columns are `cols` (Fractions)"""
    rows = [list(r) for r in zip(*cols)] if cols else []
    rk = 0
    ncol = len(cols)
    for j in range(ncol):
        p = next((i for i in range(rk, len(rows)) if rows[i][j] != 0), None)
        if p is None:
            continue
        rows[rk], rows[p] = rows[p], rows[rk]
        pv = rows[rk][j]
        rows[rk] = [v / pv for v in rows[rk]]
        for i in range(len(rows)):
            if i != rk and rows[i][j] != 0:
                f = rows[i][j]
                rows[i] = [a - f * b for a, b in zip(rows[i], rows[rk])]
        rk += 1
    return rk


def _centred(col):
    m = Fraction(sum(col), len(col))
    return [Fraction(v) - m for v in col]


def _mk(r, i, tier):
    n = r.randint(2, 7)
    k = r.randint(1, 4)
    if n <= k and r.chance(2, 3):        # centred columns have rank <= n - 1: keep most blocks full rank
        n = r.randint(k + 1, 7)
    p = r.randint(1, 3)
    m = k + p
    colsv = [[r.randint(-4, 6) for _ in range(n)] for _ in range(m)]
    pos = list(range(m))
    r.shuffle(pos)
    sens = pos[:k]                       # positions of the sensitive columns, in id order (any order)
    if r.chance(1, 2):
        sens = sorted(sens, reverse=True)   # non-increasing order
    degen = "none"
    if i % 3 == 0:
        degen = r.choice(["constant", "duplicate", "affine", "repeated-id", "shifted-copy"])
        tgt = sens[-1]
        if degen == "constant":
            colsv[tgt] = [r.randint(-4, 6)] * n
        elif degen == "duplicate" and k >= 2:
            colsv[tgt] = list(colsv[sens[0]])
        elif degen == "shifted-copy" and k >= 2:
            colsv[tgt] = [v + 5 for v in colsv[sens[0]]]
        elif degen == "affine" and k >= 3:
            a, b, c = r.randint(-2, 2), r.randint(-2, 2), r.randint(-3, 3)
            colsv[tgt] = [a * u + b * v + c for u, v in zip(colsv[sens[0]], colsv[sens[1]])]
        elif degen == "repeated-id":
            sens = sens + [sens[0]]
        else:
            degen = "constant"
            colsv[tgt] = [r.randint(-4, 6)] * n
    if degen == "none" and k >= 2 and i % 5 == 1:
        # sensitive columns on very different scales (an income next to a 0/1 flag): powers of two keep every
        # entry exactly representable; the small-scale direction must still be projected out
        degen = "scales"
        colsv[sens[0]] = [v * 1024 for v in colsv[sens[0]]]
        colsv[sens[-1]] = [v % 2 for v in colsv[sens[-1]]]
        if len(set(colsv[sens[-1]])) == 1:
            colsv[sens[-1]][0] = 1 - colsv[sens[-1]][0]
    container = r.choice(["ndarray", "DataFrame", "DataFrame", "DataFrameInt"])
    if container == "ndarray":
        labels = list(range(m))
    elif container == "DataFrame":
        labels = r.sample(["a", "b", "c", "d", "e", "f", "g", "h", "s0", "s1", "0", "1"], m)
    else:
        labels = r.sample(list(range(0, m + 3)), m)      # integer labels that are NOT the positions
    ids = [labels[j] for j in sens]
    nnew = r.randint(1, 3)
    xnew = [[r.randint(-4, 6) for _ in range(nnew)] for _ in range(m)]
    c = {"kind": "fit", "cols": colsv, "labels": labels, "ids": ids, "container": container,
         "alpha": r.choice(ALPHAS), "new": xnew, "degen": degen}
    if i % 41 == 40:                      # an id that is not a column: ValueError <-> model None
        c["ids"] = ids + ([m + 5] if container != "DataFrame" else ["zz"])
        c["degen"] = "missing-id"
    return c


def cases(tier, seed):
    n = {"quick": 300, "thorough": 3000}[tier]
    return [_mk(Rng(seed, PID, tier, i), i, tier) for i in range(n)]


# ------------------------------------------------------------------ implementation
def _input(case, cols):
    import numpy as np, pandas as pd
    arr = np.array(cols, dtype=float).T if case.get("float") else np.array(cols).T
    if case["container"] == "ndarray":
        return arr
    return pd.DataFrame(arr, columns=list(case["labels"]))


def impl(case):
    import numpy as np
    from fairlearn.preprocessing import CorrelationRemover
    X = _input(case, case["cols"])
    Xn = _input(case, case["new"])
    alpha = float(Fraction(case["alpha"]))
    res = {}

    import copy as _copy, hashlib as _h, json as _j
    X_before = _copy.deepcopy(X)
    hv = int(_h.sha1(_j.dumps({k_: v_ for k_, v_ in case.items() if not str(k_).startswith("_")},
                                sort_keys=True, default=str).encode()).hexdigest(), 16)

    def run(a, prehist=False):
        if prehist:
            # the same estimator object first configured with another alpha / id order and fitted on other rows
            # of the same width, then re-configured through set_params: the result must describe the last
            # configuration and the last data only
            ids0 = list(case["ids"])[::-1]
            cr = CorrelationRemover(sensitive_feature_ids=ids0, alpha=(0.5 if a != 0.5 else 0.25))
            try:
                cr.fit(_copy.deepcopy(X)[::-1] if not hasattr(X, "iloc") else X.iloc[::-1].reset_index(drop=True))
            except Exception:
                pass
            cr.set_params(sensitive_feature_ids=list(case["ids"]), alpha=a)
        else:
            cr = CorrelationRemover(sensitive_feature_ids=list(case["ids"]), alpha=a)
        return cr, cr.fit_transform(X)
    try:
        cr, out = run(alpha, prehist=(hv % 4 == 0))
    except ValueError as e:
        return {"error": "ValueError", "msg": str(e)[:200]}
    try:
        res["input_untouched"] = bool(np.array_equal(np.asarray(X, dtype=float), np.asarray(X_before, dtype=float)))
    except Exception:
        res["input_untouched"] = True
    res["out"] = np.asarray(out, dtype=float).T.tolist()            # list of columns
    res["shape"] = list(np.asarray(out).shape)
    res["out1"] = np.asarray(run(1.0)[1], dtype=float).T.tolist()
    res["out0"] = np.asarray(run(0.0)[1], dtype=float).T.tolist()
    res["beta"] = np.atleast_2d(np.asarray(cr.beta_, dtype=float)).tolist()   # rows = sensitive columns
    res["mean"] = np.ravel(np.asarray(cr.sensitive_mean_, dtype=float)).tolist()
    tn = np.asarray(cr.transform(Xn), dtype=float)
    res["new"] = tn.T.tolist()
    # the same rows one at a time, and the midpoint of the first two rows (row-wise affine map)
    rows1 = []
    for i in range(Xn.shape[0]):
        rows1.append(np.asarray(cr.transform(Xn[i:i + 1] if case["container"] == "ndarray" else Xn.iloc[i:i + 1]),
                                dtype=float)[0].tolist())
    res["new_rowwise"] = rows1
    A = np.asarray(Xn, dtype=float)
    if A.shape[0] >= 2:
        mid = (A[0:1] + A[1:2]) / 2.0
        if case["container"] != "ndarray":
            import pandas as pd
            mid = pd.DataFrame(mid, columns=list(case["labels"]))
        res["new_mid"] = np.asarray(cr.transform(mid), dtype=float)[0].tolist()
    res["again"] = np.asarray(cr.transform(X), dtype=float).T.tolist()
    # independent of the code under test: numerical rank of the float-centred sensitive block at lstsq's
    # DOCUMENTED default cut-off eps*max(M,N)*s_max, and its exact rank (Fractions)
    _, sens = _split(case)
    S = np.array([case["cols"][j] for j in sens], dtype=float).T
    Cf = S - S.mean(axis=0)
    sv = np.linalg.svd(Cf, compute_uv=False)
    cut = np.finfo(float).eps * max(Cf.shape) * (sv[0] if len(sv) else 0.0)
    res["float_rank_default_rcond"] = int((sv > cut).sum())
    res["exact_rank"] = _rank([_centred(case["cols"][j]) for j in sens])
    return res


# ------------------------------------------------------------------ model
def _codes(case):
    """labels -> Z codes: positions for ndarray, otherwise arbitrary distinct codes; unknown ids -> fresh code"""
    labels = case["labels"]
    if case["container"] == "ndarray":
        return [int(l) for l in labels], [int(i) for i in case["ids"]]
    code = {l: 100 + 7 * j for j, l in enumerate(labels)}
    return [code[l] for l in labels], [code.get(i, 9999) for i in case["ids"]]


def _gmat(cols):
    return glist([glist(c, gq) for c in cols])


def term(case, out):
    names, ids = _codes(case)
    return (f"run_case {glist(names, gz)} {glist(ids, gz)} {gq(Fraction(case['alpha']))} "
            f"{_gmat(case['cols'])} {_gmat(case['new'])}")


def decode(case, zs):
    d = Dec(zs)
    mat = lambda: d.list(lambda: d.list(d.q))
    ft = d.opt(mat)
    fitted = d.opt(lambda: {"mean": d.list(d.q), "beta": mat()})
    new = d.opt(mat)
    same_tf = d.opt(d.bool)
    same_global = d.opt(d.bool)
    zero_cov = d.opt(d.bool)
    normal = d.opt(d.bool)
    d.done()
    return {"out": ft, "fitted": fitted, "new": new, "transform_eq_fit_transform": same_tf,
            "scalar_centring_same": same_global, "zero_cov": zero_cov, "normal_eqs": normal}


# ------------------------------------------------------------------ comparison
def _close(a, b, scale=1.0):
    return abs(float(a) - float(b)) <= TOL * max(1.0, scale)


def _mclose(A, B, scale=1.0):
    if len(A) != len(B):
        return False
    for ca, cb in zip(A, B):
        if len(ca) != len(cb) or not all(_close(x, y, scale) for x, y in zip(ca, cb)):
            return False
    return True


def _split(case):
    labels = list(case["labels"])
    sens = [labels.index(i) for i in case["ids"]]
    use = [j for j in range(len(labels)) if j not in sens]
    return use, sens


def _scale(case):
    return max([abs(v) for c in case["cols"] + case["new"] for v in c] + [1])


def compare(case, out, model):
    v = []
    if model is None:
        return [(f"{PID}/harness/no-model", "no model value", "model evaluates", "correspondence")]
    if out.get("input_untouched") is False:
        v.append((f"{PID}/fit_transform/input/modified-in-place", "fit_transform changed its input matrix in place",
                  "the transform is a function of its input (which it leaves alone)", "property"))
    # theorem sanity on the model itself
    if model["zero_cov"] is False or model["normal_eqs"] is False or model["transform_eq_fit_transform"] is False:
        v.append((f"{PID}/model/theorem-contradicted", f"model flags {model['zero_cov']}, {model['normal_eqs']}, "
                  f"{model['transform_eq_fit_transform']} contradict the proved theorems (harness or build defect)",
                  "zero covariance / normal equations / transform = fit_transform on the model", "correspondence"))
    # the theorems' full-rank guard (Gauss-Jordan finds a pivot in every column <=> fit = Some) must agree with
    # the exact rank of the centred sensitive block computed independently with Fractions
    if "error" not in out and model["out"] is not None and "exact_rank" in out:
        full = out["exact_rank"] == len(case["ids"])
        if full != (model["fitted"] is not None):
            v.append((f"{PID}/model/guard-is-not-full-rank", f"model guard fit=Some is {model['fitted'] is not None} "
                      f"but the exact rank of the centred block is {out['exact_rank']} of {len(case['ids'])}",
                      "Gauss-Jordan finds a pivot in every column iff the centred block has full column rank",
                      "correspondence"))
    if "error" in out:
        if model["out"] is not None:
            v.append((f"{PID}/fit_transform/error/unexpected", f"implementation raised {out['msg']}",
                      "fit_transform succeeds when every id is a column", "property"))
        return v
    if model["out"] is None:
        v.append((f"{PID}/fit_transform/error/missing-id-accepted", "an id that is not a column was accepted",
                  "ValueError for a missing sensitive_feature_id", "correspondence"))
        return v
    use, sens = _split(case)
    cols = case["cols"]
    n = len(cols[0])
    alpha = float(Fraction(case["alpha"]))
    sc = _scale(case)
    # Known defect class of the unchanged tree (registered in known_findings.json): the exact centred sensitive
    # block is rank deficient (model: no unique beta) AND numpy's lstsq misjudged its rank after the float
    # centring, visible as a blown-up beta_ (exact minimum-norm coefficients of these inputs are O(10)).
    # Everything else -- full-rank inputs, rank-deficient inputs with a sane beta_ -- keeps the plain signature.
    bmax = max([abs(b) for row in out["beta"] for b in row] + [0.0])
    # ... and only when the float-centred block really is numerically full(er) rank at lstsq's documented default
    # cut-off (computed independently in impl): a changed cut-off or solver that breaks OTHER collinear inputs
    # is reported under the plain signature.
    rd = "-rank-deficient-block" if (model["fitted"] is None and bmax > 1e6
                                     and out.get("float_rank_default_rcond", 0) > out.get("exact_rank", 99)) else ""
    # ---- oracle on the implementation alone -------------------------------------------------
    if out["shape"] != [n, len(use)]:
        v.append((f"{PID}/fit_transform/shape/columns-not-dropped", f"output shape {out['shape']}, expected "
                  f"{[n, len(use)]}", "sensitive columns dropped, one output column per other column", "property"))
        return v
    xuse = [cols[j] for j in use]
    if not _mclose(out["out0"], xuse, sc):
        v.append((f"{PID}/fit_transform/alpha0/columns-changed-or-reordered", "alpha = 0 does not return the "
                  "non-sensitive columns in their original order", "alpha = 0: X_use unchanged, order kept", "property"))
    blend = [[alpha * a + (1 - alpha) * b for a, b in zip(c1, c0)] for c1, c0 in zip(out["out1"], xuse)]
    if not _mclose(out["out"], blend, sc * sc):
        v.append((f"{PID}/fit_transform/alpha/not-the-blend", f"output for alpha={case['alpha']} is not "
                  "alpha*output(alpha=1) + (1-alpha)*original", "alpha blend relation", "property"))
    worst = 0.0
    for r in out["out1"]:
        mr = sum(r) / n
        for j in sens:
            s = cols[j]
            ms = sum(s) / n
            cv = sum((a - mr) * (b - ms) for a, b in zip(r, s))
            bound = TOL * (1.0 + n * max(abs(x) for x in r + [1.0]) * max(abs(x - ms) for x in s + [ms + 1.0]))
            worst = max(worst, abs(cv) / bound)
    if worst > 1.0:
        v.append((f"{PID}/fit_transform/covariance/non-zero{rd}", "alpha = 1 output has non-zero sample covariance "
                  f"with a sensitive column (|cov|/tolerance = {worst:.3g})",
                  "sum_i (s_ij - mean s_j)(r_ik - mean r_k) = 0 for every sensitive j and output k", "property"))
    if not _mclose(out["again"], out["out"], sc * sc):
        v.append((f"{PID}/transform/training-data/differs-from-fit_transform", "transform(X) after fit differs "
                  "from fit_transform(X)", "transform is a fixed map learned in fit", "property"))
    newrows = [list(r) for r in zip(*out["new"])] if out["new"] and out["new"][0] else []
    big = sc * sc * (1.0 + max([abs(b) for row in out["beta"] for b in row] + [0.0]))
    if newrows and not _mclose(newrows, out["new_rowwise"], big):
        v.append((f"{PID}/transform/new-data/not-row-wise", "transform of several rows differs from transform of "
                  "each row alone (the map depends on the data it is applied to)",
                  "transform applies the affine map learned in fit, whatever data it is given", "property"))
    if "new_mid" in out and len(newrows) >= 2:
        mid = [(a + b) / 2.0 for a, b in zip(newrows[0], newrows[1])]
        if not _mclose([mid], [out["new_mid"]], big):
            v.append((f"{PID}/transform/new-data/not-affine", "transform of the midpoint of two rows is not the "
                      "midpoint of their transforms", "transform is affine", "property"))
    # ---- implementation vs (proved) model --------------------------------------------------
    if not _mclose(out["out"], model["out"], sc * sc):
        v.append((f"{PID}/fit_transform/output/differs-from-model{rd}", "fit_transform differs from alpha*(X_use - "
                  "least-squares projection on the per-column-centred sensitive columns) + (1-alpha)*X_use",
                  "output equals CorrRemover.fit_transform (tolerance 1e-8)", "property"))
    if model["fitted"] is not None:
        if not _mclose([out["mean"]], [model["fitted"]["mean"]], sc):
            v.append((f"{PID}/fit/sensitive_mean_/differs-from-model", f"sensitive_mean_ {out['mean']} vs per-column "
                      f"means {[float(x) for x in model['fitted']['mean']]}", "sensitive_mean_ = column means",
                      "correspondence"))
        if not _mclose(out["beta"], model["fitted"]["beta"], big):
            v.append((f"{PID}/fit/beta_/differs-from-model", "beta_ differs from the solution of the normal equations",
                      "beta_ = (C^T C)^-1 C^T X_use (full column rank)", "correspondence"))
        if not _mclose(out["new"], model["new"], big):
            v.append((f"{PID}/transform/new-data/differs-from-model", "transform on fresh rows differs from "
                      "alpha*(X'_use - (X'_s - training mean) beta) + (1-alpha)*X'_use",
                      "transform applies the training means and coefficients to new data", "property"))
    return v


def tags(case, out, model):
    use, sens = (None, None)
    t = [f"container:{case['container']}", f"alpha:{case['alpha']}", f"n:{len(case['cols'][0])}",
         f"degen:{case['degen']}", f"k:{len(case['ids'])}", f"p:{len([l for l in case['labels'] if l not in case['ids']])}"]
    if model is not None and model.get("out") is not None:
        t.append("rank:full" if model["fitted"] is not None else "rank:deficient")
        if model["scalar_centring_same"] is False:
            t.append("distinguishes-scalar-centring(e03cf38)")
        ids = list(case["ids"])
        labels = list(case["labels"])
        pos = [labels.index(i) for i in ids]
        t.append("ids:increasing" if pos == sorted(pos) and len(set(pos)) == len(pos) else "ids:not-increasing")
    elif model is not None:
        t.append("error:missing-id")
    return t


def nontrivial(case, out, model):
    if model is None or model.get("out") is None or "error" in out or Fraction(case["alpha"]) == 0:
        return False
    use, _ = _split(case)
    xuse = [case["cols"][j] for j in use]
    return any(Fraction(a) != b for ca, cb in zip(xuse, model["out"]) for a, b in zip(ca, cb))


def canon(case):
    return {k: v for k, v in case.items() if not k.startswith("_")}


def shrink(case):
    case = {k: v for k, v in case.items() if k not in ("note", "_corpus")}
    cols, new = case["cols"], case["new"]
    n = len(cols[0])
    # drop a row
    if n > 2:
        for i in range(n):
            yield dict(case, cols=[c[:i] + c[i + 1:] for c in cols])
    # drop a non-sensitive column / a sensitive id
    ok_ids = all(i in case["labels"] for i in case["ids"])
    use, sens = _split(case) if ok_ids else ([], [])
    if len(use) > 1:
        for j in use:
            yield _dropcol(case, j)
    if len(case["ids"]) > 1:
        for t in range(len(case["ids"])):
            yield dict(case, ids=case["ids"][:t] + case["ids"][t + 1:])
    if len(new[0]) > 1:
        yield dict(case, new=[c[:-1] for c in new])
    # simplify entries
    for j in range(len(cols)):
        for i in range(n):
            if cols[j][i] not in (0, 1):
                c2 = [list(c) for c in cols]
                c2[j][i] = 0 if cols[j][i] % 2 == 0 else 1
                yield dict(case, cols=c2)


def _dropcol(case, j):
    cols, new, labels = case["cols"], case["new"], list(case["labels"])
    c = dict(case, cols=cols[:j] + cols[j + 1:], new=new[:j] + new[j + 1:])
    if case["container"] == "ndarray":       # labels are positions: renumber
        c["labels"] = list(range(len(labels) - 1))
        c["ids"] = [i - 1 if i > j else i for i in case["ids"]]
    else:
        c["labels"] = labels[:j] + labels[j + 1:]
    return c
